"""sys.monitoring probes on code objects of the code under test (Python 3.12).

Probes observe *every* execution of a function however it was bound (module-level
`from x import *`, functools.partial, bound method stored in a dict ...).  They
are local to code objects, so the cost is paid only inside the probed functions.
"""
import sys
import types

mon = sys.monitoring
E = mon.events
_TOOL = 3
_handlers = {}      # code -> {event: [callbacks]}
_installed = False


def _dispatch(event):
    def cb(code, *args):
        hs = _handlers.get(code)
        if hs:
            for h in hs.get(event, ()):
                h(code, *args)
    return cb


def _install():
    global _installed
    if _installed:
        return
    mon.use_tool_id(_TOOL, 'pytough-verif')
    for ev in (E.PY_START, E.PY_RETURN, E.RAISE, E.LINE):
        mon.register_callback(_TOOL, ev, _dispatch(ev))
    _installed = True


def code_of(f):
    if isinstance(f, types.CodeType):
        return f
    if isinstance(f, property):
        f = f.fget
    f = getattr(f, '__func__', f)
    f = getattr(f, '__wrapped__', f)
    return f.__code__


def nested_code(f, name):
    """Code object of a function defined inside `f` (e.g. refine.transition_type)."""
    def walk(code):
        for c in code.co_consts:
            if isinstance(c, types.CodeType):
                if c.co_name == name:
                    return c
                r = walk(c)
                if r is not None:
                    return r
        return None
    r = walk(code_of(f))
    if r is None:
        raise LookupError('no nested function %s in %s' % (name, f))
    return r


def _add(code, event, cb):
    _install()
    hs = _handlers.setdefault(code, {})
    hs.setdefault(event, []).append(cb)
    mask = 0
    for ev in hs:
        mask |= ev
    mon.set_local_events(_TOOL, code, mask)


def on_call(f, cb):
    """cb(frame_locals) at every start of f."""
    code = code_of(f)

    def h(code_, offset):
        cb(sys._getframe(2).f_locals)
    _add(code, E.PY_START, h)


def on_return(f, cb):
    """cb(frame_locals, retval) at every normal return of f."""
    code = code_of(f)

    def h(code_, offset, retval):
        cb(sys._getframe(2).f_locals, retval)
    _add(code, E.PY_RETURN, h)


def on_raise(f, cb):
    """cb(frame_locals, exception) whenever an exception is raised inside f
    (including ones f catches itself)."""
    code = code_of(f)

    def h(code_, offset, exc):
        cb(sys._getframe(2).f_locals, exc)
    _add(code, E.RAISE, h)


class CallCounter(object):
    """Counts executions per code object: proves a mechanism was reached."""
    def __init__(self):
        self.counts = {}

    def watch(self, f, label=None):
        code = code_of(f)
        label = label or code.co_qualname
        self.counts.setdefault(label, 0)

        def h(code_, offset):
            self.counts[label] += 1
        _add(code, E.PY_START, h)
        return self

    def watch_methods(self, cls, names):
        for n in names:
            self.watch(getattr(cls, n), '%s.%s' % (cls.__name__, n))
        return self


class LineCoverage(object):
    """Anchored-line coverage: LINE events, each disabled after its first hit."""
    def __init__(self):
        self.hit = {}
        self.total = {}

    def watch(self, f, label=None):
        code = code_of(f)
        label = label or code.co_qualname
        lines = set(l for _, _, l in code.co_lines() if l is not None and l != code.co_firstlineno)
        self.total[label] = lines
        hit = self.hit.setdefault(label, set())

        def h(code_, line):
            hit.add(line)
            return mon.DISABLE
        _add(code, E.LINE, h)
        return self

    def summary(self):
        return {k: '%d/%d' % (len(self.hit[k] & self.total[k]), len(self.total[k])) for k in self.total}

    def missed(self, label):
        return sorted(self.total[label] - self.hit[label])
