"""Registry: property id -> INFO of its module (rule, requirements, watchdogs)."""
import importlib


class _Props(dict):
    def __missing__(self, prop):
        mod = importlib.import_module('vf.props.%s' % prop.lower())
        self[prop] = mod.INFO
        return mod.INFO


PROPS = _Props()


def plan(prop, tier, seed):
    mod = importlib.import_module('vf.props.%s' % prop.lower())
    return mod.plan(tier, seed)
