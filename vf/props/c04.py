"""C04 -- geometry -> TOUGH2 grid conversion is geometrically exact and index-consistent.

Monitor shape: reference geometry.  Every block and connection of the grid the real
fromgeo() builds is re-derived by own plane geometry (vf/oracle/polygeo.py) from the
node positions, column centres, layer elevations and surfaces of the geometry.
"""
import math
import os

from vf.core import HarnessError
from vf.gen import geos
from vf.oracle import polygeo as PG
from vf.repo import R

INFO = {
    'rule': ('cases = (geometry, surfaces, atmosphere type, convention, block order, permeability angle, tilt, block map): rectangular '
             'with random spacings/origin, shipped g1..g7 and refinements, rotated/translated copies; surfaces from just above the '
             'bottom layer to above the top layer (incl. exactly on layer boundaries); with/without a random injective block map. Every '
             'block and connection of the resulting grid is an oracle evaluation. Distinct = distinct descriptor; non-trivial = at least '
             'one column surface cutting a layer.'),
    'require': {
        'quick': {'counters': {'grids': 60, 'blocks_checked': 3000, 'horizontal_connections_checked': 2000,
                               'vertical_connections_checked': 2000, 'atmosphere_connections_checked': 100,
                               'surface_cut_blocks': 100, 'columns_with_specified_centre': 10, 'atmosphere_type_switched_by_setter': 8},
                  'seen': {'atmosphere_type': 3}, 'nontrivial': 25},
        'thorough': {'counters': {'grids': 4000, 'blocks_checked': 400000, 'horizontal_connections_checked': 400000,
                                  'vertical_connections_checked': 250000, 'atmosphere_connections_checked': 12000,
                                  'surface_cut_blocks': 12000, 'columns_with_specified_centre': 1200, 'atmosphere_type_switched_by_setter': 500},
                     'seen': {'atmosphere_type': 3}, 'nontrivial': 2000},
    },
    'watchdog_s': {'quick': 1200, 'thorough': 5400},
    'assumptions': ['relative tolerance 1e-9 (pure float64 geometry)',
                    'permeability direction is not judged within 1e-6 of a tie between the two horizontal axes'],
}
TOL = 1e-9


def plan(tier, seed):
    if tier == 'quick':
        return [{'kind': 'gen', 'n': 25} for _ in range(3)] + [{'kind': 'shipped', 'names': ['g7', 'g5', 'g1'], 'variants': 2}]
    return [{'kind': 'gen', 'n': 400} for _ in range(12)] + [{'kind': 'shipped', 'names': [n], 'variants': 4} for n in ['g1', 'g2', 'g3', 'g4', 'g5', 'g6', 'g7']]


def close(a, b, scale=None, rel=TOL):
    s = max(abs(a), abs(b), scale or 0.0, 1e-300)
    return abs(a - b) <= rel * s + 1e-12 * (scale or 0.0)


def check_grid(ctx, geo, grid, blockmap, case, label):
    """All clauses of the property on one (geometry, grid) pair.  Returns number of surface-cut blocks."""
    def V(key, what):
        ctx.violation('%s:%s' % (key, label), what, case)
    mp = lambda n: blockmap.get(n, n)                              # noqa: E731
    # 1. membership, order, orientation
    names = [b.name for b in grid.blocklist]
    exp_names = [mp(n) for n in geo.block_name_list]
    if names != exp_names:
        k = next((i for i, (a, b) in enumerate(zip(names, exp_names)) if a != b), min(len(names), len(exp_names)))
        V('block-list', 'grid blocks differ from the geometry\'s block name list at %d: %r vs %r (%d vs %d)' % (
            k, names[k] if k < len(names) else None, exp_names[k] if k < len(exp_names) else None, len(names), len(exp_names)))
        return 0
    cons = [tuple(b.name for b in c.block) for c in grid.connectionlist]
    exp_cons = [tuple(mp(n) for n in c) for c in geo.block_connection_name_list]
    if cons != exp_cons:
        k = next((i for i, (a, b) in enumerate(zip(cons, exp_cons)) if a != b), min(len(cons), len(exp_cons)))
        V('connection-list', 'grid connections differ from the geometry\'s connection name list at %d: %r vs %r (%d vs %d)' % (
            k, cons[k] if k < len(cons) else None, exp_cons[k] if k < len(exp_cons) else None, len(cons), len(exp_cons)))
        return 0
    # own description of the geometry
    lays = geo.layerlist
    ground = lays[0].bottom
    bottoms = [l.bottom for l in lays]
    tops = [ground] + bottoms[:-1]                 # top of layer k is the bottom of layer k-1
    col_area = {}
    col_tol = {}
    col_poly = {}
    for c in geo.columnlist:
        poly = [(n.pos[0], n.pos[1]) for n in c.node]
        col_poly[c.name] = poly
        col_area[c.name] = PG.area(poly)
        # tolerance on anything proportional to a column area: float64 conditioning of an area
        # formula applied to raw coordinates (map coordinates in the millions)
        col_tol[c.name] = TOL + 4e-16 * PG.area_conditioning(poly)
        ctx.maximum('area conditioning (coordinate product / area)', PG.area_conditioning(poly), {'column': c.name})
        if c.centre_specified:
            ctx.count('columns_with_specified_centre')
    gx = geo.gdcx or 0.0
    gy = geo.gdcy or 0.0
    tilt = (gx, gy, -math.sqrt(max(0.0, 1.0 - gx * gx - gy * gy)))
    natm = [1, len(geo.columnlist), 0][geo.atmosphere_type]
    ncut = 0
    height = {}
    centre_z = {}
    # 2. blocks
    i = 0
    if geo.atmosphere_type == 0:
        b = grid.blocklist[0]
        if not close(b.volume, geo.atmosphere_volume):
            V('atmosphere-volume', 'atmosphere block volume %r, geometry says %r' % (b.volume, geo.atmosphere_volume))
        i = 1
    elif geo.atmosphere_type == 1:
        for c in geo.columnlist:
            b = grid.block[mp(geo.block_name(lays[0].name, c.name))]
            if not close(b.volume, geo.atmosphere_volume):
                V('atmosphere-volume', 'atmosphere block %r volume %r, geometry says %r' % (b.name, b.volume, geo.atmosphere_volume))
                break
            i += 1
    total = 0.0
    for k in range(1, len(lays)):
        for c in geo.columnlist:
            s = c.surface
            if not s > bottoms[k]:
                continue
            # the block of this (layer, column) by NAME: the position in the list depends on the block order
            # (the order itself was compared with the geometry's own list above)
            nm = mp(geo.block_name(lays[k].name, c.name))
            if nm not in grid.block:
                V('block-missing', 'no block %r for layer %r, column %r below its surface' % (nm, lays[k].name, c.name))
                return ncut
            b = grid.block[nm]
            i += 1
            top = min(s, tops[k])
            if k == 1 and s > tops[1]:
                top = s
                ctx.count('surface_above_top_layer')
            if top < tops[k] - 1e-12:
                ncut += 1
            h = top - bottoms[k]
            vol = col_area[c.name] * h
            height[b.name] = h
            total += vol
            ctx.count('blocks_checked')
            if not close(b.volume, vol, rel=col_tol[c.name]):
                V('block-volume', 'block %r volume %r, column area x height = %r x %r = %r' % (b.name, b.volume, col_area[c.name], h, vol))
                return ncut
            cz = 0.5 * (bottoms[k] + s) if (bottoms[k] < s <= tops[k]) else lays[k].centre
            centre_z[b.name] = cz
            cc = (c.centre[0], c.centre[1], cz)
            if b.centre is None or not all(close(x, y, 1.0) for x, y in zip(b.centre, cc)):
                V('block-centre', 'block %r centre %r, expected %r' % (b.name, b.centre, cc))
                return ncut
    if i != len(grid.blocklist):
        V('block-count', '%d blocks in the grid, %d derived from the geometry' % (len(grid.blocklist), i))
        return ncut
    depth_total = sum(col_area[c.name] * (c.surface - bottoms[-1]) for c in geo.columnlist if c.surface > bottoms[-1])
    und = sum(b.volume for b in grid.blocklist[natm:])
    if not close(und, depth_total, rel=max(col_tol.values())):
        V('total-volume', 'underground volume %r, sum of area x depth to surface %r' % (und, depth_total))
    ctx.count('surface_cut_blocks', ncut)
    # 3./4. connections
    layer_of = {}
    col_of = {}
    inv = dict((v, k) for k, v in blockmap.items())
    for n in names:
        g = inv.get(n, n)
        layer_of[n], col_of[n] = geo.layer_name(g), geo.column_name(g)
    ang = math.radians(geo.permeability_angle or 0.0)
    ax1 = (math.cos(ang), math.sin(ang))
    ax2 = (-math.sin(ang), math.cos(ang))
    for con in grid.connectionlist:
        a, b = con.block[0], con.block[1]
        if a.atmosphere or b.atmosphere:
            # atmosphere connection: block first, atmosphere second
            if a.atmosphere:
                V('atmosphere-connection-orientation', 'connection %r lists the atmosphere block first' % ((a.name, b.name),))
                return ncut
            c = geo.column[col_of[a.name]]
            ctx.count('atmosphere_connections_checked')
            d1 = c.surface - centre_z[a.name]
            if not close(con.distance[0], d1, 1.0) or not close(con.distance[1], geo.atmosphere_connection):
                V('atmosphere-connection-distances', 'connection %r distances %r, expected [%r, %r]' % ((a.name, b.name), list(con.distance), d1, geo.atmosphere_connection))
                return ncut
            if not close(con.area, col_area[c.name], rel=col_tol[c.name]) or con.direction != 3 or not close(con.dircos, tilt[2]):
                V('atmosphere-connection-params', 'connection %r area %r direction %r cosine %r, expected %r 3 %r' % ((a.name, b.name), con.area, con.direction, con.dircos, col_area[c.name], tilt[2]))
                return ncut
            continue
        if col_of[a.name] == col_of[b.name]:
            ctx.count('vertical_connections_checked')
            c = geo.column[col_of[a.name]]
            # lower block first
            if not centre_z[a.name] < centre_z[b.name]:
                V('vertical-orientation', 'vertical connection %r does not list the lower block first' % ((a.name, b.name),))
                return ncut
            sep = centre_z[b.name] - centre_z[a.name]
            if not close(con.distance[0] + con.distance[1], sep, 1.0) or con.distance[0] <= 0 or con.distance[1] <= 0:
                V('vertical-distances', 'connection %r distances %r do not add up to the centre separation %r' % ((a.name, b.name), list(con.distance), sep))
                return ncut
            if not close(con.area, col_area[c.name], rel=col_tol[c.name]):
                V('vertical-area', 'connection %r area %r, column area %r' % ((a.name, b.name), con.area, col_area[c.name]))
                return ncut
            if con.direction != 3 or not close(con.dircos, tilt[2]):
                V('vertical-cosine', 'connection %r direction %r cosine %r, expected 3 and %r' % ((a.name, b.name), con.direction, con.dircos, tilt[2]))
                return ncut
            continue
        # horizontal
        ctx.count('horizontal_connections_checked')
        ca, cb = geo.column[col_of[a.name]], geo.column[col_of[b.name]]
        shared = [n for n in ca.node if n in cb.node]
        if len(shared) != 2:
            V('horizontal-shared-edge', 'connected columns %r and %r share %d nodes' % (ca.name, cb.name, len(shared)))
            return ncut
        p, q = (shared[0].pos[0], shared[0].pos[1]), (shared[1].pos[0], shared[1].pos[1])
        L = PG.dist(p, q)
        exp_area = L * min(height[a.name], height[b.name])
        if not close(con.area, exp_area):
            V('horizontal-area', 'connection %r area %r, edge %r x lower height %r = %r' % ((a.name, b.name), con.area, L, min(height[a.name], height[b.name]), exp_area))
            return ncut
        da = PG.point_line_distance((ca.centre[0], ca.centre[1]), p, q)
        db = PG.point_line_distance((cb.centre[0], cb.centre[1]), p, q)
        if not close(con.distance[0], da, L) or not close(con.distance[1], db, L):
            V('horizontal-distances', 'connection %r distances %r, perpendicular distances of the column centres from the edge %r' % (
                (a.name, b.name), list(con.distance), [da, db]))
            return ncut
        d = (cb.centre[0] - ca.centre[0], cb.centre[1] - ca.centre[1], centre_z[b.name] - centre_z[a.name])
        nd = math.sqrt(d[0] ** 2 + d[1] ** 2 + d[2] ** 2)
        exp_cos = (d[0] * tilt[0] + d[1] * tilt[1] + d[2] * tilt[2]) / nd
        if abs(con.dircos - exp_cos) > 1e-9:
            V('horizontal-cosine', 'connection %r cosine %r, centre-to-centre line against gravity gives %r' % ((a.name, b.name), con.dircos, exp_cos))
            return ncut
        if abs(d[2]) > 1e-9 and gx == 0 and gy == 0:
            ctx.count('horizontal_with_nonzero_cosine')
        a1 = abs(d[0] * ax1[0] + d[1] * ax1[1])
        a2 = abs(d[0] * ax2[0] + d[1] * ax2[1])
        if abs(a1 - a2) > 1e-6 * max(a1, a2):
            exp_dir = 1 if a1 > a2 else 2
            if con.direction != exp_dir:
                V('horizontal-direction', 'connection %r permeability direction %r, expected %r (components %r, %r)' % ((a.name, b.name), con.direction, exp_dir, a1, a2))
                return ncut
    return ncut


def random_blockmap(rng, geo):
    names = geo.block_name_list
    if not names or rng.random() < 0.5:
        return {}
    src = rng.sample(names, min(3000, max(1, len(names) // 3)))
    mp = {}
    used = set(names)
    L = 'ABCDEFGHIJKLMNOPQRSTUVWXYZ'
    for s in src:
        n = '%s%s%s%02d' % (rng.choice('MNPQ'), rng.choice(L), rng.choice(L), rng.randint(10, 99))       # 240 000 names
        while n in used:
            n = '%s%s%s%02d' % (rng.choice('MNPQ'), rng.choice(L), rng.choice(L), rng.randint(10, 99))
        used.add(n)
        mp[s] = n
    return mp


def decorate(ctx, geo, desc):
    rng = ctx.rng
    if rng.random() < 0.5:
        geo.permeability_angle = rng.choice([0.0, 30.0, 44.0, 46.0, 90.0, -17.0])
    if rng.random() < 0.2:
        # a direction without tilt is spelled 0.0 or left out (None, which is also what a blank header field reads as)
        geo.gdcx, geo.gdcy = rng.choice([0.0, None, 0.1, -0.2]), rng.choice([0.0, None, 0.05, 0.3])
    if rng.random() < 0.3:
        geo.atmosphere_volume, geo.atmosphere_connection = rng.choice([1e20, 1e25, 1.0]), rng.choice([1e-6, 0.5, 10.0])
    desc['header'] = [geo.permeability_angle, geo.gdcx, geo.gdcy, geo.atmosphere_volume, geo.atmosphere_connection]
    if rng.random() < 0.3 and geo.num_layers > 2:
        # layer centres as a geometry file may give them: anywhere inside the layer, not necessarily half-way up (the
        # centre of a full block is its layer's centre: distances to the faces above and below then differ)
        fr = {}
        for lay in geo.layerlist[1:]:
            if rng.random() < 0.6:
                f = rng.choice([0.25, 0.4, 0.6, 0.75])
                lay.centre = lay.bottom + f * (lay.top - lay.bottom)
                fr[lay.name] = f
        desc['layer_centres_off_middle'] = fr
        ctx.count('geometries_with_layer_centres_off_middle')
    if rng.random() < 0.3:
        import numpy as np
        n = 0
        for c in geo.columnlist:
            if rng.random() < 0.4:
                cen = c.centroid
                c.centre = np.array([cen[0] + rng.uniform(-0.1, 0.1) * math.sqrt(c.area), cen[1] + rng.uniform(-0.1, 0.1) * math.sqrt(c.area)])
                c.centre_specified = 1
                n += 1
        desc['specified_centres'] = n


def run_one(ctx, geo, desc, label):
    t2g = R.t2grids
    bm = random_blockmap(ctx.rng, geo)
    case = {'geo': desc, 'blockmap': bm, 'seed': ctx.seed, 'shard': ctx.shard}
    with ctx.guard(case, where='fromgeo') as g:
        grid = t2g.t2grid().fromgeo(geo, dict(bm))
    if g.raised is not None:
        return
    ctx.evaluated()
    ctx.count('grids')
    ctx.see('atmosphere_type', str(geo.atmosphere_type))
    ctx.see('convention', str(geo.convention))
    ctx.see('block_order', str(geo.block_order))
    with_map = ':blockmap' if bm else ''
    ncut = check_grid(ctx, geo, grid, bm, case, label + with_map)
    ctx.evaluated(grid.num_blocks + grid.num_connections)
    ctx.case(repr(desc) + repr(sorted(bm.items())[:3]), nontrivial=ncut > 0, sample=(ncut > 0 and len(ctx.samples) < 2))


def run_gen(ctx, spec):
    rng = ctx.rng
    for i in range(spec['n']):
        order = rng.choice([None, None, 'layer_column', 'dmplex'])
        geo, desc = geos.rectangular(rng, convention=rng.randint(0, 3), block_order=order, max_n=6)
        mode = rng.choice(['none', 'inside', 'mixed', 'boundary', 'above'])
        if mode != 'none' and geo.num_layers > 1:
            desc['surfaces'] = geos.set_surfaces(geo, rng, mode, frac=rng.choice([0.3, 0.7, 1.0]))
        r = rng.random()
        if r < 0.3:
            ang = rng.choice([30.0, 90.0, -17.0, 123.0])
            geo.rotate(ang)
            desc['rotate'] = ang
        elif r < 0.5:
            import numpy as np
            sh = [rng.uniform(-1e4, 1e4), rng.uniform(-1e4, 1e4), rng.uniform(-100, 100)]
            geo.translate(np.array(sh))
            desc['translate'] = sh
        if rng.random() < 0.25:
            # a derived geometry: some quadrilateral columns split into triangles (what the split leaves in the columns
            # -- cached areas, centres -- is what the grid is built from)
            quads = [c for c in geo.columnlist if c.num_nodes == 4]
            done = []
            for c in rng.sample(quads, min(len(quads), rng.randint(1, 3))):
                if c.name in geo.column:
                    node = rng.choice(c.node)
                    with ctx.guard({'geo': desc, 'split': [c.name, node.name]}, where='split_column') as g:
                        if geo.split_column(c.name, node.name):
                            done.append([c.name, node.name])
                    if g.raised is not None:
                        break
            if done:
                desc['split_columns'] = done
                ctx.count('geometries_with_split_columns')
        decorate(ctx, geo, desc)
        if rng.random() < 0.3:
            # the atmosphere type changed on the finished geometry through the property setter (last step: nothing
            # after it re-derives the name lists)
            new = rng.choice([t for t in (0, 1, 2) if t != geo.atmosphere_type])
            desc['atmosphere_type_switched'] = [geo.atmosphere_type, new]
            ctx.see('atmosphere_type_switch', '%d->%d' % (geo.atmosphere_type, new))
            geo.atmosphere_type = new
            ctx.count('atmosphere_type_switched_by_setter')
        run_one(ctx, geo, desc, 'rectangular')


def run_shipped(ctx, spec):
    rng = ctx.rng
    for name in spec['names']:
        for v in range(spec['variants']):
            desc = {'kind': 'shipped', 'name': name, 'variant': v}
            with ctx.guard(desc, where='load') as g:
                geo = geos.load_shipped(name)
                if name == 'g3':
                    # not a valid mesh as shipped (missing connections, an orphan node); repaired,
                    # then the derived name lists are refreshed as a careful caller would (that
                    # check(fix=True) leaves them stale is C10 matter)
                    geo.check(fix=True, silent=True)
                    geos.refresh(geo)
            if g.raised is not None:
                continue
            if v > 0:
                geo.atmosphere_type = (v - 1) % 3
                desc['atmos_type'] = geo.atmosphere_type
                if geo.num_columns < 400 and rng.random() < 0.6:
                    try:
                        cols = rng.sample([c for c in geo.columnlist if c.num_nodes in (3, 4)], min(5, geo.num_columns))
                        geo.refine(cols)
                        desc['refined'] = [c.name for c in cols]
                    except Exception as e:
                        ctx.violation('derive:%s' % type(e).__name__, 'refine failed: %r' % (e,), desc, prop='C10')
                        continue
                if geo.num_columns < 2000 and rng.random() < 0.5 and geo.num_layers > 2:
                    desc['surfaces'] = geos.set_surfaces(geo, rng, 'mixed', frac=0.3)
                if v >= 2:
                    decorate(ctx, geo, desc)
            run_one(ctx, geo, desc, 'shipped')


def run_shard(ctx, spec):
    {'gen': run_gen, 'shipped': run_shipped}[spec['kind']](ctx, spec)


def replay(ctx, case):
    ctx.rng.seed(case.get('seed', 0) * 1000003 + case.get('shard', 0))
    d = case['geo']
    if d.get('kind') == 'shipped':
        run_shipped(ctx, {'names': [d['name']], 'variants': 4})
    else:
        run_gen(ctx, {'n': 130})
