"""C08 -- TOUGH2 grid stays internally consistent under any sequence of edits.

Monitor shape: history + executable model.  (a) bounded exhaustive exploration:
every sequence of enabled edits up to a depth over a 4-name / 2-rock universe is
replayed on a real t2grid; after every step the live object's public state is
compared with the reference model and the structural invariants are evaluated.
(b) random sequences on grids built from geometries (minc, +, embed, reorder(geo),
rename by permutations, check(fix)), with the invariants attached as a quiescent
contract to every public mutator of t2grid.
"""
import itertools

from vf.core import HarnessError
from vf.oracle import gridmodel as GM
from vf.repo import R
from vf import contracts

UNIVERSE = ['  a 1', '  b 1', '  c 1', '  d 1']
ROCKS = ['rock1', 'rock2']

STARTS = {
    'empty': [],
    'pair': [('add_rocktype', 'rock1'), ('add_block', '  a 1', 'rock1'), ('add_block', '  b 1', 'rock1'),
             ('add_connection', '  a 1', '  b 1')],
    'chain4': [('add_rocktype', 'rock1'), ('add_block', '  a 1', 'rock1'), ('add_block', '  b 1', 'rock1'),
               ('add_block', '  c 1', 'rock1'), ('add_block', '  d 1', 'rock1'), ('add_connection', '  a 1', '  b 1'),
               ('add_connection', '  b 1', '  c 1'), ('add_connection', '  c 1', '  d 1')],
    'triangle': [('add_rocktype', 'rock1'), ('add_rocktype', 'rock2'), ('add_block', '  a 1', 'rock1'),
                 ('add_block', '  b 1', 'rock2'), ('add_block', '  c 1', 'rock1'), ('add_connection', '  a 1', '  b 1'),
                 ('add_connection', '  b 1', '  c 1'), ('add_connection', '  c 1', '  a 1')],
}
DEPTH = {'quick': {'empty': 3, 'pair': 3, 'chain4': 2, 'triangle': 2},
         'thorough': {'empty': 4, 'pair': 4, 'chain4': 3, 'triangle': 3}}

INFO = {
    'rule': ('(a) every sequence of enabled edit operations up to the stated depth from four start states over a universe of 4 '
             'block names and 2 rock types (add/delete block, connection, rock type; rename rock type; demote; clean; reorder by '
             'every block permutation and by every connection permutation x reversal subset; rename by every injective map not '
             'colliding with an unrenamed block), each replayed from scratch on a real t2grid; (b) random edit sequences (<= 60 '
             'operations) on grids of <= 200 blocks built from geometries, incl. minc, +, embed, reorder(geo), check(fix). '
             'Distinct = distinct operation sequence; non-trivial = >= 2 operations of different kinds.'),
    'require': {
        'quick': {'counters': {'paths_replayed': 20000, 'invariant_evaluations': 40000, 'random_sequences': 20,
                               'quiescent_contract_evaluations': 200},
                  'seen': {'operation_kinds': 14, 'rename_cycle_types': 4}, 'nontrivial': 10000},
        'thorough': {'counters': {'paths_replayed': 2000000, 'invariant_evaluations': 4000000, 'random_sequences': 300,
                                  'quiescent_contract_evaluations': 5000},
                     'seen': {'operation_kinds': 14, 'rename_cycle_types': 4}, 'nontrivial': 1000000},
    },
    'exhaustive': {'quick': True, 'thorough': True},
    'exhaustive_note': {
        'quick': 'all sequences of length <= 3 from the start states empty and pair, <= 2 from chain4 and triangle',
        'thorough': 'all sequences of length <= 4 from the start states empty and pair, <= 3 from chain4 and triangle '
                    '(random part (b) is sampled)'},
    'watchdog_s': {'quick': 1200, 'thorough': 7200},
    'assumptions': ['operations are applied only when their documented precondition holds (fresh names for add, unused rock types '
                    'for delete, a permutation of present names for reorder, collision-free maps for rename)'],
}


def plan(tier, seed):
    nsh = 6 if tier == 'quick' else 16
    shards = []
    for start in STARTS:
        for i in range(nsh):
            shards.append({'kind': 'enum', 'start': start, 'depth': DEPTH[tier][start], 'part': i, 'parts': nsh})
    nr = 2 if tier == 'quick' else 16
    for i in range(nr):
        shards.append({'kind': 'random', 'n': 15 if tier == 'quick' else 25})
    return shards


# -- executing one operation on the real grid ---------------------------------------------------

def execute(g, op):
    t2g = R.t2grids
    k = op[0]
    if k == 'add_rocktype':
        g.add_rocktype(t2g.rocktype(name=op[1]))
    elif k == 'replace_rocktype':
        g.add_rocktype(t2g.rocktype(name=op[1], porosity=0.2))
    elif k == 'delete_rocktype':
        g.delete_rocktype(op[1])
    elif k == 'rename_rocktype':
        g.rename_rocktype(op[1], op[2])
    elif k == 'clean_rocktypes':
        g.clean_rocktypes()
    elif k == 'add_block':
        g.add_block(t2g.t2block(op[1], 1.0, g.rocktype[op[2]]))
    elif k == 'delete_block':
        g.delete_block(op[1])
    elif k == 'demote_block':
        g.demote_block(op[1])
    elif k == 'demote_blocks':
        g.demote_block(list(op[1]))
    elif k == 'add_connection':
        g.add_connection(t2g.t2connection([g.block[op[1]], g.block[op[2]]], 1, [1.0, 2.0], 3.0, 0.0))
    elif k == 'delete_connection':
        g.delete_connection((op[1], op[2]))
    elif k == 'reorder_blocks':
        g.reorder(block_names=list(op[1]))
    elif k == 'reorder_connections':
        g.reorder(connection_names=[tuple(c) for c in op[1]])
    elif k == 'reorder_both':
        g.reorder(block_names=list(op[1]), connection_names=[tuple(c) for c in op[2]])
    elif k == 'rename_blocks':
        g.rename_blocks(dict((a, b) for a, b in op[1]))
    else:
        raise HarnessError('unknown op %r' % (op,))


def op_kind(op):
    if op[0] == 'rename_blocks':
        return 'rename_blocks'
    if op[0] == 'reorder_connections':
        return 'reorder_connections'
    return op[0]


def mech(op, model=None):
    """Mechanism label for violation keys: operation + discriminating circumstance."""
    if op[0] == 'rename_rocktype' and model is not None and op[1] in model.stale:
        return 'rename_rocktype[after-in-use-replace]'
    if op[0] == 'rename_blocks':
        return 'rename_blocks[%s]' % GM.cycle_type(op[1]).split(':')[0]
    if op[0] in ('reorder_connections', 'reorder_both'):
        return op[0]
    return op[0]


def replay_path(ctx, start, path, report=True):
    """Replays start + path on a fresh real grid and a fresh model.  Returns
    (grid, model, ok)."""
    g = R.t2grids.t2grid()
    m = GM.GridModel()
    for op in STARTS[start]:
        execute(g, op)
        m.apply(op)
    case = {'start': start, 'ops': [list(o) for o in path]}
    for i, op in enumerate(path):
        last = (i == len(path) - 1)
        label = mech(op, m)
        with ctx.guard(case, where=label) as gd:
            execute(g, op)
        if gd.raised is not None:
            return g, m, False
        m.apply(op)
        if last or not report:
            # earlier prefixes were judged when they were paths themselves
            bad = GM.grid_invariants(g)
            ctx.count('invariant_evaluations')
            d = GM.diff(m, GM.project(g))
            ctx.count('model_comparisons')
            if report:
                for kind, text in bad:
                    ctx.violation('invariant:%s:after:%s' % (kind, label), text, case)
                for kind, text in d:
                    ctx.violation('model:%s:after:%s' % (kind, label), text, case)
            if bad or d:
                return g, m, False
    return g, m, True


def run_enum(ctx, spec):
    start, depth = spec['start'], spec['depth']
    m0 = GM.GridModel()
    for op in STARTS[start]:
        m0.apply(op)
    states = set()
    first_ops = m0.enabled(UNIVERSE, ROCKS)

    def explore(model, path):
        g, m, ok = replay_path(ctx, start, path)
        ctx.evaluated()
        ctx.count('paths_replayed')
        kinds = set(op_kind(o) for o in path)
        ctx.case((start, path), nontrivial=len(kinds) >= 2, sample=(len(path) == depth and len(kinds) >= 3))
        states.add(m.key())
        for o in path[-1:]:
            ctx.see('operation_kinds', op_kind(o))
            if o[0] == 'rename_blocks':
                ctx.see('rename_cycle_types', GM.cycle_type(o[1]))
        if not ok or len(path) >= depth:
            return
        for op in m.enabled(UNIVERSE, ROCKS):
            ctx.count('transitions')
            explore(m, path + [op])

    if spec['part'] == 0:
        explore(m0, [])
    for i, op in enumerate(first_ops):
        if i % spec['parts'] != spec['part']:
            continue
        ctx.count('transitions')
        explore(m0, [op])
    ctx.count('model_states', len(states))


# -- (b) random sequences on grids from geometries ------------------------------------------------

def own_fix(name):
    """(a3,i2) spelling 'AB1 5' -> 'AB105' (user guide: fix_blockname)."""
    if len(name) == 5 and name[2].isdigit() and name[3] == ' ' and name[4].isdigit():
        return name[:3] + '0' + name[4]
    return name


MUTATORS = ['add_rocktype', 'delete_rocktype', 'clean_rocktypes', 'rename_rocktype', 'add_block', 'delete_block',
            'demote_block', 'add_connection', 'delete_connection', 'reorder', 'rename_blocks', 'minc', 'fromgeo',
            '__add__', 'embed', 'check', 'sort_rocktypes', 'empty']


def install_quiescent(ctx):
    t2grid = R.t2grids.t2grid

    def inv(g, mname):
        for kind, text in GM.grid_invariants(g):
            contracts.REC.fail('grid:%s:after:%s' % (kind, mname), text, [mname])
    contracts.quiescent(t2grid, MUTATORS, inv, 't2grid-quiescent', result_only=('__add__', 'embed'))


def small_geo(ctx):
    mg = R.mulgrids
    rng = ctx.rng
    if rng.random() < 0.8:
        nx, ny, nz = rng.randint(1, 6), rng.randint(1, 5), rng.randint(1, 5)
        geo = mg.mulgrid().rectangular([rng.uniform(10, 100) for _ in range(nx)], [rng.uniform(10, 100) for _ in range(ny)],
                                       [rng.uniform(5, 50) for _ in range(nz)], atmos_type=rng.randint(0, 2),
                                       convention=rng.randint(0, 2))
        if geo.num_layers > 2 and rng.random() < 0.5:
            # a stepped ground surface: columns of different depth (the geometry's own connection list, which
            # reorder(geo=...) follows, then has vertical connections starting at different layers)
            from vf.gen import geos
            geos.set_surfaces(geo, rng, 'mixed', frac=0.6)
    else:
        import os
        from vf.core import REPO
        geo = mg.mulgrid(os.path.join(REPO, 'tests', 'mulgrid', 'g7.dat'))
    return geo


def run_random(ctx, spec):
    t2g = R.t2grids
    install_quiescent(ctx)
    rng = ctx.rng
    if ctx.shard % 4 == 0:
        # a fixed sweep in front of the random part: every naming convention x atmosphere type x level / stepped ground
        # surface, grid shuffled and put back into the geometry's order
        import random
        mg = R.mulgrids
        for conv in (0, 1, 2):
            for atm in (0, 1, 2):
                for stepped in (False, True):
                    geo = mg.mulgrid().rectangular([10., 20., 15., 12.], [8., 9., 11.], [5., 6., 7., 8.], convention=conv, atmos_type=atm)
                    if stepped:
                        rr = random.Random(conv * 7 + atm)
                        for k, col in enumerate(geo.columnlist):
                            col.surface = [0.0, -3.0, -5.0, -8.5, -11.0, -14.0][(k * 5 + rr.randint(0, 2)) % 6]
                            geo.set_column_num_layers(col)
                        geo.setup_block_name_index()
                        geo.setup_block_connection_name_index()
                    case = {'geometry': 'sweep conv=%d atm=%d stepped=%s' % (conv, atm, stepped), 'ops': [['reorder', 'shuffled'], ['reorder', 'geo']]}
                    with ctx.guard(case, where='reorder-to-geometry-order') as gd:
                        g = t2g.t2grid().fromgeo(geo)
                        perm = [b.name for b in g.blocklist]
                        rng.shuffle(perm)
                        cons = [tuple(b.name for b in c.block) for c in g.connectionlist]
                        rng.shuffle(cons)
                        nb, nc = g.num_blocks, g.num_connections
                        g.reorder(block_names=perm, connection_names=[c[::-1] if rng.random() < 0.3 else c for c in cons])
                        g.reorder(geo=geo)
                        ctx.count('reorders_by_geometry')
                        ctx.evaluated()
                        ctx.see('reorder_by_geometry', 'atmosphere type %d, %s surface' % (atm, 'stepped' if stepped else 'level'))
                        bad = GM.grid_invariants(g)
                        if g.num_blocks != nb or g.num_connections != nc or [b.name for b in g.blocklist] != list(geo.block_name_list) or bad:
                            ctx.violation('reorder-by-geometry-changes-grid', 'reorder(geo=...) after a shuffle: %d blocks, %d connections before; %d, %d after; block order %s the geometry\'s; %s' % (
                                nb, nc, g.num_blocks, g.num_connections, 'is' if [b.name for b in g.blocklist] == list(geo.block_name_list) else 'is not', bad[:1]), case)
                    # the rarer single edits, each once on every one of these grids
                    for edit in ('add_block[same-object-connected]', 'delete_block+add_block[same-object]', 'add_block[replace-connected]', 'add_connection[replace]',
                                 'embed[fresh-blocks]'):
                        c2 = {'geometry': case['geometry'], 'ops': [[edit]]}
                        with ctx.guard(c2, where='sweep:' + edit) as gd:
                            g = t2g.t2grid().fromgeo(geo)
                            blk = g.blocklist[len(g.blocklist) // 2]
                            if edit.startswith('add_block[same'):
                                g.add_block(blk)
                            elif edit.startswith('delete_block+'):
                                g.delete_block(blk.name)
                                g.add_block(blk)
                            elif edit.startswith('add_block[replace'):
                                g.add_block(t2g.t2block(blk.name, blk.volume * 2.0, blk.rocktype, centre=blk.centre))
                            elif edit.startswith('add_connection'):
                                old = g.connectionlist[len(g.connectionlist) // 2]
                                g.add_connection(t2g.t2connection(list(old.block), old.direction, [d * 2.0 for d in old.distance], old.area, old.dircos))
                            else:
                                sub = t2g.t2grid()
                                sub.add_rocktype(t2g.rocktype(name='subrk'))
                                for n in ('SUB10', 'SUB11'):
                                    sub.add_block(t2g.t2block(n, blk.volume / 10.0, sub.rocktype['subrk']))
                                sub.add_connection(t2g.t2connection([sub.blocklist[0], sub.blocklist[1]], 1, [1., 1.], 1., 0.))
                                res = g.embed(sub, t2g.t2connection([t2g.t2block(blk.name, blk.volume, blk.rocktype), t2g.t2block('SUB10', blk.volume / 10.0, sub.rocktype['subrk'])], 1, [1., 1.], 1., 0.))
                                g = res if res is not None else g
                            ctx.evaluated()
                            ctx.see('operation_kinds_random', edit.split('[')[0] if not edit.startswith('embed') else 'embed')
                            ctx.count('sweep_edits')
                            for kind, text in GM.grid_invariants(g)[:2]:
                                ctx.violation('invariant:%s:after:%s' % (kind, edit), text, c2)
    for it in range(spec['n']):
        geo = small_geo(ctx)
        ops_done = []
        case = {'geometry': [geo.num_columns, geo.num_layers, geo.atmosphere_type, geo.convention], 'ops': ops_done,
                'seed': ctx.seed, 'shard': ctx.shard, 'iteration': it}
        g = t2g.t2grid().fromgeo(geo)
        if it % 2 == 0:
            # shuffled, then put back into the geometry's order: nothing may get lost on the way, for any atmosphere type
            # and any shape of the ground surface
            with ctx.guard(case, where='reorder-to-geometry-order') as gd:
                perm = [b.name for b in g.blocklist]
                rng.shuffle(perm)
                cons = [tuple(b.name for b in c.block) for c in g.connectionlist]
                rng.shuffle(cons)
                nb, nc = g.num_blocks, g.num_connections
                g.reorder(block_names=perm, connection_names=[c[::-1] if rng.random() < 0.3 else c for c in cons])
                g.reorder(geo=geo)
                ctx.count('reorders_by_geometry')
                ctx.see('reorder_by_geometry', 'atmosphere type %d, %s surface' % (geo.atmosphere_type, 'stepped' if any(c.num_layers != geo.columnlist[0].num_layers for c in geo.columnlist) else 'level'))
                bad = GM.grid_invariants(g)
                if g.num_blocks != nb or g.num_connections != nc or [b.name for b in g.blocklist] != list(geo.block_name_list) or bad:
                    ctx.violation('reorder-by-geometry-changes-grid', 'reorder(geo=...) after a shuffle: %d blocks, %d connections before; %d, %d after; block order %s the geometry\'s; %s' % (
                        nb, nc, g.num_blocks, g.num_connections, 'is' if [b.name for b in g.blocklist] == list(geo.block_name_list) else 'is not', bad[:1]), dict(case, ops=[['reorder', 'shuffled'], ['reorder', 'geo']]))
            if gd.raised is not None:
                continue
        nops = rng.randint(5, 60)
        extra_rocks = 0
        stale = set()
        for step in range(nops):
            names = [b.name for b in g.blocklist]
            if len(names) < 3:
                break
            r = rng.random()
            # (every fourth sequence starts with a partial MINC whose selection is given as blocks of a copy)
            force_twin = step == 0 and it % 4 == 1
            if force_twin:
                r = 0.75
            op = None
            with ctx.guard(case, where='random') as gd:
                if r < 0.12:
                    perm = list(names)
                    rng.shuffle(perm)
                    k = rng.randint(1, len(names))
                    src = rng.sample(names, k)
                    dst = list(src)
                    rng.shuffle(dst)
                    op = ('rename_blocks', sorted(zip(src, dst)))
                    ctx.see('rename_cycle_types', GM.cycle_type(op[1]))
                    rr = rng.random()
                    if rr < 0.25:
                        ctx.count('renames_without_name_fixing')
                        g.rename_blocks(dict(op[1]), fix_blocknames=False)      # (the names are well-formed: nothing to fix)
                    elif rr < 0.55:
                        # the model-level call (the grid inside a t2data object), with the map as given or with its
                        # inverse and invert=True: the same renaming
                        dat = R.t2data.t2data()
                        dat.grid = g
                        if rng.random() < 0.6:
                            given = dict((b_, a_) for a_, b_ in op[1])
                            dat.rename_blocks(given, invert=True)
                            ctx.count('renames_through_model_inverted_map')
                        else:
                            given = dict(op[1])
                            dat.rename_blocks(given)
                            ctx.count('renames_through_model')
                    else:
                        g.rename_blocks(dict(op[1]))
                elif r < 0.2:
                    # rename to fresh names (upper-case letters never produced by the geometry)
                    src = rng.sample(names, rng.randint(1, min(5, len(names))))
                    fresh = []
                    for s in src:
                        n = 'Q%s%s%02d' % (rng.choice('ABCDEFGH'), rng.choice('ABCDEFGH'), rng.randint(10, 99))
                        while n in names or n in fresh:
                            n = 'Q%s%s%02d' % (rng.choice('ABCDEFGH'), rng.choice('ABCDEFGH'), rng.randint(10, 99))
                        fresh.append(n)
                    unfixed = rng.random() < 0.4
                    if unfixed:
                        # the new names as a MESHMAKER-style (a3,i2) mesh spells them ('QA1 5'): rename_blocks() turns
                        # them into the fixed form ('QA105') - for the blocks, the dictionaries and the blocks'
                        # connection-name records alike
                        fresh = []
                        while not fresh or len(set(map(own_fix, fresh))) < len(fresh) or any(own_fix(n) in names for n in fresh):
                            fresh = ['Q%s%d %d' % (rng.choice('ABCDEFGH'), rng.randint(1, 9), rng.randint(0, 9)) for _ in src]
                        ctx.count('renames_to_names_needing_fixing')
                    op = ('rename_blocks', sorted(zip(src, fresh)))
                    g.rename_blocks(dict(op[1]))
                    if unfixed:
                        wrong = [own_fix(n) for n in fresh if own_fix(n) not in g.block or n in g.block]
                        if wrong:
                            ctx.violation('rename-names-not-fixed', 'rename_blocks(%r): blocks %r expected afterwards, grid has %r' % (
                                dict(op[1]), wrong, sorted(b.name for b in g.blocklist if b.name.startswith('Q'))[:6]), dict(case, ops=ops_done + [list(op)]))
                elif r < 0.3:
                    perm = list(names)
                    rng.shuffle(perm)
                    cons = [tuple(b.name for b in c.block) for c in g.connectionlist]
                    rng.shuffle(cons)
                    cons = [c[::-1] if rng.random() < 0.4 else c for c in cons]
                    op = ('reorder', 'blocks+connections')
                    g.reorder(block_names=perm, connection_names=cons)
                elif r < 0.36:
                    n = rng.choice(names)
                    if rng.random() < 0.3:
                        # taken out and put back: the very object that was deleted is added again (it comes back without
                        # connections: they were deleted with it)
                        blk = g.block[n]
                        op = ('delete_block+add_block[same-object]', n)
                        g.delete_block(n)
                        g.add_block(blk)
                    else:
                        op = ('delete_block', n)
                        g.delete_block(n)
                elif r < 0.38:
                    # add_block() / add_connection() for a name that exists: documented as replacing the old object
                    if rng.random() < 0.5 and g.connectionlist:
                        old = rng.choice(g.connectionlist)
                        new = t2g.t2connection(list(old.block), old.direction, [d * 2.0 for d in old.distance], old.area * 3.0, old.dircos)
                        key = tuple(b.name for b in old.block)
                        nc = g.num_connections
                        op = ('add_connection[replace]', key)
                        g.add_connection(new)
                        if g.num_connections != nc or g.connection.get(key) is not new or new not in g.connectionlist or old in g.connectionlist:
                            ctx.violation('replace-connection', 'add_connection() of the existing pair %r: %d connections before, %d after; the lookup %s the new object, the list %s it, the old object is %s the list' % (
                                key, nc, g.num_connections, 'gives' if g.connection.get(key) is new else 'does not give', 'holds' if new in g.connectionlist else 'lacks',
                                'still in' if old in g.connectionlist else 'out of'), dict(case, ops=ops_done + [list(op)]))
                    else:
                        n = rng.choice(names)
                        oldb = g.block[n]
                        same = rng.random() < 0.35
                        # (a block changed and handed in again - the very object the grid holds - is "replaced" by itself)
                        newb = oldb if same else t2g.t2block(n, oldb.volume * 2.0, oldb.rocktype, centre=oldb.centre)
                        nb = g.num_blocks
                        op = ('add_block[%s-%s]' % ('same-object' if same else 'replace', 'connected' if oldb.connection_name else 'isolated'), n)
                        g.add_block(newb)
                        if g.num_blocks != nb or g.block.get(n) is not newb or newb not in g.blocklist or (oldb in g.blocklist and not same):
                            ctx.violation('replace-block', 'add_block() of the existing name %r: %d blocks before, %d after; lookup / list do not hold exactly the new object' % (n, nb, g.num_blocks),
                                          dict(case, ops=ops_done + [list(op)]))
                elif r < 0.45:
                    cons = [tuple(b.name for b in c.block) for c in g.connectionlist]
                    if cons:
                        c = rng.choice(cons)
                        op = ('delete_connection', c)
                        g.delete_connection(c)
                elif r < 0.52:
                    a, b = rng.sample(names, 2)
                    if (a, b) not in g.connection and (b, a) not in g.connection:
                        op = ('add_connection', a, b)
                        g.add_connection(t2g.t2connection([g.block[a], g.block[b]], 1, [1., 1.], 1., 0.))
                elif r < 0.58:
                    extra_rocks += 1
                    rn = 'rk%03d' % extra_rocks
                    op = ('add_rocktype+assign', rn)
                    g.add_rocktype(t2g.rocktype(name=rn))
                    for n in rng.sample(names, min(3, len(names))):
                        g.block[n].rocktype = g.rocktype[rn]
                elif r < 0.62:
                    op = ('clean_rocktypes',)
                    g.clean_rocktypes()
                elif r < 0.66:
                    rn = rng.choice([x.name for x in g.rocktypelist])
                    new = 'rn%03d' % step
                    op = ('rename_rocktype', rn, new)
                    if rn in stale:
                        op = ('rename_rocktype[after-in-use-replace]', rn, new)
                    g.rename_rocktype(rn, new)
                elif r < 0.72:
                    ds = rng.sample(names, rng.randint(1, min(4, len(names))))
                    if len(ds) > 1 and rng.random() < 0.4:
                        ds = ds + [ds[0]]                 # a name given twice
                    op = ('demote_block', ds)
                    g.demote_block(ds if len(ds) > 1 else ds[0])
                elif r < 0.74 and g.num_blocks < 150 and all(not b.name[0].isdigit() for b in g.blocklist):
                    # MINC over blocks whose default matrix-block names coincide: the documented outcome
                    # is a loud failure; a silent success must still leave a consistent grid
                    a, b = rng.sample(names, 2)
                    tail = 'z%s%2d' % (rng.choice('klmn'), rng.randint(1, 9))
                    g.rename_blocks({a: 'P' + tail, b: 'Q' + tail})
                    op = ('minc', 'clashing-matrix-names')
                    try:
                        g.minc([0.1, 0.9], blocks=['P' + tail, 'Q' + tail])
                    except Exception as e:
                        if 'Duplicate MINC matrix block name' not in str(e):
                            raise
                        ctx.see('minc_clash_outcome', 'raised')
                        ops_done.append(['minc', 'clashing-matrix-names', 'raised'])
                        break
                    ctx.see('minc_clash_outcome', 'returned')
                elif r < 0.745:
                    rn = rng.choice([x.name for x in g.rocktypelist])
                    op = ('replace_rocktype', rn)
                    if any(b.rocktype.name == rn for b in g.blocklist):
                        stale.add(rn)
                    g.add_rocktype(t2g.rocktype(name=rn, porosity=0.3))
                elif r < 0.80 and g.num_blocks < 150 and all(not b.name[0].isdigit() for b in g.blocklist):
                    nf = rng.randint(2, 4)
                    vf = [rng.uniform(0.05, 1.0) for _ in range(nf)]
                    blocks = None if (rng.random() < 0.5 and not force_twin) else rng.sample(
                        [b.name for b in g.blocklist if not b.atmosphere], max(1, len(names) // 3))
                    sel = blocks if blocks else [b.name for b in g.blocklist]
                    if len(set(n[1:] for n in sel)) == len(sel):
                        op = ('minc', vf, 'partial' if blocks else 'full')
                        barg = blocks
                        if blocks and (rng.random() < 0.5 or force_twin):
                            # the selection as block objects: the grid's own, or the equally named ones of a copy made
                            # before (blocks are selected by name, whatever object carries it)
                            if rng.random() < 0.5 or force_twin:
                                import copy as _copy
                                twin = _copy.deepcopy(g)
                                barg = [twin.block[n] for n in blocks]
                                ctx.count('minc_selections_given_as_blocks_of_a_copy')
                            else:
                                barg = [g.block[n] for n in blocks]
                        g.minc(vf, spacing=rng.uniform(5, 100), num_fracture_planes=rng.randint(1, 3), blocks=barg)
                    # (else: two blocks whose default matrix-block names coincide - the documented outcome is the loud failure
                    #  exercised by the clashing-names operation above, not something to run into here)
                elif r < 0.86:
                    # add a second, disjoint grid
                    other = t2g.t2grid()
                    oname = 'o%04d' % (step + 100 * it)     # a rock type name not yet in use ...
                    if rng.random() < 0.5 and g.rocktypelist:
                        # ... or one the first grid uses as well (every grid made by fromgeo() has its own 'dfalt'): the sum
                        # then registers ONE rock type of that name, and every block of the sum uses that one
                        oname = rng.choice([x.name for x in g.rocktypelist])
                        ctx.count('grids_added_sharing_a_rock_type_name')
                    other.add_rocktype(t2g.rocktype(name=oname))
                    tag = 'Z%s' % rng.choice('ABCDEFGHIJ')
                    onames = ['%s%s%02d' % (tag, rng.choice('KLMNOP'), i) for i in range(10, 13)]
                    onames = [n for n in dict.fromkeys(onames) if n not in names]
                    for n in onames:
                        other.add_block(t2g.t2block(n, 2.0, other.rocktype[oname]))
                    for a, b in zip(onames[:-1], onames[1:]):
                        other.add_connection(t2g.t2connection([other.block[a], other.block[b]], 1, [1., 1.], 1., 0.))
                    if rng.random() < 0.5 or not onames:
                        op = ('__add__', len(onames))
                        g = g + other
                    else:
                        host = rng.choice([b for b in g.blocklist])
                        if host.volume > 10.0:
                            # the connection that ties the sub-grid in names its two blocks: given as the grids' own objects,
                            # or as other objects of the same names (a copy of the grid, blocks made on the spot)
                            style = rng.choice(['own', 'own', 'fresh', 'copied'])
                            hb, sb = host, other.blocklist[0]
                            if style == 'fresh':
                                hb, sb = t2g.t2block(host.name, host.volume, host.rocktype), t2g.t2block(sb.name, sb.volume, sb.rocktype)
                            elif style == 'copied':
                                import copy
                                hb = copy.copy(host)
                                hb.connection_name = set(host.connection_name)
                            op = ('embed[%s-blocks]' % style, host.name)
                            res = g.embed(other, t2g.t2connection([hb, sb], 1, [1., 1.], 1., 0.))
                            if res is not None:
                                g = res
                elif r < 0.9:
                    op = ('reorder', 'geo')
                    # only meaningful while the grid still is the geometry's grid
                    # (whether it still is, is known from the history of the sequence - no block or connection added or
                    #  deleted since fromgeo() - not from the geometry's connection list, which is part of what is under test)
                    touched = any(o[0].split('[')[0] in ('delete_block', 'delete_connection', 'add_connection', 'minc', '__add__', 'embed', 'add_block', 'rename_blocks', 'delete_block+add_block') for o in ops_done)
                    if not touched and set(geo.block_name_list) == set(b.name for b in g.blocklist):
                        nb, nc = g.num_blocks, g.num_connections
                        g.reorder(geo=geo)
                        ctx.count('reorders_by_geometry')
                        if g.num_blocks != nb or g.num_connections != nc or [b.name for b in g.blocklist] != list(geo.block_name_list):
                            ctx.violation('reorder-by-geometry-changes-grid', 'reorder(geo=...): %d blocks, %d connections before; %d, %d after; block order %s the geometry\'s' % (
                                nb, nc, g.num_blocks, g.num_connections, 'is' if [b.name for b in g.blocklist] == list(geo.block_name_list) else 'is not'),
                                dict(case, ops=ops_done + [list(op)]))
                    else:
                        op = None
                else:
                    op = ('check', 'fix')
                    g.check(fix=True, silent=True)
            if gd.raised is not None:
                break
            if op is None:
                continue
            ops_done.append(list(op) if not isinstance(op[-1], list) else [op[0], 'map of %d' % len(op[1])])
            ctx.see('operation_kinds_random', op[0])
            ctx.evaluated()
            bad = GM.grid_invariants(g)
            ctx.count('invariant_evaluations')
            for kind, text in bad:
                ctx.violation('invariant:%s:after:%s' % (kind, op[0] if op[0] != 'rename_blocks' else mech(op)), text, dict(case))
            if bad:
                break
        ctx.count('random_sequences')
        ctx.case(('random', ctx.seed, ctx.shard, it, len(ops_done)), nontrivial=len(set(o[0] for o in ops_done)) >= 2)
    ctx.count('quiescent_contract_evaluations', contracts.REC.evaluations.get('t2grid-quiescent', 0))
    # the quiescent contract sees the same states as the explicit evaluation above; report only
    # what the explicit evaluation did not already account for
    explicit = set(k.split(':after:')[0].replace('invariant:', '') for k in ctx.violations)
    for name, what, args in contracts.REC.broken[:20]:
        kind = name.split(':')[1]
        if kind in explicit:
            continue
        ctx.violation('contract:' + name, what, {'where': 'quiescent contract', 'method': args[0]})


def run_shard(ctx, spec):
    if spec['kind'] == 'enum':
        run_enum(ctx, spec)
    else:
        run_random(ctx, spec)


def replay(ctx, case):
    if 'start' in case:
        path = [tuple(o) if o[0] not in ('rename_blocks',) else (o[0], [tuple(x) for x in o[1]]) for o in case['ops']]
        replay_path(ctx, case['start'], path)
        ctx.evaluated()
    else:
        ctx.rng.seed(case.get('seed', 0) * 1000003 + case.get('shard', 0))
        run_random(ctx, {'n': case.get('iteration', 0) + 1})
