"""C19 -- transfers between geometries are total, nearest-based, identity on equal grids.

Monitor shape: differential against brute force + the 3x3 atmosphere table.
"""
import copy
import math
import os

import numpy as np

from vf.core import HarnessError
from vf.gen import geos
from vf.repo import R

INFO = {
    'rule': ('cases = (source S, target T) geometry pairs: coarse/fine rectangular pairs over the same region, a geometry and its column '
             'refinement / layer refinement, shifted and differently surfaced copies, g7 vs refined g7; all 9 atmosphere combinations x '
             'conventions; 1..6 primary variables; for model transfers generators at top / bottom / interior blocks with and without '
             'tables, with and without total preservation. Distinct = distinct descriptor; non-trivial = every pair (each evaluates the '
             'mapping of all target blocks against brute force).'),
    'require': {
        'quick': {'counters': {'pairs': 300, 'target_blocks_checked': 10000, 'incon_transfers': 250, 'incon_transfers_default_mappings': 83, 'model_transfers': 80,
                               'above_surface_corrections': 50, 'self_mappings': 250},
                  'seen': {'atmosphere_combination': 9, 'incon_atmosphere_branch': 5}, 'nontrivial': 250},
        'thorough': {'counters': {'pairs': 5500, 'target_blocks_checked': 400000, 'incon_transfers': 4000, 'incon_transfers_default_mappings': 1333, 'model_transfers': 1200,
                                  'above_surface_corrections': 2000, 'self_mappings': 1200},
                     'seen': {'atmosphere_combination': 9, 'incon_atmosphere_branch': 5}, 'nontrivial': 4000},
    },
    'watchdog_s': {'quick': 1200, 'thorough': 5400},
    'assumptions': ['pairs are generated so that no target column / layer centre is equidistant (within 1e-6 relative) from two source candidates',
                    'top and bottom generators are compared by (block, category, rate, tables): their names are rebuilt by the transfer by design'],
}


def plan(tier, seed):
    if tier == 'quick':
        return [{'n': 60} for _ in range(6)]
    return [{'n': 400} for _ in range(16)]


# -- pairs ----------------------------------------------------------------------------------------

def rename_some_layers(rng, geo, desc, key, p=0.5):
    """Gives the surface layer and/or a subsurface layer another (convention-length) name through rename_layer(), as
    geometries taken from files have them (shipped g1-g3 call their surface layer something else than the default)."""
    if rng.random() > p:
        return
    pool = {0: ['97', '98', '99'], 1: ['zzz', 'zzy', 'zzx'], 2: ['zz', 'zy', 'zx']}[geo.convention]
    pool = [n for n in pool if n not in geo.layer]
    which = rng.choice(['surface', 'surface', 'subsurface', 'both'])
    lays = []
    if which in ('surface', 'both'):
        lays.append(geo.layerlist[0])
    if which in ('subsurface', 'both') and geo.num_layers > 1:
        lays.append(rng.choice(geo.layerlist[1:]))
    pairs = [(l.name, pool[i]) for i, l in enumerate(lays)]
    if len(pairs) == 1:
        geo.rename_layer(pairs[0][0], pairs[0][1])
    else:
        geo.rename_layer([a for a, _ in pairs], [b for _, b in pairs])
    desc[key] = pairs


def make_pair(rng, k):
    S, T, desc = make_pair_plain(rng, k)
    if rng.random() < 0.3:
        # columns whose centre is given in the geometry file rather than left at the centroid (a well position,
        # a hand-placed centre): the mapping is by centre, whatever the polygon is
        for key, geo in (('centres_s', S), ('centres_t', T)):
            if key == 'centres_t' and rng.random() < 0.5:
                continue
            moved = {}
            for col in rng.sample(geo.columnlist, rng.randint(1, geo.num_columns)):
                # towards one of its corners, at most 70 % of the way: inside the (convex) column, as a valid geometry's centre
                # is (a centre outside its own column is what check() reports as a bad column)
                vtx = rng.choice(col.node).pos
                c = np.array(col.centroid) + rng.uniform(0.1, 0.7) * (np.array(vtx) - np.array(col.centroid))
                col.centre = c
                col.centre_specified = 1
                moved[col.name] = [float(c[0]), float(c[1])]
            desc[key] = moved
    return S, T, desc


def make_pair_plain(rng, k):
    mg = R.mulgrids
    satm, tatm = k % 3, (k // 3) % 3
    conv_s = rng.randint(0, 2)
    conv_t = conv_s if rng.random() < 0.6 else rng.randint(0, 2)
    kind = rng.choice(['coarse-fine', 'fine-coarse', 'refined', 'layer-refined', 'shifted', 'resurfaced', 'same', 'g7',
                       'source-layer-refined', 'source-refined'])
    if kind == 'g7' and (k % 5):
        kind = 'coarse-fine'
    desc = {'kind': kind, 'satm': satm, 'tatm': tatm, 'conv_s': conv_s, 'conv_t': conv_t}
    if kind == 'g7':
        S = geos.load_shipped('g7')
        S.atmosphere_type = satm
        T = geos.load_shipped('g7')
        T.atmosphere_type = tatm
        cols = rng.sample([c for c in T.columnlist if c.num_nodes in (3, 4)], 4)
        T.refine(cols)
        desc['refined'] = [c.name for c in cols]
        return S, T, desc
    Lx, Ly = rng.uniform(200, 2000), rng.uniform(200, 2000)
    depth = rng.uniform(100, 1000)

    def split(total, n):
        w = [rng.uniform(1.0, 2.0) for _ in range(n)]
        s = sum(w)
        return [round(total * x / s, 3) for x in w]
    nxs, nys, nzs = rng.randint(1, 5), rng.randint(1, 4), rng.randint(1, 5)
    org = [round(rng.uniform(-1000, 1000), 1), round(rng.uniform(-1000, 1000), 1), round(rng.uniform(-100, 500), 1)]
    dxs, dys, dzs = split(Lx, nxs), split(Ly, nys), split(depth, nzs)
    S = mg.mulgrid().rectangular(dxs, dys, dzs, convention=conv_s, atmos_type=satm, origin=org)
    desc.update({'dxs': dxs, 'dys': dys, 'dzs': dzs, 'origin': org})
    if kind in ('source-layer-refined', 'source-refined'):
        # the SOURCE is a derived geometry: surfaces first, then the refinement (whatever the refinement
        # leaves stale in the source is then used by the mapping)
        if S.num_layers > 2:
            desc['surf_s'] = geos.set_surfaces(S, rng, rng.choice(['inside', 'boundary', 'mixed']), frac=0.7)
        rename_some_layers(rng, S, desc, 'layers_renamed_s', 0.6)
        if kind == 'source-layer-refined':
            lays = rng.sample(S.layerlist[1:], rng.randint(1, S.num_layers - 1))
            if S.convention == 0 and S.num_layers + len(lays) * 2 > 90:
                lays = lays[:1]
            S.refine_layers(lays, factor=rng.randint(2, 3))
            desc['source_layers_refined'] = [l.name for l in lays]
        elif conv_s != 1:
            cols = rng.sample(S.columnlist, rng.randint(1, S.num_columns))
            S.refine(cols)
            desc['source_refined'] = [c.name for c in cols]
        nxt, nyt, nzt = rng.randint(1, 6), rng.randint(1, 5), rng.randint(2, 9)
        if conv_t == 1:
            while (nxt + 1) * (nyt + 1) > 99:
                nxt -= 1
        dxt, dyt, dzt = split(Lx, nxt), split(Ly, nyt), split(depth, nzt)
        T = mg.mulgrid().rectangular(dxt, dyt, dzt, convention=conv_t, atmos_type=tatm, origin=list(org))
        desc.update({'dxt': dxt, 'dyt': dyt, 'dzt': dzt, 'origin_t': list(org)})
        if T.num_layers > 2 and rng.random() < 0.3:
            desc['surf_t'] = geos.set_surfaces(T, rng, rng.choice(['inside', 'mixed']), frac=0.5)
        return S, T, desc
    if kind in ('coarse-fine', 'fine-coarse', 'shifted', 'resurfaced', 'same'):
        rename_some_layers(rng, S, desc, 'layers_renamed_s', 0.3)
        if kind == 'same':
            dxt, dyt, dzt = dxs, dys, dzs
        else:
            nxt, nyt, nzt = rng.randint(1, 7), rng.randint(1, 6), rng.randint(1, 7)
            if conv_t == 1:
                while (nxt + 1) * (nyt + 1) > 99:
                    nxt -= 1
            dxt, dyt, dzt = split(Lx, nxt), split(Ly, nyt), split(depth, nzt)
        orgt = list(org)
        if kind == 'shifted':
            orgt = [org[0] + rng.uniform(-0.2, 0.2) * Lx, org[1] + rng.uniform(-0.2, 0.2) * Ly, org[2] + rng.uniform(-0.1, 0.1) * depth]
        T = mg.mulgrid().rectangular(dxt, dyt, dzt, convention=conv_t, atmos_type=tatm, origin=orgt)
        desc.update({'dxt': dxt, 'dyt': dyt, 'dzt': dzt, 'origin_t': orgt})
    elif kind == 'refined':
        T = mg.mulgrid().rectangular(dxs, dys, dzs, convention=conv_t if conv_t != 1 else 0, atmos_type=tatm, origin=org)
        cols = rng.sample(T.columnlist, rng.randint(1, T.num_columns))
        T.refine(cols)
        desc['refined'] = [c.name for c in cols]
    else:
        T = mg.mulgrid().rectangular(dxs, dys, dzs, convention=conv_t, atmos_type=tatm, origin=org)
        rename_some_layers(rng, T, desc, 'layers_renamed_t', 0.6)
        lays = rng.sample(T.layerlist[1:], rng.randint(1, T.num_layers - 1))
        if T.convention == 0 and T.num_layers + len(lays) * 2 > 90:
            lays = lays[:1]
        T.refine_layers(lays, factor=rng.randint(2, 3))
        desc['layers_refined'] = [l.name for l in lays]
    if kind == 'resurfaced' or rng.random() < 0.35:
        if S.num_layers > 2:
            desc['surf_s'] = geos.set_surfaces(S, rng, rng.choice(['inside', 'boundary', 'mixed']), frac=0.6)
            # ... and then snapped to the layer structure with the library's own methods, as the user guide suggests
            # before a transfer (whatever they leave in the columns is what the mapping works from)
            how = rng.choice([None, None, 'nearest', 'nearest', 'thin'])
            if how == 'nearest':
                S.snap_columns_to_nearest_layers()
            elif how == 'thin':
                S.snap_columns_to_layers(min(l.thickness for l in S.layerlist[1:]) * 0.6)
            if how:
                desc['snap_s'] = how
        if T.num_layers > 2 and rng.random() < 0.5:
            desc['surf_t'] = geos.set_surfaces(T, rng, rng.choice(['inside', 'mixed']), frac=0.5)
            if rng.random() < 0.4:
                T.snap_columns_to_nearest_layers()
                desc['snap_t'] = 'nearest'
    return S, T, desc


def no_ties(S, T):
    """True when every target column / layer has a unique nearest source candidate."""
    for c in T.columnlist:
        ds = sorted(math.hypot(s.centre[0] - c.centre[0], s.centre[1] - c.centre[1]) for s in S.columnlist)
        if len(ds) > 1 and ds[1] - ds[0] <= 1e-6 * max(ds[1], 1.0):
            return False
    for l in T.layerlist[1:]:
        ds = sorted(abs(s.centre - l.centre) for s in S.layerlist[1:])
        if len(ds) > 1 and ds[1] - ds[0] <= 1e-6 * max(ds[1], 1.0):
            return False
    return True


# -- brute-force mapping ------------------------------------------------------------------------------

def expected_mapping(ctx, S, T):
    """{target block: source block} by exhaustive nearest search; atmosphere blocks per arrangement
    (None = no single corresponding source block exists)."""
    colmap = {}
    for c in T.columnlist:
        colmap[c.name] = min(S.columnlist, key=lambda s: (s.centre[0] - c.centre[0]) ** 2 + (s.centre[1] - c.centre[1]) ** 2).name
    laymap = {}
    for l in T.layerlist[1:]:
        laymap[l.name] = min(S.layerlist[1:], key=lambda s: abs(s.centre - l.centre)).name
    exp = {}
    natm = [1, T.num_columns, 0][T.atmosphere_type]
    names = T.block_name_list
    if T.atmosphere_type == 0:
        exp[names[0]] = S.block_name_list[0] if S.atmosphere_type == 0 else None
    elif T.atmosphere_type == 1:
        for c, n in zip(T.columnlist, names[:natm]):
            if S.atmosphere_type == 0:
                exp[n] = S.block_name_list[0]
            elif S.atmosphere_type == 1:
                exp[n] = S.block_name(S.layerlist[0].name, colmap[c.name])
            else:
                exp[n] = None
    corrections = 0
    for n in names[natm:]:
        cn, ln = T.column_name(n), T.layer_name(n)
        sc = S.column[colmap[cn]]
        sl = S.layer[laymap[ln]]
        if sc.surface <= sl.bottom:
            # that block would be above ground: first layer below the surface in that column
            sl = next(l for l in S.layerlist[1:] if l.bottom < sc.surface)
            corrections += 1
        exp[n] = S.block_name(sl.name, sc.name)
    ctx.count('above_surface_corrections', corrections)
    return exp, colmap


def check_mapping(ctx, S, T, case, combo):
    with ctx.guard(case, where='block_mapping:target-atm-%d:source-atm-%d' % (T.atmosphere_type, S.atmosphere_type)) as g:
        mapping, colmapping = S.block_mapping(T, True)
    if g.raised is not None:
        return None
    ctx.evaluated()
    exp, colmap = expected_mapping(ctx, S, T)
    sblocks = set(S.block_name_list)
    natm = [1, T.num_columns, 0][T.atmosphere_type]
    for i, n in enumerate(T.block_name_list):
        ctx.count('target_blocks_checked')
        atm = i < natm
        got = mapping.get(n)
        e = exp[n]
        if atm:
            if e is None:
                # the source has no single corresponding atmosphere block; a mapping to a block that
                # does not exist is still a wrong answer
                if got is not None and got not in sblocks:
                    ctx.violation('mapping:atmosphere-block-mapped-to-nonexistent-source-block:%s' % combo,
                                  'target atmosphere block %r -> %r, which is not a block of the source' % (n, got), case)
                    return mapping, colmapping
                continue
            if got != e:
                ctx.violation('mapping:atmosphere-block:%s' % combo, 'target atmosphere block %r -> %r, expected %r' % (n, got, e), case)
                return mapping, colmapping
            continue
        if got is None:
            ctx.violation('mapping:underground-block-unmapped:%s' % combo, 'target block %r has no mapping' % n, case)
            return mapping, colmapping
        if got not in sblocks:
            ctx.violation('mapping:nonexistent-source-block', 'target block %r -> %r, which is not a block of the source' % (n, got), case)
            return mapping, colmapping
        if got != e:
            kind = 'column' if S.column_name(got) != S.column_name(e) else 'layer'
            ctx.violation('mapping:not-nearest-%s' % kind, 'target block %r -> %r, nearest-centre search gives %r' % (n, got, e), case)
            return mapping, colmapping
    for cn, sn in colmap.items():
        if colmapping.get(cn) != sn:
            ctx.violation('mapping:column-mapping', 'target column %r -> %r, nearest is %r' % (cn, colmapping.get(cn), sn), case)
            break
    return mapping, colmapping


# -- incon transfer --------------------------------------------------------------------------------------

def make_incon(rng, geo, nvar):
    t2i = R.t2incons
    inc = t2i.t2incon()
    # TOUGHREACT-flavoured sets carry a permeability triple per block: part of the block's state
    react = rng.random() < 0.4
    # the set of states need not list its blocks in the geometry's order (a restart file edited, sorted, or with the
    # atmosphere blocks put last): what a block starts from is looked up by name
    names = list(geo.block_name_list)
    order = rng.choice(['geometry', 'geometry', 'reversed', 'shuffled', 'atmosphere-last'])
    if order == 'reversed':
        names.reverse()
    elif order == 'shuffled':
        rng.shuffle(names)
    elif order == 'atmosphere-last':
        natm = [1, geo.num_columns, 0][geo.atmosphere_type]
        names = names[natm:] + names[:natm]
    for n in names:
        perm = [round(rng.uniform(1e-16, 1e-12), 18) for _ in range(3)] if react else None
        inc[n] = t2i.t2blockincon([round(rng.uniform(1e5, 1e7), 1)] + [round(rng.uniform(10, 300), 3) for _ in range(nvar - 1)], n,
                                  porosity=rng.choice([None, 0.1, round(rng.uniform(0.01, 0.4), 4)]), permeability=perm)
    return inc


def snapshot_incon(inc):
    return [(b.block, tuple(b.variable), b.porosity, None if b.permeability is None else tuple(b.permeability)) for b in inc]


def check_incon_transfer(ctx, S, T, case, combo, own_mapping):
    t2i = R.t2incons
    nvar = case['nvar']
    src = make_incon(ctx.rng, S, nvar)
    before = snapshot_incon(src)
    # the mapping is handed in explicitly (computed by the harness by brute force), so that the
    # transfer itself is judged also for the combinations block_mapping cannot handle
    mp = dict((k, v) for k, v in own_mapping[0].items() if v is not None)
    cm = dict(own_mapping[1])
    dst = t2i.t2incon()
    with ctx.guard(case, where='incon-transfer:%s' % combo) as g:
        dst.transfer_from(src, S, T, mapping=mp, colmapping=cm)
    if g.raised is not None:
        return
    ctx.evaluated()
    ctx.count('incon_transfers')
    if snapshot_incon(src) != before:
        ctx.violation('incon-transfer:source-altered', 'the source initial conditions were modified by the transfer', case)
        return
    if all(v is not None for v in own_mapping[0].values()):
        # the same transfer with the mappings left to the library (default arguments): state kept between calls
        # in this process (earlier pairs) must not leak into it
        dst2 = t2i.t2incon()
        with ctx.guard(case, where='incon-transfer-default-mappings:%s' % combo) as g:
            dst2.transfer_from(src, S, T)
        if g.raised is None:
            ctx.count('incon_transfers_default_mappings')
            if snapshot_incon(dst2) != snapshot_incon(dst):
                a, b = snapshot_incon(dst), snapshot_incon(dst2)
                k = next((i for i, (x, y) in enumerate(zip(a, b)) if x != y), min(len(a), len(b)))
                ctx.violation('incon-transfer:default-mappings-differ', 'transfer_from() without explicit mappings gives %r at position %d, with the mappings %r' % (
                    b[k] if k < len(b) else None, k, a[k] if k < len(a) else None), case)
                return
        # ... and with only one of the two mappings given (the other is then the library's to find)
        for which, kw1 in (('block-mapping-only', {'mapping': dict(mp)}), ('column-mapping-only', {'colmapping': dict(cm)})):
            dst3 = t2i.t2incon()
            with ctx.guard(case, where='incon-transfer-%s:%s' % (which, combo)) as g:
                dst3.transfer_from(src, S, T, **kw1)
            if g.raised is None:
                ctx.count('incon_transfers_one_mapping_given')
                if snapshot_incon(dst3) != snapshot_incon(dst):
                    a, b = snapshot_incon(dst), snapshot_incon(dst3)
                    k = next((i for i, (x, y) in enumerate(zip(a, b)) if x != y), min(len(a), len(b)))
                    ctx.violation('incon-transfer:%s-differs:%s' % (which, combo), 'transfer_from() given only that mapping gives %r at position %d, with both mappings %r' % (
                        b[k] if k < len(b) else None, k, a[k] if k < len(a) else None), case)
                    return
    names = [b.block for b in dst]
    if names != list(T.block_name_list):
        ctx.violation('incon-transfer:block-list:%s' % combo, 'target incon blocks %r..., geometry announces %r...' % (names[:4], T.block_name_list[:4]), case)
        return
    natm = [1, T.num_columns, 0][T.atmosphere_type]
    for i, n in enumerate(T.block_name_list):
        got = list(dst[n].variable)
        if i < natm:
            if S.atmosphere_type == 0:
                exp = list(src[S.block_name_list[0]].variable)
                branch = 'copy-single' if T.atmosphere_type == 0 else 'broadcast'
            elif S.atmosphere_type == 1 and T.atmosphere_type == 1:
                exp = list(src[own_mapping[0][n]].variable)
                branch = 'per-column'
            elif S.atmosphere_type == 1:
                cols = S.block_name_list[:S.num_columns]
                exp = [sum(src[c].variable[k] for c in cols) / len(cols) for k in range(nvar)]
                branch = 'average'
            else:
                exp = [1.013e5, 20.]
                branch = 'default'
            ctx.see('incon_atmosphere_branch', branch)
            ok = len(got) == len(exp) and all(abs(a - b) <= 1e-9 * max(abs(a), abs(b), 1.0) for a, b in zip(got, exp))
            if not ok:
                ctx.violation('incon-transfer:atmosphere:%s' % branch, 'atmosphere block %r state %r, expected (%s) %r' % (n, got, branch, exp), case)
                return
        else:
            exp = list(src[own_mapping[0][n]].variable)
            sp, dp = src[own_mapping[0][n]].permeability, dst[n].permeability
            if sp is not None:
                ctx.count('states_with_permeability')
            if (sp is None) != (dp is None) or (sp is not None and list(sp) != list(dp)):
                ctx.violation('incon-transfer:underground-state:permeability', 'block %r permeability %r, mapped source block %r has %r' % (
                    n, dp, own_mapping[0][n], sp), case)
                return
            if got != exp or dst[n].porosity != src[own_mapping[0][n]].porosity:
                ctx.violation('incon-transfer:underground-state', 'block %r state %r / porosity %r, mapped source block %r has %r / %r' % (
                    n, got, dst[n].porosity, own_mapping[0][n], exp, src[own_mapping[0][n]].porosity), case)
                return


# -- model transfer onto an identical geometry ---------------------------------------------------------------

def check_model_transfer(ctx, S, case):
    t2d, t2g = R.t2data, R.t2grids
    rng = ctx.rng
    import sys
    sys.setrecursionlimit(max(sys.getrecursionlimit(), 50000))      # the geometry is a densely linked object graph
    geo2 = copy.deepcopy(S)
    src = t2d.t2data()
    src.grid = t2g.t2grid().fromgeo(S)
    natm = [1, S.num_columns, 0][S.atmosphere_type]
    under = S.block_name_list[natm:]
    if not under:
        return
    cats_top, cats_bot = ['99'], ['98']
    if S.convention != 0:
        cats_top, cats_bot = ['top'[:S.layername_length].rjust(S.layername_length), 'bot'[:S.layername_length].rjust(S.layername_length)], []
        cats_top, cats_bot = [cats_top[0]], [cats_top[1]] if False else [('bt' if S.layername_length == 2 else 'bot')]
        cats_top = ['tp' if S.layername_length == 2 else 'top']
    # (interior generator names never end in a category)
    gens = []

    def table(g):
        if rng.random() < 0.5:
            n = rng.randint(2, 6)
            g.ltab = n
            g.time = [float(i) * 1e6 for i in range(n)]
            g.rate = [round(rng.uniform(-5, 5), 3) for _ in range(n)]
            if rng.random() < 0.5:
                g.itab = 'x'
                g.enthalpy = [1e6 + 1e4 * i for i in range(n)]
    for col in rng.sample(S.columnlist, min(S.num_columns, rng.randint(1, 4))):
        topblk = S.block_name(S.layerlist[S.num_layers - col.num_layers].name, col.name)
        botblk = S.block_name(S.layerlist[-1].name, col.name)
        conventional = rng.random() < 0.6
        namecol = col.name if conventional else rng.choice(S.columnlist).name
        g = t2d.t2generator(name=S.block_name(cats_top[0], namecol), block=topblk, type='MASS', gx=round(rng.uniform(0.1, 5), 3), ex=1e5)
        table(g)
        gens.append(('top', g))
        if rng.random() < 0.6:
            g = t2d.t2generator(name=S.block_name(cats_bot[0], col.name), block=botblk, type='HEAT', gx=round(rng.uniform(1e3, 1e5), 1))
            gens.append(('bottom', g))
    for b in rng.sample(under, min(len(under), rng.randint(1, 4))):
        g = t2d.t2generator(name='w%s%s%02d' % (rng.choice('abc'), rng.choice('xyz'), rng.randint(10, 90)), block=b,
                            type=rng.choice(['MASS', 'COM1', 'DELV']), gx=round(rng.uniform(-10, 10), 3), ex=rng.choice([None, 8e5]))
        if g.type != 'DELV':
            table(g)
        gens.append(('interior', g))
    keys = set()
    for kind, g in gens:
        if (g.block, g.name) in keys:
            continue
        keys.add((g.block, g.name))
        src.add_generator(g)
    preserve = rng.random() < 0.5
    rename = rng.random() < 0.4
    # what else travels with the model: the block printed at every step, initial conditions held in the data object, and
    # - optionally - an initial conditions file transferred on the way
    src.parameter['print_block'] = rng.choice(under) if rng.random() < 0.6 else None
    for b in rng.sample(under, min(len(under), rng.randint(0, 3))):
        src.incon[b] = [None, [round(rng.uniform(1e5, 1e7), 1), round(rng.uniform(10, 300), 2)]]
    with_file = rng.random() < 0.5 and S.convention == 0     # (names of the other conventions need check_blocknames=False, which this route cannot pass on)
    kw = {}
    if with_file:
        import os
        fin, fout = os.path.join(ctx.tmp, 'c19_src.incon'), os.path.join(ctx.tmp, 'c19_new.incon')
        inc0 = make_incon(rng, S, 2)
        inc0.write(fin)
        kw = {'sourceinconfilename': fin, 'inconfilename': fout}
    case = dict(case, generators=[(g.block, g.name, g.type, g.gx, g.ltab) for g in src.generatorlist], preserve_totals=preserve,
                rename_generators=rename, print_block=src.parameter['print_block'], incon_blocks=sorted(src.incon), incon_file=with_file)
    new = t2d.t2data()
    if rng.random() < 0.25:
        # no generators declared as belonging to the top or bottom of the model (the default): all are kept block by block
        cats_top, cats_bot = [], []
        case['no_top_bottom_lists'] = True
    else:
        kw.update(top_generator=cats_top, bottom_generator=cats_bot)
    with ctx.guard(case, where='model-transfer') as gd:
        new.transfer_from(src, S, geo2, preserve_generation_totals=preserve, rename_generators=rename, **kw)
    if gd.raised is not None:
        return
    ctx.evaluated()
    ctx.count('model_transfers')
    ctx.see('model_transfer_options', 'rename=%s incon-file=%s print-block=%s' % (rename, with_file, src.parameter['print_block'] is not None))
    if new.parameter['print_block'] != src.parameter['print_block']:
        ctx.violation('model-transfer:print-block', 'identity transfer turned the print block %r into %r' % (src.parameter['print_block'], new.parameter['print_block']), case)
    if sorted(new.incon) != sorted(src.incon) or any(new.incon[k][1] != src.incon[k][1] for k in src.incon):
        ctx.violation('model-transfer:incon-section', 'initial conditions held in the model for %r arrive as %r' % (sorted(src.incon), sorted(new.incon)), case)
    if with_file:
        with ctx.guard(case, where='model-transfer:incon-file') as gd2:
            a, b = R.t2incons.t2incon(fin), R.t2incons.t2incon(fout)
            ctx.count('model_transfers_with_incon_file')
            # (block by block: the source set may list its blocks in any order, the result follows the target geometry)
            va = dict((x.block, [float(v) for v in x.variable]) for x in a)
            vb = dict((x.block, [float(v) for v in x.variable]) for x in b)
            if va != vb:
                k = next((n for n in sorted(set(va) | set(vb)) if va.get(n) != vb.get(n)), None)
                ctx.violation('model-transfer:incon-file', 'identity transfer of the initial conditions file: %d states in, %d out; block %r: %r vs %r' % (
                    len(va), len(vb), k, va.get(k), vb.get(k)), case)

    def sig(d, cats):
        out = []
        for g in d.generatorlist:
            cat = S.layer_name(g.name)
            nm = cat if cat in cats else g.name
            if rename and d is src and cat not in cats:
                # documented renaming of the other generators: the layer part of the name stays, the column part becomes
                # the column of the generator's block
                nm = S.block_name(cat, S.column_name(g.block))
            out.append((g.block, nm, g.type, None if g.gx is None else round(g.gx, 9), g.ltab, tuple(round(x, 9) for x in g.rate),
                        tuple(g.time), tuple(g.enthalpy)))
        return sorted(out, key=repr)
    a, b = sig(src, cats_top + cats_bot), sig(new, cats_top + cats_bot)
    if a != b:
        lost = [x[:4] for x in a if x not in b][:3]
        extra = [x[:4] for x in b if x not in a][:3]
        ctx.violation('model-transfer:generators', 'identity transfer changed the generators: missing %r, new %r' % (lost, extra), case)
        return
    for typ in ('MASS', 'HEAT', 'COM1'):
        t0 = sum(g.gx for g in src.generatorlist if g.type == typ and g.gx)
        t1 = sum(g.gx for g in new.generatorlist if g.type == typ and g.gx)
        if abs(t0 - t1) > 1e-9 * max(abs(t0), 1.0):
            ctx.violation('model-transfer:total-generation', 'total %s generation %r -> %r' % (typ, t0, t1), case)
            return
    if [blk.rocktype.name for blk in new.grid.blocklist] != [blk.rocktype.name for blk in src.grid.blocklist]:
        ctx.violation('model-transfer:rocktypes', 'rock type assignment changed by an identity transfer', case)


def run_shard(ctx, spec):
    for i in range(spec['n']):
        k = ctx.shard * 1000 + i
        tries = 0
        while True:
            with ctx.guard({'k': k}, where='generate') as g:
                S, T, desc = make_pair(ctx.rng, k)
            if g.raised is not None:
                S = None
                break
            if no_ties(S, T) or tries > 5:
                break
            tries += 1
        if S is None or not no_ties(S, T):
            ctx.count('pairs_skipped')
            continue
        combo = 'target-atm-%d:source-atm-%d' % (T.atmosphere_type, S.atmosphere_type)
        case = {'pair': desc, 'seed': ctx.seed, 'shard': ctx.shard, 'index': i, 'nvar': ctx.rng.randint(1, 6)}
        if T.atmosphere_type in (0, 1) and S.atmosphere_type == 2 or (T.atmosphere_type == 0 and S.atmosphere_type == 1):
            case['nvar'] = max(2, case['nvar']) if S.atmosphere_type == 2 else case['nvar']
        ctx.count('pairs')
        ctx.see('atmosphere_combination', combo)
        ctx.see('pair_kind', desc['kind'])
        ctx.see('snapped', 'source' if desc.get('snap_s') else ('target' if desc.get('snap_t') else 'no'))
        ctx.see('layers_renamed', 'source' if desc.get('layers_renamed_s') else ('target' if desc.get('layers_renamed_t') else 'no'))
        check_mapping(ctx, S, T, case, combo)
        own = expected_mapping(ctx, S, T)
        if S.atmosphere_type == 2 and T.atmosphere_type != 2:
            case['nvar'] = 2          # the documented default atmosphere state has two variables
        check_incon_transfer(ctx, S, T, case, combo, own)
        # S onto itself is the identity
        with ctx.guard(case, where='self-mapping') as g:
            selfmap = S.block_mapping(S)
        if g.raised is None:
            ctx.count('self_mappings')
            ctx.evaluated()
            bad = [(k2, v) for k2, v in selfmap.items() if k2 != v]
            if bad or set(selfmap) != set(S.block_name_list):
                ctx.violation('mapping:self-not-identity', 'a geometry mapped onto itself gives %r' % (bad[:3],), case)
        if i % 3 == 0:
            check_model_transfer(ctx, S, case)
        if i % 4 == 1 and S.num_columns > 1:
            # the same source object, moved in place after it has served as a source: the second mapping must be the
            # nearest-centre mapping of the geometry as it is NOW
            import numpy as np
            dxy = [0.37 * (max(c.centre[0] for c in S.columnlist) - min(c.centre[0] for c in S.columnlist) + 10.0),
                   -0.21 * (max(c.centre[1] for c in S.columnlist) - min(c.centre[1] for c in S.columnlist) + 10.0), 0.0]
            with ctx.guard(case, where='move-source') as g:
                S.translate(np.array(dxy))
            if g.raised is None and no_ties(S, T):
                case2 = dict(case, source_moved=dxy)
                ctx.count('mappings_after_moving_the_source')
                check_mapping(ctx, S, T, case2, combo + ':source-moved')
                with ctx.guard(case2, where='self-mapping-after-move') as g:
                    selfmap = S.block_mapping(S)
                if g.raised is None:
                    bad = [(k2, v) for k2, v in selfmap.items() if k2 != v]
                    if bad:
                        ctx.violation('mapping:self-not-identity:source-moved', 'a moved geometry mapped onto itself gives %r' % (bad[:3],), case2)
        ctx.case(repr(desc), nontrivial=True, sample=(i < 1))


def replay(ctx, case):
    ctx.rng.seed(case.get('seed', 0) * 1000003 + case.get('shard', 0))
    run_shard(ctx, {'n': case.get('index', 0) + 1})
