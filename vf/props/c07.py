"""C07 -- what a listing shows at a given time does not depend on how you got there.

Monitor shape: history vs fresh object.  For every file, fresh[i] is the state
(index, time, step, every table's row names and numbers) of a freshly opened listing set
directly to index i.  Navigation sequences are executed on a live listing object and
after every action its state is compared with fresh[expected index], where the expected
index comes from a ten-line model of the navigation actions.
"""
import glob
import os

import numpy as np

from vf.core import HarnessError, REPO
from vf.repo import R

INFO = {
    'rule': ('cases = (listing file or truncated copy, sequence of navigation actions): actions first, last, next, prev, index=i for i in [-N, N-1], '
             'time=t (each exact time, between every pair of times on both sides of the midpoint, before the first, after the last), step=s '
             'likewise, history(fixed selection). All sequences up to the stated length, plus random sequences of length 5..60. Truncated copies '
             '(cut before the k-th result set) give 1..N times; blanked copies (listings whose tables print incomplete rows: all numbers re-drawn, trailing fields of complete rows blanked in every other result set) give rows with a blank field at one time and a number there at another; redrawn copies (listings whose result sets do not all print the same tables: all numbers re-drawn) make every table differ between times. Distinct = distinct (file, sequence); non-trivial = the index changes at least twice.'),
    'require': {
        'quick': {'counters': {'actions_checked': 20000, 'sequences': 4000, 'files': 15, 'fresh_snapshots': 40, 'truncated_copies': 5, 'blanked_copies': 2, 'rows_blank_at_one_time_printed_at_another': 4, 'redrawn_copies': 1},
                  'seen': {'action_kinds': 8, 'simulators': 6}, 'nontrivial': 2000},
        'thorough': {'counters': {'actions_checked': 1000000, 'sequences': 350000, 'files': 20, 'fresh_snapshots': 100, 'truncated_copies': 20, 'blanked_copies': 2, 'rows_blank_at_one_time_printed_at_another': 4, 'redrawn_copies': 1},
                     'seen': {'action_kinds': 8, 'simulators': 6}, 'nontrivial': 250000},
    },
    'exhaustive': {'quick': True, 'thorough': True},
    'exhaustive_note': {'quick': 'all sequences of length <= 2 over the full alphabet on every file with >= 2 result times',
                        'thorough': 'all sequences of length <= 4 on every file / truncated copy with 2-4 times and <= 200 table rows, length <= 3 '
                                    'on those with <= 1100 rows or 5-6 times, length <= 2 on the rest; random sequences are sampled'},
    'watchdog_s': {'quick': 1500, 'thorough': 7200},
    'assumptions': ['times / steps exactly half-way between two result sets are not requested (either neighbour would be right)'],
}


def listing_files():
    t = os.path.join(REPO, 'tests', 'listing')
    return sorted(f for f in glob.glob(os.path.join(t, '*', '*', '*')) if not f.endswith('.npy') and not f.endswith('~'))


def plan(tier, seed):
    files = [os.path.relpath(f, REPO) for f in listing_files()]
    shards = []
    if tier == 'quick':
        for i in range(8):
            shards.append({'kind': 'enum', 'files': files[i::8], 'depth': 2, 'random': 12, 'truncate': 'few'})
        return shards
    for f in files:
        shards.append({'kind': 'enum', 'files': [f], 'depth': None, 'random': 150, 'truncate': True})
    return shards


def snapshot(lst):
    tabs = {}
    for name in lst._tablenames:
        t = lst._table[name]
        tabs[name] = (tuple(t.row_name), t._data.copy())
    return {'index': lst.index, 'time': float(lst.time), 'step': int(lst.step) if lst.step is not None else None, 'tables': tabs}


def same_state(a, b):
    """None when equal, else a short description of the first difference."""
    for k in ('index', 'time', 'step'):
        if a[k] != b[k]:
            return '%s is %r, a fresh listing at that index shows %r' % (k, a[k], b[k])
    if set(a['tables']) != set(b['tables']):
        return 'tables %r vs %r' % (sorted(a['tables']), sorted(b['tables']))
    for name in a['tables']:
        ra, da = a['tables'][name]
        rb, db = b['tables'][name]
        if ra != rb:
            return 'table %r row names differ' % name
        if da.shape != db.shape or not np.array_equal(da, db, equal_nan=True):
            bad = np.argwhere(~((da == db) | (np.isnan(da) & np.isnan(db))))
            i, j = (bad[0] if len(bad) else (0, 0))
            return 'table %r: %d of %d values differ (row %d column %d: %r vs %r)' % (name, len(bad), da.size, i, j, da[i, j], db[i, j])
    return None


def alphabet(times, steps):
    N = len(times)
    A = [('first',), ('last',), ('next',), ('prev',)]
    A += [('index', i) for i in range(-N, N)]
    ts = [('time', float(t)) for t in times]
    for a, b in zip(times[:-1], times[1:]):
        if b > a:
            ts += [('time', float(a + 0.49 * (b - a))), ('time', float(a + 0.51 * (b - a)))]
    ts += [('time', float(times[0] - max(1.0, abs(times[0])))), ('time', float(times[-1] * 2 + 1.0))]
    ss = [('step', int(s)) for s in steps]
    for a, b in zip(steps[:-1], steps[1:]):
        if b - a >= 2 and (b - a) % 2 == 1:
            ss += [('step', int(a + (b - a) // 2)), ('step', int(a + (b - a) // 2 + 1))]
        elif b - a >= 3:
            ss += [('step', int(a + (b - a) // 2 - 1)), ('step', int(a + (b - a) // 2 + 1))]
    ss += [('step', int(steps[0]) - 3), ('step', int(steps[-1]) + 1000)]
    return A + ts + ss + [('history',), ('history-nothing-valid',)]


def expected_index(cur, action, times, steps):
    """The ten-line model of navigation.  Returns (new index, boolean result or None)."""
    N = len(times)
    k = action[0]
    if k == 'first':
        return 0, None
    if k == 'last':
        return N - 1, None
    if k == 'next':
        return (cur + 1, True) if cur < N - 1 else (cur, False)
    if k == 'prev':
        return (cur - 1, True) if cur > 0 else (cur, False)
    if k == 'index':
        return action[1] % N, None
    if k == 'time':
        d = [abs(float(t) - action[1]) for t in times]
        return d.index(min(d)), None
    if k == 'step':
        d = [abs(int(s) - action[1]) for s in steps]
        return d.index(min(d)), None
    if k in ('history', 'history-nothing-valid'):
        return cur, None
    raise HarnessError(action)


def history_selection(lst):
    sel = []
    for name, spec in (('element', 'e'), ('connection', 'c'), ('generation', 'g')):
        if name in lst._table:
            t = lst._table[name]
            sel.append((spec, t.row_name[min(1, t.num_rows - 1)], t.column_name[0]))
    if lst.simulator == 'TOUGH+':
        sel = sel[:1]           # (table subsets of TOUGH+ files are C06 matter)
    return sel


def do_action(lst, action, hsel):
    k = action[0]
    if k == 'first':
        return lst.first()
    if k == 'last':
        return lst.last()
    if k == 'next':
        return lst.next()
    if k == 'prev':
        return lst.prev()
    if k == 'index':
        lst.index = action[1]
    elif k == 'time':
        lst.time = action[1]
    elif k == 'step':
        lst.step = action[1]
    elif k == 'history':
        lst.history(hsel)
    elif k == 'history-nothing-valid':
        # a selection none of whose items exists (unknown row name, unknown table letter): nothing to extract
        lst.history([('e', 'no such block', 'no such column'), ('q', 0, 'x')])
    return None


class FileUnderTest(object):
    def __init__(self, ctx, path, label):
        T = R.t2listing
        self.ctx, self.path, self.label = ctx, path, label
        probe = T.t2listing(path)
        self.N = probe.num_fulltimes
        self.times = [float(t) for t in probe.fulltimes]
        self.steps = [int(s) for s in probe.fullsteps]
        self.simulator = probe.simulator
        self.rows = sum(probe._table[n].num_rows for n in probe._tablenames)
        probe.close()
        self.fresh = []
        for i in range(self.N):
            l = T.t2listing(path)
            l.index = i
            self.fresh.append(snapshot(l))
            l.close()
            ctx.count('fresh_snapshots')
        # a fresh listing positioned directly at index i must also agree with one stepped to from the start
        self.lst = T.t2listing(path)
        self.attach_clock()
        self.hsel = history_selection(self.lst)
        self.alpha = alphabet(self.times, self.steps)

    def attach_clock(self):
        """Logical clock on the live object: an action may read at most 64 + 6 x (lines in the file) lines and at most
        1000 times in a row at end of file; more than that is reported as non-termination (never wall time)."""
        from vf.clock import CountingFile, count_lines
        if not hasattr(self, 'budget'):
            self.budget = 64 + 6 * count_lines(self.path)
        self.proxy = CountingFile(self.lst._file, self.budget)
        self.lst._file = self.proxy

    def reopen(self):
        try:
            self.lst.close()
        except Exception:
            pass
        self.lst = R.t2listing.t2listing(self.path)
        self.attach_clock()

    def run(self, seq, reset=True):
        """Executes a sequence from the state of a freshly opened listing (index 0)."""
        ctx = self.ctx
        case = {'file': self.label, 'actions': [list(a) for a in seq]}
        from vf.core import StepBudgetExceeded
        lst = self.lst
        if reset:
            self.proxy.reset()
            try:
                with ctx.guard(case, where='reset-to-first') as g:
                    lst.index = 0
            except StepBudgetExceeded as e:
                ctx.violation('does-not-terminate:reset-to-first', '%s: index = 0: %s' % (self.label, e), case)
                self.reopen()
                return 0
            if g.raised is not None:
                self.reopen()
                return 0
        cur = lst.index
        changes = 0
        for a in seq:
            self.proxy.reset()
            try:
                with ctx.guard(case, where=a[0]) as g:
                    ret = do_action(lst, a, self.hsel)
            except StepBudgetExceeded as e:
                ctx.violation('does-not-terminate:%s' % a[0], '%s: action %r: %s' % (self.label, list(a), e), case)
                self.reopen()
                return changes
            if g.raised is not None:
                # the object may be in any state now: reopen
                self.reopen()
                return changes
            exp, expret = expected_index(cur, a, self.times, self.steps)
            ctx.count('actions_checked')
            ctx.see('action_kinds', a[0])
            if expret is not None and bool(ret) != expret:
                ctx.violation('return-value:%s' % a[0], '%s() returned %r at index %d of %d' % (a[0], ret, cur, self.N), case)
                return changes
            if lst.index != exp:
                kind = 'moved-past-end' if a[0] in ('next', 'prev') else 'wrong-result-set'
                ctx.violation('%s:%s' % (kind, a[0]), 'after %r from index %d the index is %r, expected %d (times %r)' % (list(a), cur, lst.index, exp, self.times[:6]), case)
                self.lst.index = 0
                return changes
            d = same_state(snapshot(lst), self.fresh[exp])
            if d:
                ctx.violation('state-differs-from-fresh:after:%s' % a[0], '%s after %r: %s' % (self.label, [list(x) for x in seq], d), case)
                self.reopen()
                return changes
            if exp != cur:
                changes += 1
            cur = exp
        return changes


def enumerate_sequences(alpha, depth):
    if depth == 0:
        yield []
        return
    for a in alpha:
        yield [a]
        if depth > 1:
            for rest in enumerate_sequences(alpha, depth - 1):
                if rest:
                    yield [a] + rest


def truncated_copies(ctx, path, label, few=False):
    """Copies of a multi-time file cut just before its k-th result set (own scan of the raw text)."""
    with open(path, 'rb') as f:
        data = f.read()
    lines = data.split(b'\n')
    starts = []
    pos = 0
    ee = 0
    for ln in lines:
        s = ln.decode('latin-1')
        if 'OUTPUT DATA AFTER' in s.upper() and '@' not in s[:3]:
            starts.append(pos)
        elif s[1:6] == 'EEEEE':
            # an AUTOUGH2 table has three marker lines: before its header, after it, and at its end
            if ee % 3 == 0:
                starts.append(pos)
            ee += 1
        pos += len(ln) + 1
    out = []
    if len(starts) < 3:
        return out
    # keep the first k result sets, k = 2 .. N-1 (and 1)
    for k in sorted(set([1, 2, len(starts) - 1])) if few is False else [1, 2]:
        if k >= len(starts):
            continue
        fn = os.path.join(ctx.tmp, 'trunc_%d_%s' % (k, os.path.basename(path)))
        if os.path.basename(path) == 'OUTPUT_DATA':
            d = os.path.join(ctx.tmp, 'trunc_%d' % k)
            os.makedirs(d, exist_ok=True)
            fn = os.path.join(d, 'OUTPUT_DATA')
        with open(fn, 'wb') as f:
            f.write(data[:starts[k]])
        out.append((fn, '%s[first %d result sets]' % (label, k), k))
    return out


def blanked_copy(ctx, path, label):
    """A copy of a multi-time listing whose tables print incomplete rows (TOUGH2 generation tables leave
    the trailing fields of some rows blank): every printed number is replaced by fresh digits (zeros become
    non-zero), then in every other result set the trailing fields of complete rows are blanked out, so that
    the same row has a blank field at one time and a non-zero number there at another.  Own scan of the text
    (the listing oracle of C05); returns None where no table has such rows."""
    import random
    from vf.props import c05
    from vf.oracle import listing_ref as LR
    ref = LR.parse_listing(path)
    if len(ref) < 2:
        return None
    lines = c05.read_lines(path)
    short = {}
    for res in ref:
        for t in res['tables']:
            ns = set(len(r[2]) for r in t.rows)
            if len(ns) > 1:
                short[t.name] = min(min(ns), short.get(t.name, 10 ** 6))
    if not short:
        return None
    c05.make_variant(ctx, random.Random(c05.variant_seed(ctx, label, 'digits', 7)), lines, ref, 'digits', 1.0)
    nblank = 0
    for ri, res in enumerate(ref):
        for t in res['tables']:
            if t.name not in short:
                continue
            nmin = short[t.name]
            for j, r in enumerate(t.rows):
                keys, index, cells, ln = r
                if len(cells) > nmin and (ri + j) % 2 == 0:
                    a = cells[nmin][1]
                    b = cells[-1][2]
                    # the blank run starts after the last kept number
                    lines[ln] = lines[ln][:a] + ' ' * (b - a) + lines[ln][b:]
                    del cells[nmin:]
                    nblank += 1
    if nblank == 0:
        return None
    # what the copy holds, from the text: rows with a blank trailing field at one time and a non-zero number there at another
    seen = {}
    for ri, res in enumerate(ref):
        for t in res['tables']:
            if t.name in short:
                for keys, index, cells, ln in t.rows:
                    seen.setdefault((t.name, tuple(keys)), []).append(len(cells))
    nvary = sum(1 for v in seen.values() if len(set(v)) > 1)
    if nvary == 0:
        return None
    fn = c05.write_variant(ctx, path, lines, 'blanked')
    c05.selfcheck(ctx, fn, ref)
    ctx.count('rows_blank_at_one_time_printed_at_another', nvary)
    return fn


def redrawn_copy(ctx, path, label):
    """A copy of a multi-time listing whose result sets do not all print the same tables (a table absent from the first
    result set is one the reader has no set-up for and has to step over): every printed number re-drawn, so that no table
    shows the same numbers at two times and a table left over from another result set cannot pass for the right one.
    Own scan of the text; None where every result set prints the same tables."""
    import random
    from vf.props import c05
    from vf.oracle import listing_ref as LR
    ref = LR.parse_listing(path)
    if len(ref) < 2:
        return None
    sets = [tuple(sorted(set(t.name for t in res['tables']))) for res in ref]
    if len(set(sets)) < 2:
        return None
    lines = c05.read_lines(path)
    n = c05.make_variant(ctx, random.Random(c05.variant_seed(ctx, label, 'digits', 11)), lines, ref, 'digits', 1.0)
    if n == 0:
        return None
    fn = c05.write_variant(ctx, path, lines, 'redrawn')
    c05.selfcheck(ctx, fn, ref)
    ctx.count('tables_not_printed_in_every_result_set', len(set(x for s_ in sets for x in s_)) - len(set(sets[0]).intersection(*map(set, sets[1:]))))
    return fn


def run_file(ctx, path, label, spec, expect_times=None):
    rng = ctx.rng
    with ctx.guard({'file': label}, where='open') as g:
        fut = FileUnderTest(ctx, path, label)
    if g.raised is not None:
        return
    if expect_times is not None and fut.N != expect_times:
        ctx.violation('truncated-copy:result-set-count', '%s shows %d result sets, the copy holds %d' % (label, fut.N, expect_times), {'file': label})
        return
    ctx.count('files')
    ctx.see('simulators', fut.simulator)
    # a listing of ANOTHER simulator family opened after the live object exists and kept open while it is used:
    # what one listing object does must not depend on which other listings are open
    other = None
    others = [f for f in listing_files() if ('/AUTOUGH2/' in f) != (fut.simulator == 'AUTOUGH2') or ('/TOUGHplus/' in f) != (fut.simulator == 'TOUGH+')]
    if others:
        try:
            other = R.t2listing.t2listing(others[len(label) % len(others)])
            ctx.count('other_family_listing_open')
        except Exception:
            other = None
    # positioned directly vs stepped: fresh[i] was taken by 'index = i' on a fresh object; stepping with next() must agree
    seq = [('first',)] + [('next',)] * (fut.N + 1) + [('prev',)] * (fut.N + 1)
    fut.run(seq)
    ctx.count('sequences')
    if fut.N < 2:
        fut.run([('index', 0), ('index', -1), ('last',), ('history',), ('next',), ('prev',), ('time', fut.times[0] + 5.0), ('step', fut.steps[0] + 3)])
        ctx.count('sequences')
        ctx.case((label, 'single'), nontrivial=False)
        fut.lst.close()
        if other is not None:
            other.close()
        return
    depth = spec['depth']
    if depth is not None and (len(fut.alpha) > 70 or fut.rows > 700):
        depth = 1           # quick tier: long or big listings get all single actions + random sequences
    if depth is None:
        if fut.N <= 4 and fut.rows <= 200:
            depth = 4
        elif fut.rows <= 1100 and fut.N <= 6:
            depth = 3
        else:
            depth = 2
        while depth > 1 and len(fut.alpha) ** depth > 40000:
            depth -= 1
    ctx.see('enumeration_depth', '%s: N=%d rows=%d alphabet=%d depth=%d' % (label, fut.N, fut.rows, len(fut.alpha), depth))
    nbad0 = len(ctx.violations)
    for seq in enumerate_sequences(fut.alpha, depth):
        ch = fut.run(seq)
        ctx.evaluated()
        ctx.count('sequences')
        ctx.case((label, tuple(seq)), nontrivial=ch >= 2, sample=(len(seq) >= 2 and len(ctx.samples) < 3))
        if len(ctx.violations) > nbad0 + 5:
            break
    for _ in range(spec['random']):
        seq = [rng.choice(fut.alpha) for _ in range(rng.randint(5, 60))]
        ch = fut.run(seq, reset=rng.random() < 0.5)
        ctx.evaluated()
        ctx.count('sequences')
        ctx.case((label, 'random', tuple(seq)), nontrivial=ch >= 2)
    fut.lst.close()
    if other is not None:
        other.close()


def run_shard(ctx, spec):
    for rel in spec['files']:
        path = os.path.join(REPO, rel)
        run_file(ctx, path, rel, spec)
        if spec.get('truncate'):
            with ctx.guard({'file': rel}, where='truncate') as g:
                copies = truncated_copies(ctx, path, rel, few=(spec['truncate'] == 'few'))
            if g.raised is not None:
                continue
            for fn, label, k in copies:
                ctx.count('truncated_copies')
                run_file(ctx, fn, label, dict(spec, depth=2 if spec['depth'] else None, random=20), expect_times=k)
        with ctx.guard({'file': rel + '[redrawn numbers]'}, where='redrawn-copy') as g:
            fn = redrawn_copy(ctx, path, rel)
        if g.raised is None and fn is not None:
            ctx.count('redrawn_copies')
            run_file(ctx, fn, rel + '[redrawn numbers]', dict(spec, depth=2 if spec['depth'] else None, random=20))
        with ctx.guard({'file': rel + '[blanked trailing fields]'}, where='blanked-copy') as g:
            fn = blanked_copy(ctx, path, rel)
        if g.raised is None and fn is not None:
            ctx.count('blanked_copies')
            run_file(ctx, fn, rel + '[blanked trailing fields]', dict(spec, depth=2 if spec['depth'] else None, random=20))


def replay(ctx, case):
    label = case['file']
    rel = label.split('[')[0]
    path = os.path.join(REPO, rel)
    if '[blanked' in label:
        path = blanked_copy(ctx, path, rel)
    elif '[redrawn' in label:
        path = redrawn_copy(ctx, path, rel)
    elif '[' in label:
        k = int(label.split('first ')[1].split()[0])
        copies = dict((kk, fn) for fn, lab, kk in truncated_copies(ctx, path, rel))
        path = copies[k]
    fut = FileUnderTest(ctx, path, label)
    fut.run([tuple(a) for a in case.get('actions', [])])
    ctx.evaluated()
