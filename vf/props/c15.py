"""C15 -- IFC-67 routines agree with IAPWS-97 and with themselves.

Monitor shape: cross-formulation differential (t2thermo vs IAPWS97) inside
frozen envelopes, the same returned-value identities as C14, inverse pair,
bounds logic against an own transcription of the stated ranges, classifier
agreement away from the boundary curves, separated steam fraction in [0,1] and
monotone in enthalpy.
"""
import math

from vf.core import HarnessError
from vf.repo import R
from vf.props.c14 import lin, ident_pt, TK, b23_pressure

INFO = {
    'rule': ('cases = states: liquid (t 0.01..350 degC, p from saturation to 100 MPa) and steam (t 0.01..800 degC, p below '
             'saturation / B23 / 100 MPa) grids plus random states; the saturation line; range limits +-eps with bounds '
             'on/off; (t,p) pairs for the two classifiers; (h, separator pressure[s]) ladders. Distinct = distinct '
             '(clause, state); every case evaluates a two-sided comparison, so all are non-trivial.'),
    'require': {
        'quick': {'counters': {'cross_liquid': 500, 'cross_steam': 500, 'cross_sat': 100, 'identity_liquid': 300,
                               'identity_steam': 300, 'tsat_inverse': 100, 'bounds_checked': 1000,
                               'classifiers_compared': 1000, 'ssf_ladders': 20, 'clausius_clapeyron': 50},
                  'nontrivial': 3000},
        'thorough': {'counters': {'cross_liquid': 14000, 'cross_steam': 18000, 'cross_sat': 2900, 'identity_liquid': 11000,
                                  'identity_steam': 11000, 'tsat_inverse': 2900, 'bounds_checked': 30000,
                                  'classifiers_compared': 58000, 'ssf_ladders': 1100, 'clausius_clapeyron': 1700},
                     'nontrivial': 150000},
    },
    'watchdog_s': {'quick': 900, 'thorough': 3600},
    'assumptions': ['cross-formulation envelopes are frozen at about twice the largest difference observed between the two '
                    'formulations on the unchanged tree (liquid density 0.5 %, steam density 1 %, internal energy 1.2 kJ/kg + '
                    '0.6 %, saturation pressure 0.3 %)',
                    'stated ranges: IFC-67 region 1 / region 2 as described in doc/source/t2thermo.rst'],
}

TC1_C = 647.3 - 273.15
PC1 = 22120000.0
# envelopes (relative unless stated)
ENV = {'liq_d': 5e-3, 'steam_d': 1e-2, 'u_abs': 1200.0, 'u_rel': 6e-3, 'psat': 3e-3}


def plan(tier, seed):
    f = 2 if tier == 'quick' else 0.12
    return [{'part': 'cross', 'f': f}, {'part': 'identities', 'f': f}, {'part': 'bounds', 'f': f},
            {'part': 'classifiers', 'f': f}, {'part': 'ssf', 'f': f}]


def ifc_b23p(t):
    # IFC-67 L-function (own transcription of the published constants)
    theta = (t + TK) / 647.3
    return 22120000.0 * (1.574373327e1 + theta * (-3.417061978e1 + 1.931380707e1 * theta))


def run_cross(ctx, spec):
    T, W = R.t2thermo, R.IAPWS97
    k = int(60 / math.sqrt(spec['f']))
    # liquid
    for t in lin(0.5, 349.5, k):
        ps = W.sat(t)
        for x in lin(0.0, 1.0, int(40 / math.sqrt(spec['f']))):
            p = math.exp(math.log(ps * 1.01) + x * (math.log(99.9e6) - math.log(ps * 1.01)))
            case = {'clause': 'cross liquid', 't': t, 'p': p}
            with ctx.guard(case) as g:
                d1, u1 = T.cowat(t, p)
                d2, u2 = W.cowat(t, p)
            if g.raised is not None:
                continue
            ctx.evaluated()
            ctx.count('cross_liquid')
            ctx.case(('xl', t, p), True)
            rd = abs(d1 / d2 - 1)
            ru = abs(u1 - u2)
            ctx.maximum('liquid density rel diff', rd, case)
            ctx.maximum('liquid u excess over 0.3% [J/kg]', ru - 3e-3 * abs(u2), case)
            if rd > ENV['liq_d']:
                ctx.violation('cross:liquid-density', 'IFC-67 %r vs IAPWS-97 %r (rel %.3g) at t=%r p=%r' % (d1, d2, rd, t, p), case)
            if ru > ENV['u_abs'] + ENV['u_rel'] * abs(u2):
                ctx.violation('cross:liquid-energy', 'IFC-67 u=%r vs IAPWS-97 u=%r at t=%r p=%r' % (u1, u2, t, p), case)
    # steam
    def pmax(t):
        if t <= 350.0:
            return W.sat(t) * 0.99
        if t <= 590.0:
            return min(b23_pressure(t + TK), ifc_b23p(t)) * 0.99
        return 99.9e6
    for t in lin(0.5, 799.5, int(80 / math.sqrt(spec['f']))):
        for x in lin(0.0, 1.0, int(40 / math.sqrt(spec['f']))):
            p = math.exp(math.log(600.0) + x * (math.log(pmax(t)) - math.log(600.0)))
            if p > pmax(t):
                continue
            case = {'clause': 'cross steam', 't': t, 'p': p}
            with ctx.guard(case) as g:
                d1, u1 = T.supst(t, p)
                d2, u2 = W.supst(t, p)
            if g.raised is not None:
                continue
            ctx.evaluated()
            ctx.count('cross_steam')
            ctx.case(('xs', t, p), True)
            rd = abs(d1 / d2 - 1)
            ru = abs(u1 - u2)
            ctx.maximum('steam density rel diff', rd, case)
            ctx.maximum('steam u excess over 0.3% [J/kg]', ru - 3e-3 * abs(u2), case)
            if rd > ENV['steam_d']:
                ctx.violation('cross:steam-density', 'IFC-67 %r vs IAPWS-97 %r (rel %.3g) at t=%r p=%r' % (d1, d2, rd, t, p), case)
            if ru > ENV['u_abs'] + ENV['u_rel'] * abs(u2):
                ctx.violation('cross:steam-energy', 'IFC-67 u=%r vs IAPWS-97 u=%r at t=%r p=%r' % (u1, u2, t, p), case)
    # saturation line
    for t in lin(0.01, 373.9, int(500 / spec['f'])):
        case = {'clause': 'cross saturation', 't': t}
        with ctx.guard(case) as g:
            p1 = T.sat(t)
            p2 = W.sat(t)
        if g.raised is not None:
            continue
        ctx.evaluated()
        ctx.count('cross_sat')
        ctx.case(('xsat', t), True)
        r = abs(p1 / p2 - 1)
        ctx.maximum('saturation pressure rel diff', r, case)
        if r > ENV['psat']:
            ctx.violation('cross:saturation-pressure', 'IFC-67 %r vs IAPWS-97 %r at t=%r' % (p1, p2, t), case)


def run_identities(ctx, spec):
    T = R.t2thermo
    n = int(2000 / spec['f'])
    for i in range(n):
        t = ctx.rng.uniform(1.0, 349.0)
        ps = T.sat(t)
        p = math.exp(ctx.rng.uniform(math.log(ps * 1.02), math.log(99e6)))
        case = {'clause': 'identity liquid', 't': t, 'p': p}
        with ctx.guard(case) as g:
            r = ident_pt(ctx, T.cowat, t, p, 'cowat', 1)
        if g.raised is not None or r is None:
            continue
        ctx.evaluated()
        ctx.count('identity_liquid')
        ctx.case(('il', t, p), True)
        ctx.maximum('identity residual liquid', r[0], case)
        if r[0] > 1e-4:
            ctx.violation('identity:liquid', 'single-potential identity residual %.3g at t=%r p=%r' % (r[0], t, p), case)
    for i in range(n):
        t = ctx.rng.uniform(1.0, 799.0)
        if t <= 350:
            pm = T.sat(t) * 0.98
        elif t <= 590:
            pm = ifc_b23p(t) * 0.98
        else:
            pm = 99e6
        p = math.exp(ctx.rng.uniform(math.log(600.0), math.log(pm)))
        case = {'clause': 'identity steam', 't': t, 'p': p}
        with ctx.guard(case) as g:
            r = ident_pt(ctx, T.supst, t, p, 'supst', 2)
        if g.raised is not None or r is None:
            continue
        ctx.evaluated()
        ctx.count('identity_steam')
        ctx.case(('is', t, p), True)
        ctx.maximum('identity residual steam', r[0], case)
        if r[0] > 1e-4:
            ctx.violation('identity:steam', 'single-potential identity residual %.3g at t=%r p=%r' % (r[0], t, p), case)
    # inverse pair
    # (the second list: neighbouring temperatures near the triple point, whose saturation pressures differ by less than a
    #  pascal - an answer remembered for one pressure must not be handed out for its neighbour)
    for t in lin(0.01, 374.0, int(500 / spec['f'])) + [0.01, 374.15, 100.0, 350.0] + lin(0.0105, 0.6, 120) + lin(99.9990, 100.0, 12):
        case = {'clause': 'tsat(sat(t))', 't': t}
        with ctx.guard(case) as g:
            p = T.sat(t)
            t2 = T.tsat(p)
        if g.raised is not None:
            continue
        ctx.evaluated()
        ctx.count('tsat_inverse')
        ctx.case(('ts', t), True)
        if t2 is None:
            ctx.violation('tsat-of-sat:no-value', 'tsat(sat(%r)) is None' % t, case)
            continue
        ctx.maximum('tsat(sat(t))-t [K]', abs(float(t2) - t), case)
        if abs(float(t2) - t) > 1e-5:
            ctx.violation('tsat-of-sat', 'tsat(sat(%r)) = %r' % (t, t2), case)
    # Clausius-Clapeyron across IFC-67's own saturation line
    for t in lin(2.0, 348.0, int(300 / spec['f'])):
        case = {'clause': 'Clausius-Clapeyron IFC-67', 't': t}
        with ctx.guard(case) as g:
            h = 1e-3
            dpdt = (T.sat(t + h) - T.sat(t - h)) / (2 * h)
            ps = T.sat(t)
            dl, ul = T.cowat(t, ps)
            dg, ug = T.supst(t, ps)
        if g.raised is not None:
            continue
        ctx.evaluated()
        ctx.count('clausius_clapeyron')
        ctx.case(('cc', t), True)
        rhs = ((ug + ps / dg) - (ul + ps / dl)) / ((t + TK) * (1 / dg - 1 / dl))
        res = abs(dpdt / rhs - 1)
        ctx.maximum('Clausius-Clapeyron residual', res, case)
        if res > 1e-2:
            ctx.violation('saturation-inconsistent:clausius-clapeyron', 'dp/dT %r vs latent-heat form %r at t=%r' % (dpdt, rhs, t), case)


# -- bounds ---------------------------------------------------------------------------------------

def stated_cowat(t, p, psat):
    """IFC-67 region 1 (doc/source/t2thermo.rst): 0.01..350 degC, saturation..100 MPa."""
    return 0.01 <= t <= 350.0 and psat is not None and psat <= p <= 1e8


def stated_supst(t, p, psat):
    """IFC-67 region 2: 0.01..800 degC; below saturation up to 350 degC, below the
    L-line (B23) up to 590 degC, up to 100 MPa beyond."""
    if not (0.01 <= t <= 800.0 and p >= 0):
        return False
    if t <= 350.0:
        return p <= psat
    if t <= 590.0:
        return p <= ifc_b23p(t)
    return p <= 1e8


def run_bounds(ctx, spec):
    T = R.t2thermo
    n = int(5000 / spec['f'])
    eps = 1e-9
    pts = []
    for _ in range(n):
        t = ctx.rng.choice([ctx.rng.uniform(-5, 810), ctx.rng.uniform(340, 380), ctx.rng.uniform(580, 600)])
        p = math.exp(ctx.rng.uniform(math.log(100.0), math.log(1.2e8)))
        pts.append((t, p))
    # both sides of every limit
    for t in (0.01, 350.0, TC1_C, 590.0, 800.0):
        for dt in (-1e-6, 1e-6):
            for p in (1e3, 1e5, 1e7, 1.7e7, 2.2e7, 5e7, 9.9e7):
                pts.append((t + dt, p))
    # zero and negative pressures, temperatures far outside: a range-checked call returns no value there, it never raises
    for t in (0.5, 20.0, 200.0, 360.0, 600.0, 799.0, -300.0, 1e4):
        for p in (0.0, -1.0, -1e5, -1e9):
            pts.append((t, p))
    for t in lin(1.0, 799.0, 60):
        for pf in (1 - 1e-6, 1 + 1e-6):
            pts.append((t, 1e8 * pf))
            if t <= 374.0:
                pts.append((t, T.sat(t) * pf))
            if 350.0 < t <= 590.0:
                pts.append((t, ifc_b23p(t) * pf))
    for t, p in pts:
        case = {'clause': 'bounds', 't': t, 'p': p}
        with ctx.guard(case) as g:
            psat = T.sat(t) if 0.01 <= t <= 500.0 else None
            rc = checked_in_any_order(ctx, T.cowat, (t, p), case, 'cowat')
            rs = checked_in_any_order(ctx, T.supst, (t, p), case, 'supst')
            rc0 = T.cowat(t, p) if 0.01 <= t <= 350 else None
        if g.raised is not None:
            continue
        ctx.evaluated()
        ctx.count('bounds_checked')
        ctx.case(('b', t, p), True)
        # skip states within rounding of a limit (either answer is right there)
        near = p == 0.0 or any(abs(t - x) < 1e-9 for x in (0.01, 350.0, TC1_C, 590.0, 800.0)) or abs(p / 1e8 - 1) < 1e-12 or \
            (psat is not None and abs(p / psat - 1) < 1e-12) or (350 < t <= 590 and abs(p / ifc_b23p(t) - 1) < 1e-12)
        if near:
            continue
        ec = stated_cowat(t, p, psat)
        es = stated_supst(t, p, psat)
        gotc = rc is not None and rc[0] is not None
        gots = rs is not None and rs[0] is not None
        ctx.see('bounds_outcome', 'cowat in=%s ret=%s' % (ec, gotc))
        ctx.see('bounds_outcome', 'supst in=%s ret=%s' % (es, gots))
        if gotc != ec:
            ctx.violation('bounds:cowat:%s' % ('value-outside-range' if gotc else 'none-inside-range'),
                          'cowat(%r, %r, bounds=True) = %r, state %s the stated range' % (t, p, rc, 'inside' if ec else 'outside'), case)
        if gots != es:
            band = 350.0 < t <= TC1_C and ifc_b23p(t) < p <= (psat or 0)
            ctx.violation('bounds:supst:%s' % ('accepts-region3-band-350-374' if (gots and band) else
                                               ('value-outside-range' if gots else 'none-inside-range')),
                          'supst(%r, %r, bounds=True) = %r, state %s the stated range' % (t, p, rs, 'inside' if es else 'outside'), case)
        if gotc and rc0 is not None and tuple(rc) != tuple(rc0):
            ctx.violation('bounds:cowat:changes-value', 'bounds flag changes the result: %r vs %r' % (rc, rc0), case)
    # sat / tsat
    # the saturation line itself belongs to both ranges: saturated steam and saturated liquid at exactly the pressure the
    # library's own sat() gives (the usual way of asking for them) get their values with range checking on
    for t in lin(0.5, 349.5, int(700 / spec['f'])) + [0.01, 100.0, 250.0, 350.0]:
        case = {'clause': 'bounds on the saturation line', 't': t}
        with ctx.guard(case) as g:
            ps = T.sat(t)
            rs, rs0 = T.supst(t, ps, bounds=True), T.supst(t, ps)
            rc, rc0 = T.cowat(t, ps, bounds=True), T.cowat(t, ps)
        if g.raised is not None:
            continue
        ctx.evaluated()
        ctx.count('bounds_checked')
        ctx.count('saturation_line_states_range_checked')
        if rs is None or rs[0] is None or tuple(rs) != tuple(rs0):
            ctx.violation('bounds:supst:none-on-saturation-line', 'supst(%r, sat(%r), bounds=True) = %r, without range checking %r' % (t, t, rs, rs0), case)
        if rc is None or rc[0] is None or tuple(rc) != tuple(rc0):
            ctx.violation('bounds:cowat:none-on-saturation-line', 'cowat(%r, sat(%r), bounds=True) = %r, without range checking %r' % (t, t, rc, rc0), case)
    for t in lin(-1.0, 380.0, int(400 / spec['f'])) + [0.01 - 1e-9, 0.01 + 1e-9, TC1_C - 1e-9, TC1_C + 1e-9, -273.15, -300.0, 1e4]:
        case = {'clause': 'bounds sat', 't': t}
        with ctx.guard(case) as g:
            r = checked_in_any_order(ctx, T.sat, (t,), case, 'sat')
        if g.raised is not None:
            continue
        ctx.evaluated()
        ctx.count('bounds_checked')
        inside = 0.01 <= t <= TC1_C
        if (r is not None) != inside:
            ctx.violation('bounds:sat', 'sat(%r, bounds=True) = %r' % (t, r), case)
    plo = T.sat(0.01)
    for p in [plo * (1 - 1e-9), plo * (1 + 1e-9), PC1 * (1 - 1e-9), PC1 * (1 + 1e-9), 100.0, 1e5, 1e7, 3e7, 2.3e7, 5e7, 9e7] + \
            [ctx.rng.uniform(PC1 * 1.001, 1.0e8) for _ in range(20)] + [0.0, -1.0, -1e5]:
        case = {'clause': 'bounds tsat', 'p': p}
        with ctx.guard(case) as g:
            r = checked_in_any_order(ctx, T.tsat, (p,), case, 'tsat')
        if g.raised is not None:
            continue
        ctx.evaluated()
        ctx.count('bounds_checked')
        inside = plo <= p <= PC1
        if (r is not None) != inside:
            ctx.violation('bounds:tsat', 'tsat(%r, bounds=True) = %r' % (p, r), case)


def run_classifiers(ctx, spec):
    T, W = R.t2thermo, R.IAPWS97
    n = int(10000 / spec['f'])
    for _ in range(n):
        r = ctx.rng.random()
        if r < 0.6:
            t = ctx.rng.uniform(0.01, 349.9)
        else:
            t = ctx.rng.uniform(374.15 + 0.01, 800.0)
        p = math.exp(ctx.rng.uniform(math.log(100.0), math.log(100e6)))
        # away from the boundary curves themselves (> 0.5 % in p from sat / both B23 lines)
        if t < 350:
            if abs(p / W.sat(t) - 1) < 5e-3 or abs(p / T.sat(t) - 1) < 5e-3:
                continue
        elif t <= 590.0:
            if abs(p / b23_pressure(t + TK) - 1) < 5e-3 or abs(p / ifc_b23p(t) - 1) < 5e-3:
                continue
        if abs(t - 590.0) < 0.01:
            continue
        case = {'clause': 'classifiers', 't': t, 'p': p}
        with ctx.guard(case) as g:
            a = T.region(t, p)
            b = W.region(t, p)
        if g.raised is not None:
            continue
        ctx.evaluated()
        ctx.count('classifiers_compared')
        ctx.case(('c', t, p), True)
        ctx.see('classifier_regions', '%s/%s' % (a, b))
        if a != b:
            ctx.violation('classifiers-disagree:%s' % ('below-350' if t < 350 else 'above-critical'),
                          't2thermo.region(%r, %r) = %r, IAPWS97.region = %r' % (t, p, a, b), case)


def checked_in_any_order(ctx, f, args, case, name):
    """The range-checked answer must not depend on what was asked before: checked, unchecked (whatever that does
    outside the range, including raising), checked again.  Returns the checked answer."""
    first = f(*args, bounds=True)
    try:
        f(*args)
    except Exception:
        pass
    second = f(*args, bounds=True)
    ctx.count('checked_after_unchecked')
    # the flag given by position (the user guide's signatures: cowat(t, p, bounds), sat(t, bounds), tsat(p, bounds), ...)
    # asks for the same thing as the flag given by name
    third = f(*(tuple(args) + (True,)))
    ctx.count('range_checks_with_positional_flag')
    c3 = None if third is None else (tuple(third) if isinstance(third, (tuple, list)) else third)
    b3 = None if second is None else (tuple(second) if isinstance(second, (tuple, list)) else second)
    if c3 != b3 and not (c3 != c3 and b3 != b3):
        ctx.violation('bounds:%s:positional-flag-differs' % name, '%s%r: range checking asked for by position gives %r, by name %r' % (name, tuple(args), third, second), case)
    a = None if first is None else (tuple(first) if isinstance(first, (tuple, list)) else first)
    b = None if second is None else (tuple(second) if isinstance(second, (tuple, list)) else second)
    if a != b and not (a != a and b != b):
        ctx.violation('bounds:%s:depends-on-earlier-unchecked-call' % name,
                      '%s%r with bounds=True gave %r, and %r after the same call without range checking' % (name, tuple(args), first, second), case)
    return second


def run_ssf(ctx, spec):
    T = R.t2thermo
    n = int(200 / spec['f'])
    for i in range(n):
        p1 = ctx.rng.uniform(0.1e6, 5e6)
        two = i % 2 == 1
        # second-stage pressure below the first (the usual arrangement) or anywhere in the stated range
        p2 = (ctx.rng.uniform(0.1e6, p1) if i % 4 == 1 else ctx.rng.uniform(0.1e6, 5e6)) if two else None
        if two:
            ctx.see('two_stage_order', 'p2<p1' if p2 < p1 else 'p2>=p1')
        case = {'clause': 'separated steam fraction', 'p1': p1, 'p2': p2}
        prev = None
        bad = False
        with ctx.guard(case) as g:
            for h in lin(0.0, 3.5e6, 200):
                f = T.separated_steam_fraction(h, p1, p2) if two else T.separated_steam_fraction(h, p1)
                ctx.evaluated()
                if not (0.0 <= f <= 1.0):
                    ctx.violation('ssf:out-of-range', 'steam fraction %r at h=%r p=%r/%r' % (f, h, p1, p2), dict(case, h=h))
                    bad = True
                    break
                if prev is not None and f < prev - 1e-12:
                    ctx.violation('ssf:decreasing', 'steam fraction %r < %r at h=%r p=%r/%r' % (f, prev, h, p1, p2), dict(case, h=h))
                    bad = True
                    break
                prev = f
            # end values: subcooled liquid gives 0, superheated steam 1
            lo = T.separated_steam_fraction(1e4, p1, p2) if two else T.separated_steam_fraction(1e4, p1)
            hi = T.separated_steam_fraction(3.4e6, p1, p2) if two else T.separated_steam_fraction(3.4e6, p1)
        if g.raised is not None:
            continue
        ctx.count('ssf_ladders')
        ctx.case(('ssf', p1, p2), True)
        if not bad and (lo != 0.0 or hi != 1.0):
            ctx.violation('ssf:end-values', 'fraction %r at h=10 kJ/kg, %r at 3.4 MJ/kg (p=%r/%r)' % (lo, hi, p1, p2), case)


def run_shard(ctx, spec):
    {'cross': run_cross, 'identities': run_identities, 'bounds': run_bounds, 'classifiers': run_classifiers,
     'ssf': run_ssf}[spec['part']](ctx, spec)


def replay(ctx, case):
    c = case.get('clause', '')
    part = 'cross' if c.startswith('cross') else 'bounds' if c.startswith('bounds') else 'classifiers' if c.startswith('class') \
        else 'ssf' if c.startswith('sep') else 'identities'
    run_shard(ctx, {'part': part, 'f': 4})
