"""C13 -- initial-conditions file round trip.

Monitor shape: round-trip history + model.  model_of(t2incon) is projected through
the formats of the carrying fields; w1 = write(I), I1 = read(w1), w2 = write(I1)
must satisfy model(I1) == expected(model(I)) and w2 == w1 byte for byte.  A second,
independent oracle feeds the reader with SAVE-like files emitted by an own
Fortran-style writer (vf/oracle/fortran_writer.py).
"""
import glob
import os

from vf.core import HarnessError, REPO
from vf.oracle import fortran_writer as FW
from vf.repo import R
from vf import monitors

INFO = {
    'rule': ('cases = initial-condition sets: 0..40 blocks, 1..12 primary variables (read with num_variables), negative / zero / '
             '3-digit-exponent values where the field holds them, porosity present/absent, TOUGHREACT permeabilities '
             'present/absent (incl. zero components), nseq/nadd present/absent, timing present/absent x reset on/off, block names '
             'from all four naming conventions and the (A3,I2) quirk forms; plus Fortran-style SAVE files and the 7 shipped files. '
             'Distinct = distinct case descriptor; non-trivial = >= 2 blocks and >= 1 optional item present.'),
    'require': {
        'quick': {'counters': {'roundtrips': 300, 'byte_identity_checks': 300, 'object_unchanged_by_write_checks': 300, 'repeated_writes_same_object': 50, 'fortran_style_files': 60, 'shipped_files': 3,
                               'records_resliced_in_situ': 1000},
                  'seen': {'flavour': 2, 'timing_x_reset': 4}, 'nontrivial': 200},
        'thorough': {'counters': {'roundtrips': 25000, 'byte_identity_checks': 25000, 'object_unchanged_by_write_checks': 25000, 'repeated_writes_same_object': 1250, 'fortran_style_files': 6000, 'shipped_files': 7,
                                  'records_resliced_in_situ': 120000},
                     'seen': {'flavour': 2, 'timing_x_reset': 4}, 'nontrivial': 16000},
    },
    'watchdog_s': {'quick': 900, 'thorough': 3600},
    'assumptions': ['values are generated to fit their fields (what happens to values that do not fit is property C02)',
                    'block names are right-justified names of the four conventions or (A3,I2) forms'],
}


def plan(tier, seed):
    if tier == 'quick':
        return [{'kind': 'gen', 'n': 400} for _ in range(4)] + [{'kind': 'fortran', 'n': 300} for _ in range(2)] + [{'kind': 'shipped', 'which': 'small'}]
    return [{'kind': 'gen', 'n': 2500} for _ in range(14)] + [{'kind': 'fortran', 'n': 4000} for _ in range(2)] + \
        [{'kind': 'shipped', 'which': 'all'}]


# -- model ---------------------------------------------------------------------------------------

def model_of(inc):
    blocks = []
    for b in inc:
        perm = None if b.permeability is None else [float(x) for x in b.permeability]
        blocks.append({'name': b.block, 'variable': [None if v is None else float(v) for v in b.variable],
                       'porosity': None if b.porosity is None else float(b.porosity), 'permeability': perm,
                       'nseq': b.nseq, 'nadd': b.nadd})
    timing = None if inc.timing is None else dict(inc.timing)
    return {'simulator': inc.simulator, 'blocks': blocks, 'timing': timing}


def through(v, spec):
    if v is None:
        return None
    s = ('%' + spec) % v
    if len(s) > int(spec.split('.')[0]):
        raise HarnessError('generated value %r does not fit %s' % (v, spec))
    return float(s)


def expected_after_write(m, reset):
    """The model a correct reader returns for a correct file of model m."""
    blocks = []
    any_perm = False
    for b in m['blocks']:
        perm = None
        if m['simulator'] == 'TOUGHREACT' and b['permeability'] is not None:
            perm = [through(x, '15.9e') for x in b['permeability']]
            any_perm = True
        blocks.append({'name': b['name'], 'variable': [through(v, '20.13e') for v in b['variable']],
                       'porosity': through(b['porosity'], '15.9e'), 'permeability': perm,
                       'nseq': b['nseq'], 'nadd': b['nadd']})
    timing = None
    if m['timing'] is not None and not reset:
        t = m['timing']
        timing = {'kcyc': t['kcyc'], 'iter': t['iter'], 'nm': t['nm'], 'tstart': through(t['tstart'], '15.9e'),
                  'sumtim': through(t['sumtim'], '15.9e')}
    return {'simulator': 'TOUGHREACT' if any_perm else 'TOUGH2', 'blocks': blocks, 'timing': timing}


def diff_models(exp, got):
    out = []
    if exp['simulator'] != got['simulator']:
        out.append(('simulator-flavour', 'flavour %r, expected %r' % (got['simulator'], exp['simulator'])))
    en, gn = [b['name'] for b in exp['blocks']], [b['name'] for b in got['blocks']]
    if en != gn:
        out.append(('block-names-or-order', 'blocks %r, expected %r' % (gn[:6], en[:6])))
        return out
    for e, g in zip(exp['blocks'], got['blocks']):
        for k in ('variable', 'porosity', 'permeability', 'nseq', 'nadd'):
            if e[k] != g[k]:
                out.append(('block-%s' % k, 'block %r %s %r, expected %r' % (e['name'], k, g[k], e[k])))
                return out
    if exp['timing'] != got['timing']:
        out.append(('timing', 'timing %r, expected %r' % (got['timing'], exp['timing'])))
    return out


# -- generation -------------------------------------------------------------------------------------

def gen_names(rng, n):
    names = []
    seen = set()
    while len(names) < n:
        conv = rng.randint(0, 3)
        r = rng.random()
        if r < 0.15:
            # (A3,I2) quirk forms: third character a digit, layer below 10
            nm = '%s%s%d%02d' % (rng.choice('ABCxyz'), rng.choice('ABCxyz '), rng.randint(0, 9), rng.randint(0, 99))
            if nm[3] == '0':
                pass
        elif r < 0.22:
            # names no convention produces, read with check_blocknames=False: a digit third, a blank fourth and a LETTER
            # last (nothing for the (A3,I2) repair to do: the name is kept as it is)
            nm = '%s%s%d %s' % (rng.choice('WFQ'), rng.choice('LRx'), rng.randint(0, 9), rng.choice('Afmz'))
        elif conv == 0:
            nm = '%3s%2d' % (rng.choice([' ab', '  c', 'xyz', ' AA', 'ATM']), rng.randint(0, 99))
        elif conv == 1:
            nm = '%3s%2d' % (rng.choice([' ab', '  c', 'xyz', 'atm']), rng.randint(1, 99))
        elif conv == 2:
            nm = '%2s%3d' % (rng.choice([' a', 'bc', 'at']), rng.randint(0, 999))
        else:
            nm = '%3s%2s' % (rng.choice([' ab', '  c', 'xyz']), rng.choice([' a', 'bc', ' z']))
        nm = R.mulgrids.fix_blockname(nm) if False else nm
        if own_fix(nm) in seen:
            continue
        seen.add(own_fix(nm))
        names.append(own_fix(nm))
    return names


def own_fix(n):
    """Own statement of the quirk repair: 'ab1 5' is how (A3,I2) prints 'ab105'."""
    if n[2].isdigit() and n[3] == ' ' and n[4].isdigit():
        return n[:3] + '0' + n[4]
    return n


def gen_value(rng, kind='var'):
    r = rng.random()
    if r < 0.1:
        return 0.0
    m = rng.choice([1.0, 1.5, 9.99999999999999, 1.00000000000001, 3.141592653589793, 1 / 3.0, rng.uniform(1, 10)])
    if r < 0.3:
        e = rng.choice([-100, -120, 100, 120, -99, 99])      # 3-digit exponents: positive numbers only fit
        return float('%.17ge%d' % (m, e))
    e = rng.randint(-20, 20)
    s = -1 if (rng.random() < 0.3) else 1
    return s * float('%.17ge%d' % (m, e))


def gen_case(rng):
    nb = rng.choice([0, 1, 2, 3, 5, 8, 13, 40]) if rng.random() < 0.5 else rng.randint(2, 12)
    nv = rng.randint(1, 12)
    react = rng.random() < 0.4
    timing = rng.random() < 0.5
    reset = rng.random() < 0.5
    blocks = []
    for name in gen_names(rng, nb):
        por = None if rng.random() < 0.3 else rng.choice([0.0, 0.1, 0.25, 1.0, rng.uniform(0, 1), 1.23456789012e-5])
        perm = None
        if react and rng.random() < 0.8:
            perm = [rng.choice([0.0, 1e-15, 2.5e-13, rng.uniform(1e-16, 1e-12)]) for _ in range(3)]
        if rng.random() < 0.4:
            nseq, nadd = rng.choice([0, 1, 5, 99999, 12]), rng.choice([0, 1, 7, 99999, 3])
        else:
            nseq = nadd = None
        blocks.append({'name': name, 'variable': [gen_value(rng) for _ in range(nv)], 'porosity': por, 'permeability': perm,
                       'nseq': nseq, 'nadd': nadd})
    tm = None
    if timing:
        tm = {'kcyc': rng.choice([0, 1, 99999, 1234]), 'iter': rng.choice([0, 3, 99999]), 'nm': rng.choice([0, 1, 999, 24]),
              'tstart': rng.choice([0.0, 1.5e3, 3.15576e10]), 'sumtim': rng.choice([0.0, 8.64e4, 3.15576e12, 1.23456789e9])}
        if react:
            tm['nm'] = rng.choice([0, 1, 24])
        if rng.random() < 0.3:
            # entries without a value (blank fields of the timing record): the entry stays, holding None
            for k in rng.sample(sorted(tm), rng.randint(1, 3)):
                tm[k] = None
    # the TOUGHREACT flavour is only recognisable in a file through the permeability columns
    react = react and any(b['permeability'] is not None for b in blocks)
    return {'simulator': 'TOUGHREACT' if react else 'TOUGH2', 'blocks': blocks, 'timing': tm, 'reset': reset, 'num_variables': nv,
            'route': rng.choice(ROUTES)}


ROUTES = ['add', 'setitem', 'setters', 'insert+delete']


def build(case):
    """The set of initial conditions of the descriptor, assembled through one of the public routes (case['route']):
    add_incon() block by block; inc[name] = values, the other attributes set on the stored block afterwards; everything
    through the whole-set properties (variable / porosity / permeability arrays or uniform values) over placeholder
    blocks; blocks added in another order with a stray block, put right with insert_incon() / delete_incon()."""
    t2i = R.t2incons
    import numpy as np
    inc = t2i.t2incon()
    inc.simulator = case['simulator']
    route = case.get('route', 'add')
    blocks = case['blocks']

    def blockincon(b):
        perm = None if b['permeability'] is None else np.array(b['permeability'])
        return t2i.t2blockincon(list(b['variable']), b['name'], porosity=b['porosity'], permeability=perm, nseq=b['nseq'], nadd=b['nadd'])
    if route == 'setitem':
        for b in blocks:
            inc[b['name']] = list(b['variable'])
            bi = inc[b['name']]
            bi.porosity, bi.nseq, bi.nadd = b['porosity'], b['nseq'], b['nadd']
            bi.permeability = None if b['permeability'] is None else np.array(b['permeability'])
    elif route == 'setters' and blocks:
        nv = len(blocks[0]['variable'])
        for b in blocks:
            inc.add_incon(t2i.t2blockincon([0.0] * nv, b['name'], nseq=b['nseq'], nadd=b['nadd']))
        inc.variable = np.array([b['variable'] for b in blocks])
        pors = [b['porosity'] for b in blocks]
        if all(p is not None for p in pors):
            inc.porosity = np.array(pors)
        elif all(p is None for p in pors):
            inc.porosity = 0.5
            inc.porosity = None
        else:
            for b in blocks:
                inc[b['name']].porosity = b['porosity']
        perms = [b['permeability'] for b in blocks]
        if all(p is not None for p in perms):
            if all(p == perms[0] for p in perms) and len(blocks) != 3:
                inc.permeability = np.array(perms[0])              # one triple for every block
            else:
                inc.permeability = np.array(perms)
        elif all(p is None for p in perms):
            inc.permeability = 1.0e-15
            inc.permeability = None
        else:
            for b in blocks:
                inc[b['name']].permeability = None if b['permeability'] is None else np.array(b['permeability'])
    elif route == 'insert+delete' and len(blocks) >= 2:
        # all but the second block, a stray block in front; then the second block is inserted where it belongs and the
        # stray one deleted
        inc.add_incon(t2i.t2blockincon([1.0], 'zzz99'))
        for i, b in enumerate(blocks):
            if i != 1:
                inc.add_incon(blockincon(b))
        inc.insert_incon(2, blockincon(blocks[1]))
        inc.delete_incon('zzz99')
    else:
        for b in blocks:
            inc.add_incon(blockincon(b))
    inc.timing = None if case['timing'] is None else dict(case['timing'])
    return inc


def descriptor_model(case):
    return {'simulator': case['simulator'], 'timing': None if case['timing'] is None else dict(case['timing']),
            'blocks': [{'name': b['name'], 'variable': [None if v is None else float(v) for v in b['variable']],
                        'porosity': None if b['porosity'] is None else float(b['porosity']),
                        'permeability': None if b['permeability'] is None else [float(x) for x in b['permeability']],
                        'nseq': b['nseq'], 'nadd': b['nadd']} for b in case['blocks']]}


def needs_unchecked(case):
    """Convention-3 names end in letters: documented to need check_blocknames=False."""
    return any(not (b['name'][3] in '0123456789 ' and b['name'][4] in '0123456789') for b in case['blocks'])


def variables_per_block(path):
    """Own pre-scan of an incon file: number of value lines following the first block record."""
    n = 0
    with open(path) as f:
        f.readline()
        f.readline()
        for line in f:
            try:
                FW.value_of(line[0:20])
                if '.' not in line[0:20]:
                    break
            except ValueError:
                break
            n += len(line.rstrip('\n').rstrip()) // 20 + (1 if len(line.rstrip()) % 20 > 10 else 0)
    return n


def read_bytes(fn):
    with open(fn, 'rb') as f:
        return f.read()


def run_roundtrip(ctx, case, tag='gen'):
    t2i = R.t2incons
    fn1 = os.path.join(ctx.tmp, 'c13_a.incon')
    fn2 = os.path.join(ctx.tmp, 'c13_b.incon')
    with ctx.guard(case, where='build+write') as g:
        inc = build(case)
        m0 = model_of(inc)
        ctx.see('build_route', case.get('route', 'add'))
        ctx.count('objects_compared_with_descriptor')
        dm = descriptor_model(case)
        if m0 != dm or [b.block for b in inc] != [b['name'] for b in case['blocks']] or inc.num_blocks != len(case['blocks']) or \
                any(inc[b['name']] is not inc[i] for i, b in enumerate(case['blocks'])):
            d = diff_models(dm, m0)
            ctx.violation('object-differs-from-what-was-put-in:%s' % case.get('route', 'add'),
                          'initial conditions assembled through %r: %s' % (case.get('route', 'add'), d[0][1] if d else 'lookup by name and by index disagree'), case)
            return
        inc.write(fn1, reset=case['reset'])
        m_after = model_of(inc)
    if g.raised is not None:
        return
    ctx.count('object_unchanged_by_write_checks')
    if m_after != m0:
        d = diff_models(m0, m_after)
        ctx.violation('write-alters-object:reset=%s' % case['reset'], 'the initial conditions object differs after write(): %s' % (d[0][1] if d else 'model differs'), case)
        return
    if case['timing'] is not None:
        # the same object written again with the other reset value: one call must not leak into the next
        fn3 = os.path.join(ctx.tmp, 'c13_c.incon')
        with ctx.guard(case, where='second-write-other-reset') as g:
            inc.write(fn3, reset=not case['reset'])
            inc.write(fn3, reset=case['reset'])
        if g.raised is None:
            ctx.count('repeated_writes_same_object')
            if read_bytes(fn3) != read_bytes(fn1):
                ctx.violation('repeated-write-differs:reset=%s' % case['reset'], 'writing the same object again (after a write with reset=%s in between) gives a different file' % (not case['reset']), case)
                return
    exp = expected_after_write(m0, case['reset'])
    nv = case['num_variables']
    # what a simulator reads from the first line of a restart file: element count and time
    with open(fn1) as f:
        header = f.readline().rstrip('\n')
    if case['timing'] is not None and not case['reset']:
        ctx.count('long_headers_checked')
        try:
            nele, htime = int(header[31:36]), float(header[55:67])
        except ValueError:
            nele = htime = None
        st = case['timing']['sumtim']
        if st is None:
            # no time to announce: the field is blank
            try:
                nele = int(header[31:36])
            except ValueError:
                nele = None
            htime, st = (0.0, 0.0) if not header[55:67].strip() else (None, None)
            ctx.count('long_headers_without_time')
        if not header.startswith('INCON') or nele != len(case['blocks']) or htime is None or abs(htime - st) > 1e-6 * abs(st):
            ctx.violation('file-header', 'restart header %r does not announce %d elements at time %r' % (header, len(case['blocks']), st), case)
            return
    elif header.strip() != 'INCON':
        ctx.violation('file-header', 'header %r, expected INCON' % header, case)
        return
    with ctx.guard(case, where='read') as g:
        inc1 = t2i.t2incon(fn1, num_variables=nv if nv > 4 or case.get('force_nv') else None,
                           check_blocknames=not needs_unchecked(case))
    if g.raised is not None:
        return
    ctx.evaluated()
    ctx.count('roundtrips')
    ctx.see('flavour', exp['simulator'])
    ctx.see('timing_x_reset', 'timing=%s reset=%s' % (case['timing'] is not None, case['reset']))
    ctx.see('variable_lines', str((nv + 3) // 4))
    for kind, text in diff_models(exp, model_of(inc1)):
        ctx.violation('reread:%s' % kind, text, case)
        return
    # the same file read into an object that already holds other initial conditions (other
    # blocks, some of the same names in another order, its own timing): what was there before is gone
    with ctx.guard(case, where='read-into-used-object') as g:
        used = t2i.t2incon()
        mine = [b['name'] for b in exp['blocks']]
        for nm in (['ZZZ99'] + mine[::-1][:3] + ['ZZY 1']):
            used[nm] = t2i.t2blockincon([9.9e9, 77.0], nm, porosity=0.99, permeability=[1.e-15, 2.e-15, 3.e-15])
        used.timing = {'kcyc': 7, 'iter': 7, 'nm': 7, 'tstart': 7.0, 'sumtim': 7.0}
        used.read(fn1, num_variables=nv if nv > 4 or case.get('force_nv') else None, check_blocknames=not needs_unchecked(case))
    if g.raised is None:
        ctx.count('reads_into_used_objects')
        mu, m1 = model_of(used), model_of(inc1)
        if any(b['permeability'] is not None for b in m1['blocks']) or m1['simulator'] == 'TOUGHREACT':
            pass
        else:
            # (a reader that keeps the TOUGHREACT flavour of the object it reads into is left alone: the flavour of a
            # file without permeability columns is not recognisable from the file)
            mu = dict(mu, simulator=m1['simulator'])
        for kind, text in diff_models(m1, mu):
            ctx.violation('read-into-used-object:%s' % kind, 'compared with a fresh object reading the same file: ' + text, case)
            return
    with ctx.guard(case, where='rewrite') as g:
        inc1.write(fn2, reset=case['reset'])
    if g.raised is not None:
        return
    ctx.count('byte_identity_checks')
    b1, b2 = read_bytes(fn1), read_bytes(fn2)
    if b1 != b2:
        l1, l2 = b1.split(b'\n'), b2.split(b'\n')
        k = next((i for i, (x, y) in enumerate(zip(l1, l2)) if x != y), min(len(l1), len(l2)))
        ctx.violation('rewrite-not-byte-identical', 'second file differs at line %d: %r vs %r' % (
            k + 1, l1[k] if k < len(l1) else None, l2[k] if k < len(l2) else None), case)
        return
    # second read equals the first
    with ctx.guard(case, where='reread2') as g:
        inc2 = t2i.t2incon(fn2, num_variables=nv if nv > 4 else None, check_blocknames=not needs_unchecked(case))
    if g.raised is None and model_of(inc2) != model_of(inc1):
        ctx.violation('second-read-differs', 'reading the second file gives a different object', case)


def run_gen(ctx, spec):
    mon = monitors.RecordMonitor(R.fixed_format_file, lambda key, what, c: ctx.violation('record:' + key, what, c, prop='C02'))
    for i in range(spec['n']):
        case = gen_case(ctx.rng)
        run_roundtrip(ctx, case)
        nontriv = len(case['blocks']) >= 2 and (case['timing'] is not None or any(
            b['porosity'] is not None or b['permeability'] is not None or b['nseq'] is not None for b in case['blocks']))
        ctx.case(repr(case), nontrivial=nontriv)
        if i < 2:
            ctx.samples.append({'blocks': len(case['blocks']), 'num_variables': case['num_variables'], 'simulator': case['simulator'],
                                'timing': case['timing'], 'reset': case['reset'],
                                'first_block': case['blocks'][0] if case['blocks'] else None})
    ctx.count('records_resliced_in_situ', mon.records)


# -- independent Fortran-style SAVE files --------------------------------------------------------------

def emit_save(case, style):
    """Text of a SAVE / INCON file as a simulator would write it."""
    react = case['simulator'] == 'TOUGHREACT'
    lines = []
    if case['timing'] is not None:
        lines.append('INCON -- INITIAL CONDITIONS FOR%5d ELEMENTS AT TIME %s' % (len(case['blocks']), FW.fE(case['timing']['sumtim'], 13, 6)))
    else:
        lines.append('INCON')
    for b in case['blocks']:
        l = FW.block_name(b['name']) + FW.fI(b['nseq'], 5) + FW.fI(b['nadd'], 5) + FW.fE(b['porosity'], 15, 8, style)
        if react and b['permeability'] is not None:
            l += ''.join(FW.fE(x, 15, 8, style) for x in b['permeability'])
        lines.append(l)
        vs = b['variable']
        for i in range(0, len(vs), 4):
            lines.append(''.join(FW.fE(v, 20, 13, style) for v in vs[i:i + 4]))
    if case['timing'] is not None:
        t = case['timing']
        lines.append('+++')
        if react:
            lines.append(FW.fI(t['kcyc'], 6) + FW.fI(t['iter'], 6) + FW.fI(t['nm'], 3) + FW.fE(t['tstart'], 15, 8, style) + FW.fE(t['sumtim'], 15, 8, style))
        else:
            lines.append(FW.fI(t['kcyc'], 5) + FW.fI(t['iter'], 5) + FW.fI(t['nm'], 5) + FW.fE(t['tstart'], 15, 8, style) + FW.fE(t['sumtim'], 15, 8, style))
    else:
        lines.append('')
    return '\n'.join(lines) + '\n'


def expected_from_text(case, style):
    """What the emitted text means, field by field (read back with own Fortran reader)."""
    react = case['simulator'] == 'TOUGHREACT'
    blocks = []
    anyperm = False
    for b in case['blocks']:
        perm = None
        if react and b['permeability'] is not None:
            perm = [FW.value_of(FW.fE(x, 15, 8, style)) for x in b['permeability']]
            anyperm = True
        blocks.append({'name': own_fix(FW.block_name(b['name'])), 'variable': [FW.value_of(FW.fE(v, 20, 13, style)) for v in b['variable']],
                       'porosity': None if b['porosity'] is None else FW.value_of(FW.fE(b['porosity'], 15, 8, style)),
                       'permeability': perm, 'nseq': b['nseq'], 'nadd': b['nadd']})
    timing = None
    if case['timing'] is not None:
        t = case['timing']
        timing = {'kcyc': t['kcyc'], 'iter': t['iter'], 'nm': t['nm'], 'tstart': FW.value_of(FW.fE(t['tstart'], 15, 8, style)),
                  'sumtim': FW.value_of(FW.fE(t['sumtim'], 15, 8, style))}
    return {'simulator': 'TOUGHREACT' if anyperm else 'TOUGH2', 'blocks': blocks, 'timing': timing}


def run_fortran(ctx, spec):
    t2i = R.t2incons
    for i in range(spec['n']):
        case = gen_case(ctx.rng)
        style = ctx.rng.choice(['E', 'E', '1P'])
        case['style'] = style
        # Fortran output always prints nseq/nadd as blanks or numbers; zero prints as 0
        text = emit_save(case, style)
        if None in text.split('\n') or 'None' in text:
            continue
        fn = os.path.join(ctx.tmp, 'c13_f.save')
        with open(fn, 'w') as f:
            f.write(text)
        nv = case['num_variables']
        with ctx.guard(case, where='read-fortran-style') as g:
            inc = t2i.t2incon(fn, num_variables=nv if nv > 4 else None, check_blocknames=not needs_unchecked(case))
        if g.raised is not None:
            continue
        ctx.evaluated()
        ctx.count('fortran_style_files')
        ctx.case(('fortran', repr(case)), nontrivial=len(case['blocks']) >= 2)
        for kind, what in diff_models(expected_from_text(case, style), model_of(inc)):
            ctx.violation('fortran-style:%s' % kind, what + ' (file as a simulator writes it, %s style)' % style, case)
            break


# -- shipped files ----------------------------------------------------------------------------------------

def run_shipped(ctx, spec):
    t2i = R.t2incons
    files = sorted(f for f in glob.glob(os.path.join(REPO, 'tests', 'incon', '*', '*', '*')) if not f.endswith('.npy'))
    if spec['which'] == 'small':
        files = [f for f in files if os.path.getsize(f) < 200000]
    mon = monitors.RecordMonitor(R.fixed_format_file, lambda key, what, c: ctx.violation('record:' + key, what, c, prop='C02'))
    for f in files:
        case = {'file': os.path.relpath(f, REPO)}
        nv = 12 if 'TOUGHREACT' in f else None
        with ctx.guard(case, where='shipped') as g:
            nvar = variables_per_block(f)
            a = t2i.t2incon(f, num_variables=nvar if nvar > 4 else None)
            if a.num_variables != nvar:
                ctx.violation('shipped:variable-count', '%s: %d variables per block in the file, reader gives %d' % (case['file'], nvar, a.num_variables), case)
            fn1, fn2 = os.path.join(ctx.tmp, 's1'), os.path.join(ctx.tmp, 's2')
            for reset in (True, False):
                a.write(fn1, reset=reset)
                b = t2i.t2incon(fn1, num_variables=nvar if nvar > 4 else None)
                b.write(fn2, reset=reset)
                ctx.evaluated()
                ctx.count('byte_identity_checks')
                if read_bytes(fn1) != read_bytes(fn2):
                    ctx.violation('shipped:rewrite-not-byte-identical', '%s reset=%s' % (case['file'], reset), case)
                ma, mb = model_of(a), model_of(b)
                if reset:
                    ma = dict(ma, timing=None)
                exp = expected_after_write(ma, reset) if a.simulator == 'TOUGHREACT' or True else ma
                for kind, what in diff_models(exp, mb):
                    ctx.violation('shipped:reread:%s' % kind, '%s: %s' % (case['file'], what), case)
                    break
        if g.raised is None:
            ctx.count('shipped_files')
            ctx.case(('shipped', case['file']), nontrivial=True, sample=True)
    ctx.count('records_resliced_in_situ', mon.records)


def run_shard(ctx, spec):
    {'gen': run_gen, 'fortran': run_fortran, 'shipped': run_shipped}[spec['kind']](ctx, spec)


def replay(ctx, case):
    if 'file' in case:
        run_shipped(ctx, {'which': 'all'})
    elif 'style' in case:
        ctx.rng.seed(0)
        t2i = R.t2incons
        fn = os.path.join(ctx.tmp, 'c13_f.save')
        with open(fn, 'w') as f:
            f.write(emit_save(case, case['style']))
        nv = case['num_variables']
        inc = t2i.t2incon(fn, num_variables=nv if nv > 4 else None)
        ctx.evaluated()
        for kind, what in diff_models(expected_from_text(case, case['style']), model_of(inc)):
            ctx.violation('fortran-style:%s' % kind, what, case)
    else:
        run_roundtrip(ctx, case)
