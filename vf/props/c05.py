"""C05 -- listing tables hold exactly the numbers printed in the listing file.

Monitor shape: reference model.  vf/oracle/listing_ref.py tokenizes the raw text of a
listing on its own (result sets, tables, rows, keys, indices, numeric cells with their
character spans); the reader's tables are compared with it cell by cell at every result
time, through every way of addressing a cell.  Value-perturbed copies of each file are
written by overwriting the character span of printed numbers with other numbers of the
same width and printed form, so the expected value of every cell is known by
construction (the tokenizer is only used to find the spans, and re-tokenizing the copy
must give the constructed values back, which checks the oracle itself).  Every subset of
skipped tables is opened and compared both with the text and with the unskipped reader.
"""
import itertools
import os
import re

import numpy as np

from vf.core import HarnessError, REPO
from vf.oracle import listing_ref as LR
from vf.props.c07 import listing_files
from vf.repo import R

INFO = {
    'rule': ('cases = (listing file, variant, set of skipped tables): variant = the shipped file as it is, or a copy in which the character '
             'span of printed numbers is overwritten by another number of the same width and form (new digits / negative: sign over an '
             'existing sign, over the leading 0 or in the blank in front / zero / three-digit exponent without the letter / three-digit '
             'exponent with the letter / random mix of these over a random half of the cells); every subset of the tables the reader '
             'exposes is skipped for the shipped file (and the single-table subsets for the variants); every result time, table, row and '
             'cell is compared.  Distinct = distinct (file, variant, skipped set); non-trivial = variant other than the shipped file, or a '
             'non-empty skipped set.'),
    'require': {
        'quick': {'counters': {'cells_compared': 1500000, 'rows_compared': 200000, 'tables_compared': 3000, 'result_sets': 600,
                               'addressing_checks': 100000, 'skip_subsets': 300, 'variants': 150, 'files': 37,
                               'oracle_selfcheck_cells': 300000, 'touching_cells': 2000, 'route_landings': 500},
                  'seen': {'simulators': 6, 'variant_kind': 7, 'variant_cell': 14}, 'nontrivial': 300},
        'thorough': {'counters': {'cells_compared': 12000000, 'rows_compared': 1500000, 'tables_compared': 20000, 'result_sets': 4000,
                                  'addressing_checks': 700000, 'skip_subsets': 900, 'variants': 700, 'files': 37,
                                  'oracle_selfcheck_cells': 3000000, 'touching_cells': 20000, 'route_landings': 500},
                     'seen': {'simulators': 6, 'variant_kind': 7, 'variant_cell': 14}, 'nontrivial': 1200},
    },
    'watchdog_s': {'quick': 1500, 'thorough': 7200},
    'assumptions': ['the k-th number printed in a row belongs to the k-th column (no shipped table prints a blank cell between two numbers); '
                    'cells not printed at the end of a row are zero',
                    'TOUGH2-MP prints border blocks once per process: there the reader is expected to hold one row per distinct printed '
                    'index, in index order, equal to one of the printed occurrences; for every other simulator one row per printed row, '
                    'in printed order',
                    'a table name the reader exposes is matched to the text by kind and order (element, element1, element2, primary, '
                    'connection, generation)',
                    'perturbed numbers keep the character span of the original (plus, for one variant kind, the blank in front of it) '
                    'so that any reader working from columns or from tokens can read them',
                    'no \'+\' signs are generated (Fortran prints none without the SP descriptor) and a three-digit exponent that keeps its '
                    'letter is only generated where the field does not touch the next one (an Ew.d field drops the letter instead); both '
                    'were generated at first and removed as unrealistic, see DESIGN.md'],
}


def plan(tier, seed):
    files = [os.path.relpath(f, REPO) for f in listing_files()]
    n = 12 if tier == 'quick' else 16
    # big files first, round robin
    files.sort(key=lambda f: -os.path.getsize(os.path.join(REPO, f)))
    return [{'files': files[i::n]} for i in range(n)]


# ---------------------------------------------------------------- perturbation

E_FORM = re.compile(r'^([-+]?)(\d?)\.(\d+)([EeDd]?)([-+])(\d{2,3})$')
F_FORM = re.compile(r'^([-+]?)(\d*)\.(\d*)$')

KINDS = ['digits', 'negative', 'zero', 'exp3-no-letter', 'exp3-letter', 'wider-fixed', 'mix']


def rdigits(rng, n, first_nonzero=True):
    if n <= 0:
        return ''
    s = ''.join(rng.choice('0123456789') for _ in range(n))
    if first_nonzero and s[0] == '0':
        s = rng.choice('123456789') + s[1:]
    return s


def perturb_cell(rng, text, kind, blank_before, always_grow=False):
    """Returns (new text, grow) with len(new) == len(text) + grow, grow in (0, 1): grow == 1
    means the new text also overwrites the blank in front of the old one.  None: this kind does
    not apply to this cell."""
    m = E_FORM.match(text)
    if m:
        sign, lead, frac, letter, esign, edig = m.groups()
        nf = len(frac)
        if lead == '' or lead == '0':
            nlead, nfrac = lead, rdigits(rng, nf)
        else:
            nlead, nfrac = rng.choice('123456789'), rdigits(rng, nf, False)
        nexp = (esign if rng.random() < 0.5 else rng.choice('+-')) + (rdigits(rng, len(edig), False) if len(edig) == 2 else edig)
        if len(edig) == 2 and nexp[1:] > '37':
            nexp = nexp[0] + rng.choice('0123') + nexp[2]
        if kind == 'digits':
            return sign + nlead + '.' + nfrac + letter + nexp, 0
        if kind == 'negative':
            if sign:
                return '-' + nlead + '.' + nfrac + letter + nexp, 0
            if blank_before and (always_grow or rng.random() < 0.7):
                return '-' + nlead + '.' + nfrac + letter + nexp, 1
            if lead == '0':
                return '-.' + nfrac + letter + nexp, 0
            if blank_before:
                return '-' + nlead + '.' + nfrac + letter + nexp, 1
            return None
        if kind == 'zero':
            w = len(sign) + len(lead)
            return ('0'.rjust(w) if w else '') + '.' + '0' * nf + letter + '+' + '0' * len(edig), 0
        if kind == 'exp3-no-letter':
            if letter and len(edig) == 2:
                return sign + nlead + '.' + nfrac + rng.choice('+-') + rng.choice('12') + rdigits(rng, 2, False), 0
            return None
        if kind == 'exp3-letter':
            if letter and len(edig) == 2 and nf >= 2:
                return sign + nlead + '.' + nfrac[:-1] + letter + rng.choice('+-') + rng.choice('12') + rdigits(rng, 2, False), 0
            return None
        raise HarnessError(kind)
    m = F_FORM.match(text)
    if m:
        sign, ip, fp = m.groups()
        nip = rdigits(rng, len(ip)) if ip not in ('', '0') else ip
        nfp = rdigits(rng, len(fp), False)
        if kind == 'digits':
            return sign + nip + '.' + nfp, 0
        if kind == 'negative':
            if sign:
                return '-' + nip + '.' + nfp, 0
            if blank_before:
                return '-' + nip + '.' + nfp, 1
            if ip == '0' and fp:
                return '-.' + nfp, 0
            return None
        if kind == 'zero':
            z = ('0' * len(ip)) + '.' + '0' * len(fp)
            return (' ' if sign else '') + z, 0
        return None
    return None


def cell_form(text):
    m = E_FORM.match(text)
    if m:
        sign, lead, frac, letter, esign, edig = m.groups()
        return '%s%s.d%s%s' % ('s' if sign else '', {'': '', '0': '0'}.get(lead, 'd'), letter.upper() or '', 'xxx' if len(edig) == 3 else 'xx')
    if F_FORM.match(text):
        return 'F'
    return 'other'


def make_variant(ctx, rng, lines, ref, kind, fraction):
    """Overwrites printed numbers in `lines` (list of str, modified in place).  Returns the
    expected results: same structure as ref with the cell values replaced."""
    nchanged = 0
    for res in ref:
        for t in res['tables']:
            for r in t.rows:
                keys, index, cells, ln = r
                line = lines[ln]
                for ci in range(len(cells) - 1, -1, -1):          # right to left: spans to the left stay valid
                    v, a, b = cells[ci]
                    if t.has_I and ci == 0:
                        continue
                    if fraction < 1.0 and rng.random() > fraction:
                        continue
                    k = kind if kind != 'mix' else rng.choice(KINDS[:5])
                    text = line[a:b]
                    blank_before = a > t.layout[1] and line[a - 1] == ' '
                    # the blank in front must not be the only thing separating this number from the row index
                    if a - 1 < (t.layout[2] if t.has_I else t.layout[1]):
                        blank_before = False
                    if k == 'wider-fixed':
                        # a fixed-point number two or three characters wider than it is printed now, grown into the blanks on its
                        # left (Fortran right-justifies: a pressure of 1.0e7 Pa under one of 1.0e5 Pa in an F12.2 column).  The first
                        # row of each table keeps its width, so that rows below it are wider than the row the reader sees first
                        m = F_FORM.match(text)
                        lo = t.layout[2] if t.has_I else t.layout[1]
                        j = a
                        while j - 1 >= lo and line[j - 1] == ' ':
                            j -= 1
                        avail = (a - j) - 1
                        if not m or r is t.rows[0] or avail < 2 or not m.group(2):
                            continue
                        grow = min(avail, rng.randint(2, 3))
                        sign, ip, fp = m.groups()
                        new = sign + rng.choice('123456789') + rdigits(rng, grow - 1, False) + ip + '.' + fp
                        line = line[:a - grow] + new + line[b:]
                        cells[ci] = (LR.fnum(new), a - grow, b)
                        nchanged += 1
                        ctx.see('variant_cell', '%s:%s' % (k, cell_form(text)))
                        continue
                    if k == 'exp3-letter' and line[b:b + 1].strip():
                        # a three-digit exponent WITH the letter in a field that touches the next one is not
                        # something a Fortran Ew.d column prints (it drops the letter instead): not generated
                        ctx.count('exp3_letter_not_generated_touching')
                        continue
                    out = perturb_cell(rng, text, k, blank_before, always_grow=(fraction >= 1.0))
                    if out is None:
                        continue
                    new, grow = out
                    if len(new) != (b - a) + grow:
                        raise HarnessError('perturbation changed the width: %r -> %r' % (text, new))
                    a2 = a - grow
                    line = line[:a2] + new + line[b:]
                    cells[ci] = (LR.fnum(new.strip()), a2 + (len(new) - len(new.lstrip())), b)
                    nchanged += 1
                    ctx.see('variant_cell', '%s:%s' % (k, cell_form(text)))
                lines[ln] = line
    return nchanged


# ---------------------------------------------------------------- expectation from the text

def merged_tables(res):
    """Tables of one result set by name (a table printed in pieces under repeated headers is one table)."""
    out = {}
    order = []
    for t in res['tables']:
        if t.name in out:
            if out[t.name].header == t.header:
                out[t.name].rows = out[t.name].rows + t.rows
            continue
        c = LR.Table(t.name, t.header, t.nkeys, t.has_I)
        c.layout = t.layout
        c.header_line = t.header_line
        c.rows = list(t.rows)
        out[t.name] = c
        order.append(t.name)
    return out, order


def expected_rows(t, simulator):
    """[(key, [acceptable cell value lists])] in the order the reader is expected to hold them."""
    def key_of(r):
        return r[0][0] if len(r[0]) == 1 else tuple(r[0])
    if simulator == 'TOUGH2_MP':
        by = {}
        for r in t.rows:
            if r[1] is None:
                raise HarnessError('TOUGH2-MP row without a readable index')
            by.setdefault(r[1], []).append(r)
        return [(key_of(by[i][0]), [[c[0] for c in r[2]] for r in by[i]], [key_of(r) for r in by[i]]) for i in sorted(by)]
    return [(key_of(r), [[c[0] for c in r[2]]], [key_of(r)]) for r in t.rows]


def same_number(a, b):
    return a == b or (a != a and b != b)


class Compare(object):
    def __init__(self, ctx, label, simulator, case):
        self.ctx, self.label, self.sim, self.case = ctx, label, simulator, case
        self.bad = 0

    def violation(self, key, what):
        self.bad += 1
        if self.bad <= 6:
            self.ctx.violation(key, '%s: %s' % (self.label, what), self.case)

    def table(self, i, name, tab, t, vk):
        ctx = self.ctx
        exp = expected_rows(t, self.sim)
        ctx.count('tables_compared')
        if tab.num_rows != len(exp):
            self.violation('row-count:%s:%s:%s' % (self.sim, name, vk), 'result %d table %s holds %d rows, %d are printed' % (i, name, tab.num_rows, len(exp)))
            return
        if tab._data.shape != (tab.num_rows, tab.num_columns):
            self.violation('table-shape:%s:%s' % (self.sim, name), 'result %d table %s data shape %r for %d rows x %d columns' % (i, name, tab._data.shape, tab.num_rows, tab.num_columns))
            return
        ncol = tab.num_columns
        data = tab._data
        names = tab.row_name
        seen_names = {}
        for ri, (key, alts, keyalts) in enumerate(exp):
            ctx.count('rows_compared')
            if names[ri] != key and names[ri] not in keyalts:
                self.violation('row-key:%s:%s:%s' % (self.sim, name, vk), 'result %d table %s row %d is keyed %r, printed %r' % (i, name, ri, names[ri], key))
                return
            row = data[ri]
            ok = False
            for cells in alts:
                if len(cells) > ncol:
                    continue
                full = cells + [0.0] * (ncol - len(cells))
                if all(same_number(float(row[k]), full[k]) for k in range(ncol)):
                    ok = True
                    break
            ctx.count('cells_compared', ncol)
            if not ok:
                cells = alts[0]
                if len(cells) > ncol:
                    self.violation('columns-missing:%s:%s:%s' % (self.sim, name, vk), 'result %d table %s row %r prints %d numbers, the table has %d columns' % (i, name, key, len(cells), ncol))
                    return
                full = cells + [0.0] * (ncol - len(cells))
                k = [k for k in range(ncol) if not same_number(float(row[k]), full[k])][0]
                blank = 'blank-cell' if k >= len(cells) else 'cell'
                self.violation('%s-differs:%s:%s:%s' % (blank, self.sim, name, vk),
                               'result %d table %s row %r column %d (%s): reader holds %r, printed %r' % (
                                   i, name, key, k, tab.column_name[k], float(row[k]), full[k]))
                return
            seen_names.setdefault(names[ri], []).append(ri)
        # addressing: by row index, by row name, by column name
        cols = tab.column_name
        last_col = dict((c, k) for k, c in enumerate(cols))
        picks = sorted(set([0, tab.num_rows - 1, tab.num_rows // 2] + [ctx.rng.randrange(tab.num_rows) for _ in range(6)])) if tab.num_rows else []
        for ri in picks:
            byidx = tab[ri]
            byname = tab[names[ri]]
            occ = seen_names[names[ri]]
            if byidx is None or byname is None or not isinstance(byidx, dict) or not isinstance(byname, dict):
                self.violation('addressing:row-not-found:%s:%s' % (self.sim, name), 'result %d table %s: row %d / %r not found (%r, %r)' % (i, name, ri, names[ri], type(byidx), type(byname)))
                return
            if byidx.get('key') != names[ri]:
                self.violation('addressing:key-field:%s:%s' % (self.sim, name), 'result %d table %s: table[%d]["key"] is %r, row name %r' % (i, name, ri, byidx.get('key'), names[ri]))
                return
            for c, k in last_col.items():
                ctx.count('addressing_checks')
                want = float(data[ri][k])
                a = float(byidx[c])
                col = tab[c]
                b = float(col[ri])
                nm = [float(data[o][k]) for o in occ]
                d = float(byname[c])
                if not (same_number(a, want) and same_number(b, want) and any(same_number(d, x) for x in nm)):
                    self.violation('addressing:disagree:%s:%s' % (self.sim, name),
                                   'result %d table %s row %r column %r: by index %r, by column %r, by name %r, stored %r' % (i, name, names[ri], c, a, b, d, want))
                    return
        # connection rows asked for with their two block names the other way round (user guide: same row, opposite sign);
        # asking must not change what the table holds (the rows are looked at again afterwards)
        if tab.num_rows and isinstance(names[0], tuple) and len(names[0]) == 2 and getattr(tab, 'allow_reverse_keys', False):
            rowset = set(names)
            snap = np.array(data, copy=True)          # what the table held when it was compared with the text
            for ri in picks:
                rev = tuple(names[ri][::-1])
                if rev in rowset or len(seen_names[names[ri]]) > 1:
                    continue
                ctx.count('reversed_name_lookups')
                for attempt in (1, 2):
                    r = tab[rev]
                    if not isinstance(r, dict) or r.get('key') != rev:
                        self.violation('addressing:reversed-names:%s:%s' % (self.sim, name), 'result %d table %s: table[%r] gives %r' % (i, name, rev, type(r) if not isinstance(r, dict) else r.get('key')))
                        return
                    for c, k in last_col.items():
                        want = -float(snap[ri][k])
                        if not same_number(float(r[c]), want) and not (want == 0.0 and float(r[c]) == 0.0):
                            self.violation('addressing:reversed-names:%s:%s' % (self.sim, name), 'result %d table %s row %r asked for as %r (%s time): column %r gives %r, the file prints %r for the row as listed' % (
                                i, name, names[ri], rev, 'first' if attempt == 1 else 'second', c, float(r[c]), -want))
                            return
                back = tab[ri]
                for c, k in last_col.items():
                    if not same_number(float(back[c]), float(exp_row_value(exp, ri, k, float(snap[ri][k])))):
                        self.violation('addressing:table-changed-by-reversed-lookup:%s:%s' % (self.sim, name), 'result %d table %s row %r column %r holds %r after being asked for under reversed names' % (
                            i, name, names[ri], c, float(back[c])))
                        return
        if len(occ_dupes(seen_names)):
            ctx.count('duplicate_row_names', len(occ_dupes(seen_names)))


def exp_row_value(exp, ri, k, held_before):
    """The value the table held for (row, column) when it was compared with the printed text (that comparison passed)."""
    return held_before


def occ_dupes(seen):
    return [k for k, v in seen.items() if len(v) > 1]


def header_columns(t):
    toks = t.header
    k = t.nkeys
    return ' '.join(toks[k + 1:])


def heading_conflicts(t, reader_names):
    """Where the reader's grouping of the header words into column names contradicts the printed page.  Two neighbouring
    words of the header line (after the index column) MUST be different columns when they are two or more blanks apart
    or stand over different value fields of the table's fullest row; they MUST be one heading when they are exactly one
    blank apart and stand over the same value field ('GENERATION RATE', 'Heat Flow').  Anything else (words over
    columns no row prints) is left undecided.  Returns None when the words themselves differ (judged elsewhere)."""
    line = t.header_line
    if line is None or not t.rows:
        return None
    m = re.search(r'(INDEX|IND\.)(?=\s|$)', line)
    if not m:
        return None
    words = [(w.group(), w.start(), w.end()) for w in re.finditer(r'\S+', line) if w.start() >= m.end()]
    groups = [c.split() for c in reader_names]
    if [w for g in groups for w in g] != [w[0] for w in words]:
        return None
    row = max(t.rows, key=lambda r: len(r[2]))
    ends = [c[2] for c in row[2]]
    los = [m.end()] + ends[:-1]

    def field(w):
        c = (w[1] + w[2]) / 2.0
        return next((k for k in range(len(ends)) if los[k] < c <= ends[k]), None)
    joined = []
    for g in groups:
        joined += [True] * (len(g) - 1) + [False]
    out = []
    for k in range(len(words) - 1):
        w1, w2 = words[k], words[k + 1]
        gap = w2[1] - w1[2]
        f1, f2 = field(w1), field(w2)
        if gap >= 2 or (f1 is not None and f2 is not None and f1 != f2):
            if joined[k]:
                out.append('%r and %r are one column name for the reader, but stand %d blanks apart over value fields %r and %r' % (w1[0], w2[0], gap, f1, f2))
        elif gap == 1 and f1 is not None and f1 == f2:
            if not joined[k]:
                out.append('%r and %r are two columns for the reader, but are one heading over value field %r' % (w1[0], w2[0], f1))
    return out


def check_listing(ctx, path, label, ref, vk, skip, case, base=None, indices=None, routes=False):
    """Opens path with the given skipped tables; compares every exposed table at every result time with ref.
    base: {index: {table: (row names, data)}} from the unskipped reader (differential part).  Returns that dict."""
    T = R.t2listing
    out = {}
    with ctx.guard(case, where='open') as g:
        lst = T.t2listing(path, skip_tables=list(skip)) if skip else T.t2listing(path)
    if g.raised is not None:
        return None
    try:
        sim = lst.simulator
        ctx.see('simulators', sim)
        cmp_ = Compare(ctx, label, sim, case)
        if lst.num_fulltimes != len(ref):
            cmp_.violation('result-count:%s' % sim, 'reader finds %d result sets, %d are printed' % (lst.num_fulltimes, len(ref)))
            return None
        todo = range(len(ref)) if indices is None else indices
        for i in todo:
            with ctx.guard(case, where='index') as g:
                lst.index = i
            if g.raised is not None:
                return None
            ctx.count('result_sets')
            mine, order = merged_tables(ref[i])
            exposed = list(lst._tablenames)
            held = [n for n in exposed if n in lst._table]
            for n in skip:
                if n in lst._table and base is not None and n in base.get(i, {}):
                    pass        # a skipped table may stay exposed with stale contents or vanish: the statement is about the others
            snap = {}
            for name in held:
                if name in skip:
                    continue
                tab = lst._table[name]
                if name not in mine:
                    cmp_.violation('table-not-printed:%s:%s' % (sim, name), 'result %d: the reader exposes a table %r; tables found in the text: %r' % (i, name, order))
                    continue
                t = mine[name]
                cmp_.table(i, name, tab, t, vk)
                # tables are also values one computes with (differences between runs, sums): an operand is still the
                # table of the file afterwards
                if i in (0, 1) and not skip and tab.num_rows:
                    with ctx.guard(case, where='table-arithmetic') as ga:
                        d = tab - tab
                        s2 = tab + tab
                        ctx.count('table_arithmetic_checks')
                        del d, s2          # (what the results hold is not this property's matter: tables may hold NaN)
                    if ga.raised is None:
                        bad0 = cmp_.bad
                        cmp_.table(i, name, tab, t, vk)
                        if cmp_.bad > bad0:
                            cmp_.violation('table-changed-by-arithmetic:%s:%s' % (sim, name), 'result %d table %s no longer holds the printed numbers after being an operand of - and +' % (i, name))
                # column names against the header line
                if i == 0 and not skip:
                    hc = header_columns(t)
                    got = ' '.join(' '.join(tab.column_name).split())
                    ctx.count('headers_compared')
                    if sim != 'AUTOUGH2':
                        conflicts = heading_conflicts(t, tab.column_name)
                        if conflicts is not None:
                            ctx.count('header_groupings_judged')
                            if conflicts:
                                cmp_.violation('column-headings-grouped-differently:%s:%s' % (sim, name),
                                               'table %s, header line %r, reader columns %r: %s' % (name, t.header_line.strip(), list(tab.column_name), '; '.join(conflicts)))
                    if got != hc:
                        cmp_.violation('column-names-differ-from-header:%s:%s' % (sim, name),
                                       'table %s: column names %r, header line after the index column %r' % (name, got[:120], hc[:120]))
                attr = getattr(lst, name, None)
                if attr is not tab:
                    cmp_.violation('attribute-not-table:%s:%s' % (sim, name), 'result %d: listing.%s is not the table held under that name' % (i, name))
                snap[name] = (list(tab.row_name), tab._data.copy(), list(tab.column_name))
            if not skip:
                for name in order:
                    if name not in held:
                        ctx.see('printed_table_not_exposed', '%s:%s' % (sim, name))
            out[i] = snap
            if base is not None:
                want = [n for n in base[i] if n not in skip]
                missing = [n for n in want if n not in snap]
                if missing:
                    cmp_.violation('skip-loses-table:%s:skip=%s:lost=%s' % (sim, '+'.join(sorted(skip)), '+'.join(missing)),
                                   'result %d: skipping %r makes table(s) %r disappear' % (i, sorted(skip), missing))
                for n in want:
                    if n in snap:
                        ctx.count('skip_tables_compared')
                        b = base[i][n]
                        s = snap[n]
                        if b[0] != s[0] or b[2] != s[2] or b[1].shape != s[1].shape or not np.array_equal(b[1], s[1], equal_nan=True):
                            cmp_.violation('skip-changes-table:%s:skip=%s:table=%s' % (sim, '+'.join(sorted(skip)), n),
                                           'result %d: table %r differs between skip_tables=%r and no skipping' % (i, n, sorted(skip)))
            if cmp_.bad > 6:
                break
        if routes and not skip and cmp_.bad == 0 and len(ref) >= 2:
            check_routes(ctx, lst, ref, cmp_, vk)
    finally:
        lst.close()
    return out


def check_routes(ctx, lst, ref, cmp_, vk):
    """The statement speaks of every result time, not of one way of getting there: the tables are compared with
    the text again after reaching result times through first/last/next/prev, negative indices, time and step
    (where the reader lands is C07's matter; here the landing index is read back from the reader and the tables
    must hold what is printed for THAT result set)."""
    N = len(ref)
    times = [float(t) for t in lst.fulltimes]
    steps = [int(s) for s in lst.fullsteps]

    def judge(route):
        j = lst.index
        if isinstance(j, (int, np.integer)) and -N <= j < 0:
            j += N            # a negative index left as it is names the same result set (its being reported so is C07's matter)
        if not isinstance(j, (int, np.integer)) or not (0 <= j < N):
            return
        ctx.count('route_landings')
        ctx.see('route', route)
        mine, order = merged_tables(ref[j])
        for name in lst._tablenames:
            if name in lst._table and name in mine:
                cmp_.table(int(j), name, lst._table[name], mine[name], vk + ':via-' + route)
    plan = [('last', [lambda: lst.first(), lambda: lst.last()]),
            ('index-minus-1', [lambda: setattr(lst, 'index', 0), lambda: setattr(lst, 'index', -1)]),
            ('index-minus-N', [lambda: lst.last(), lambda: setattr(lst, 'index', -N)]),
            ('time-beyond-last', [lambda: lst.first(), lambda: setattr(lst, 'time', times[-1] * 2 + 1.0)]),
            ('step-beyond-last', [lambda: lst.first(), lambda: setattr(lst, 'step', steps[-1] + 7)]),
            ('time-before-first', [lambda: lst.last(), lambda: setattr(lst, 'time', times[0] - 1.0)])]
    for route, acts in plan:
        with ctx.guard(cmp_.case, where='route:' + route) as g:
            for a in acts:
                a()
        if g.raised is None:
            judge(route)
    with ctx.guard(cmp_.case, where='route:next') as g:
        lst.first()
        for k in range(min(N - 1, 4)):
            lst.next()
            judge('next')
        lst.last()
        for k in range(min(N - 1, 4)):
            lst.prev()
            judge('prev')
    # diagnostics that visit other result sets on their way: afterwards the tables are those printed for the result set
    # the reader says it is at
    for i in sorted(set([0, N - 2])):
        for route, act in (('after-convergence', lambda: lst.convergence), ('after-get_difference', lambda: lst.get_difference()),
                           ('after-history', lambda: lst.history([(lst._tablenames[0], lst._table[lst._tablenames[0]].row_name[0],
                                                                  lst._table[lst._tablenames[0]].column_name[0])]))):
            with ctx.guard(cmp_.case, where='route:' + route) as g:
                lst.index = i
                act()
            if g.raised is None:
                # (whether the call leaves the reader where it was is not this property's matter: get_difference() does not)
                ctx.count('diagnostic_calls_followed_by_table_reads')
                judge(route)
    for i in sorted(set([0, N // 2, N - 1])):
        with ctx.guard(cmp_.case, where='route:time') as g:
            lst.index = (i + 1) % N
            lst.time = times[i]
        if g.raised is None:
            judge('time')
        with ctx.guard(cmp_.case, where='route:step') as g:
            lst.index = (i + 1) % N
            lst.step = steps[i]
        if g.raised is None:
            judge('step')


def read_lines(path):
    with open(path, 'rb') as f:
        return [l.decode('latin-1') for l in f.read().split(b'\n')]


def write_variant(ctx, path, lines, tag):
    base = os.path.basename(path)
    d = os.path.join(ctx.tmp, 'v_%s' % tag)
    os.makedirs(d, exist_ok=True)
    fn = os.path.join(d, base)
    with open(fn, 'wb') as f:
        f.write('\n'.join(lines).encode('latin-1'))
    return fn


def selfcheck(ctx, fn, ref):
    """Re-tokenizes the written copy: the oracle must read back the constructed values."""
    again = LR.parse_listing(fn)
    if len(again) != len(ref):
        raise HarnessError('oracle self-check: %d result sets after perturbation, %d before' % (len(again), len(ref)))
    for ra, rb in zip(again, ref):
        if len(ra['tables']) != len(rb['tables']):
            raise HarnessError('oracle self-check: table count changed')
        for ta, tb in zip(ra['tables'], rb['tables']):
            if len(ta.rows) != len(tb.rows):
                raise HarnessError('oracle self-check: %s rows %d vs %d' % (ta.name, len(ta.rows), len(tb.rows)))
            for xa, xb in zip(ta.rows, tb.rows):
                va = [c[0] for c in xa[2]]
                vb = [c[0] for c in xb[2]]
                if xa[0] != xb[0] or len(va) != len(vb) or any(not same_number(p, q) for p, q in zip(va, vb)):
                    raise HarnessError('oracle self-check: line %d tokenizes to %r, constructed %r' % (xa[3] + 1, va, vb))
                ctx.count('oracle_selfcheck_cells', len(va))


def count_touching(ctx, ref, lines):
    n = 0
    for res in ref:
        for t in res['tables']:
            for keys, index, cells, ln in t.rows:
                prev = t.layout[2] if t.has_I else t.layout[1]
                for v, a, b in cells[(1 if t.has_I else 0):]:
                    if a <= prev and lines[ln][a - 1:a] != ' ':
                        n += 1
                    prev = b
    ctx.count('touching_cells', n)


def variant_seed(ctx, rel, kind, k):
    import zlib
    return zlib.crc32(('%s|%s|%s|%d' % (ctx.seed, rel, kind, k)).encode())


def run_variant(ctx, rel, kind, k, skip_sets=None, indices=None):
    import random
    path = os.path.join(REPO, rel)
    case = {'file': rel, 'variant': kind, 'k': k, 'skip': []}
    if kind == 'shipped':
        ref = LR.parse_listing(path)
        lines = read_lines(path)
        fn = path
    else:
        rng = random.Random(variant_seed(ctx, rel, kind, k))
        ref = LR.parse_listing(path)
        lines = read_lines(path)
        frac = 1.0 if (kind != 'mix' and k == 0) else 0.5
        n = make_variant(ctx, rng, lines, ref, kind, frac)
        if n == 0:
            ctx.see('variant_not_applicable', '%s:%s' % (rel.split('/')[2], kind))
            return
        fn = write_variant(ctx, path, lines, '%s_%d' % (kind, k))
        selfcheck(ctx, fn, ref)
        ctx.count('variants')
    if not ref:
        raise HarnessError('no result sets found in %s' % rel)
    count_touching(ctx, ref, lines)
    ctx.see('variant_kind', kind)
    base = check_listing(ctx, fn, rel, ref, kind, (), case, indices=indices, routes=(kind in ('shipped', 'mix', 'digits') and k == 0))
    ctx.evaluated()
    ctx.case((rel, kind, k, ()), nontrivial=(kind != 'shipped'), sample=(kind == 'mix' and len(ctx.samples) < 2))
    if base is None:
        return
    names = sorted(set(n for s in base.values() for n in s))
    if skip_sets == 'all':
        subsets = [c for r in range(1, len(names) + 1) for c in itertools.combinations(names, r)]
    elif skip_sets == 'single':
        subsets = [(n,) for n in names]
    else:
        subsets = []
    for s in subsets:
        c = dict(case, skip=list(s))
        ctx.count('skip_subsets')
        check_listing(ctx, fn, rel, ref, kind, s, c, base=base, indices=indices)
        ctx.evaluated()
        ctx.case((rel, kind, k, s), nontrivial=True, sample=(len(s) >= 2 and len(ctx.samples) < 4))
    if fn != path:
        os.remove(fn)


def run_shard(ctx, spec):
    nv = 1 if ctx.tier == 'quick' else 4
    for rel in spec['files']:
        ctx.count('files')
        with ctx.guard({'file': rel, 'variant': 'shipped', 'k': 0, 'skip': []}, where='shipped'):
            run_variant(ctx, rel, 'shipped', 0, skip_sets='all')
        for kind in KINDS:
            for k in range(nv if kind != 'mix' else 2 * nv):
                with ctx.guard({'file': rel, 'variant': kind, 'k': k, 'skip': []}, where='variant'):
                    run_variant(ctx, rel, kind, k, skip_sets=('single' if (k == 0 or ctx.tier == 'thorough') else None))


def replay(ctx, c):
    rel = c['file']
    kind = c.get('variant', 'shipped')
    k = c.get('k', 0)
    path = os.path.join(REPO, rel)
    if c.get('skip'):
        # regenerate the variant, then open with the skipped set
        import random
        case = dict(c)
        ref = LR.parse_listing(path)
        fn = path
        if kind != 'shipped':
            lines = read_lines(path)
            rng = random.Random(variant_seed(ctx, rel, kind, k))
            make_variant(ctx, rng, lines, ref, kind, 1.0 if (kind != 'mix' and k == 0) else 0.5)
            fn = write_variant(ctx, path, lines, 'replay')
        base = check_listing(ctx, fn, rel, ref, kind, (), dict(case, skip=[]))
        if base is not None:
            check_listing(ctx, fn, rel, ref, kind, tuple(c['skip']), case, base=base)
        ctx.evaluated()
        return
    run_variant(ctx, rel, kind, k, skip_sets=None)
