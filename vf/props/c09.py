"""C09 -- reordering, renaming and MINC do not change the physics.

Monitor shape: physical signature before/after.  The signature of a grid is
{unordered block pair: (area, permeability direction, {block: its own distance},
upper block)} plus {block: (volume, rock type name, centre)}; it is computed by
the harness from public attributes only and compared after every composition of
reorder / rename operations (names mapped through the rename map), optionally
after a data-file round trip (then through the precision of the carrying
fields).  MINC: per original block volume sum, fractions, chain shape.
"""
import os

from vf.core import HarnessError
from vf.gen import geos
from vf.repo import R

INFO = {
    'rule': ('cases = (geometry, surfaces, atmosphere type) -> grid, then a composition of 1..4 operations drawn from: random '
             'block permutation; random connection permutation with a random subset (incl. all) reversed; reorder(geo=differently '
             'ordered geometry); random one-to-one rename incl. swaps and cycles; optionally a write/read of the data file; and '
             'MINC cases (2..6 fractions summing to <1, 1, >1; 1..3 plane sets; spacing 1..500; full / partial selection), embed '
             'cases. Distinct = distinct case descriptor; non-trivial = >= 1 reversed vertical connection, or MINC with >= 3 levels.'),
    'require': {
        'quick': {'counters': {'compositions': 100, 'signature_comparisons': 200, 'reversed_connections_checked': 500,
                               'minc_cases': 30, 'embed_cases': 10, 'file_roundtrips': 20},
                  'seen': {'op_kinds': 4}, 'nontrivial': 60},
        'thorough': {'counters': {'compositions': 3000, 'signature_comparisons': 6000, 'reversed_connections_checked': 20000,
                                  'minc_cases': 800, 'embed_cases': 200, 'file_roundtrips': 600},
                     'seen': {'op_kinds': 4}, 'nontrivial': 2000},
    },
    'watchdog_s': {'quick': 1200, 'thorough': 5400},
    'assumptions': ['upper block of a connection = block[1] if the gravity cosine is negative, block[0] if positive',
                    'after a file round trip reals are compared through the format of the field that carried them'],
}


def plan(tier, seed):
    if tier == 'quick':
        return [{'kind': 'compose', 'n': 60} for _ in range(10)] + [{'kind': 'minc', 'n': 30} for _ in range(4)]
    return [{'kind': 'compose', 'n': 300} for _ in range(16)] + [{'kind': 'minc', 'n': 60} for _ in range(16)]


# -- signature -----------------------------------------------------------------------------------

def upper_block(con):
    dc = con.dircos
    if dc is None or abs(dc) < 1e-9:
        return None       # blocks at equal elevation (a cosine of 1e-16 is rounding noise, not an orientation)
    return con.block[1].name if dc < 0 else con.block[0].name


def signature(grid):
    blocks = {}
    for b in grid.blocklist:
        c = None if b.centre is None else tuple(float(x) for x in b.centre)
        blocks[b.name] = (float(b.volume), b.rocktype.name, c)
    cons = {}
    for con in grid.connectionlist:
        names = (con.block[0].name, con.block[1].name)
        key = frozenset(names)
        if key in cons:
            raise HarnessError('two connections between %r' % (names,))
        cons[key] = (float(con.area), con.direction,
                     {names[0]: float(con.distance[0]), names[1]: float(con.distance[1])}, upper_block(con),
                     None if con.dircos is None else abs(float(con.dircos)))
    return blocks, cons


def map_signature(sig, mp):
    blocks, cons = sig
    f = lambda n: mp.get(n, n)
    b2 = dict((f(n), v) for n, v in blocks.items())
    c2 = {}
    for key, (area, direction, dist, upper, adc) in cons.items():
        c2[frozenset(f(n) for n in key)] = (area, direction, dict((f(n), d) for n, d in dist.items()),
                                            None if upper is None else f(upper), adc)
    return b2, c2


def fmt(v, spec):
    if v is None:
        return None
    s = ('%' + spec) % v
    w = int(spec.split('.')[0])
    if len(s) > w:
        return None     # value needed reduced precision in the file: compare loosely
    return float(s)


def close(a, b, spec):
    if a is None or b is None:
        return a is b
    fa = fmt(a, spec)
    if fa is not None:
        return fa == b or fa == fmt(b, spec)
    return abs(a - b) <= 1e-2 * abs(a)


def compare(ctx, before, after, case, label, through_file=False):
    """Returns True when equal.  `label` names the operation mix for the key."""
    b0, c0 = before
    b1, c1 = after
    ok = True

    def bad(key, what):
        ctx.violation('%s:%s' % (key, label), what, case)
    if set(b0) != set(b1):
        bad('block-set', 'blocks lost %r gained %r' % (sorted(set(b0) - set(b1))[:4], sorted(set(b1) - set(b0))[:4]))
        return False
    if set(c0) != set(c1):
        bad('connection-set', 'pairs lost %r gained %r' % ([sorted(k) for k in list(set(c0) - set(c1))[:3]],
                                                           [sorted(k) for k in list(set(c1) - set(c0))[:3]]))
        return False
    for n in b0:
        v0, r0, ce0 = b0[n]
        v1, r1, ce1 = b1[n]
        if through_file:
            same = close(v0, v1, '10.4e') and r0 == r1 and ((ce0 is None and ce1 is None) or (
                ce0 is not None and ce1 is not None and all(close(x, y, '10.3e') for x, y in zip(ce0, ce1))))
        else:
            same = (v0, r0, ce0) == (v1, r1, ce1)
        if not same:
            bad('block-physics', 'block %r (volume, rock, centre) %r -> %r' % (n, b0[n], b1[n]))
            ok = False
            break
    for key in c0:
        a0, d0, dist0, up0, adc0 = c0[key]
        a1, d1, dist1, up1, adc1 = c1[key]
        pair = sorted(key)
        if through_file:
            same_area = close(a0, a1, '10.4e')
            same_dist = all(close(dist0[n], dist1[n], '10.4e') for n in dist0)
            same_adc = close(adc0, adc1, '10.7f') if adc0 is not None else adc1 in (None, 0.0)
        else:
            same_area, same_dist, same_adc = a0 == a1, dist0 == dist1, adc0 == adc1
        if not same_area or d0 != d1:
            bad('connection-area-or-direction', 'pair %r area/direction %r/%r -> %r/%r' % (pair, a0, d0, a1, d1))
            ok = False
            break
        if not same_dist:
            bad('connection-distances', 'pair %r per-block distances %r -> %r' % (pair, dist0, dist1))
            ok = False
            break
        if up0 != up1 and not (through_file and adc0 is not None and adc0 < 1e-6):
            bad('connection-upper-block', 'pair %r upper block %r -> %r' % (pair, up0, up1))
            ok = False
            break
        if not same_adc:
            bad('connection-cosine-magnitude', 'pair %r |cosine| %r -> %r' % (pair, adc0, adc1))
            ok = False
            break
    return ok


# -- workloads -----------------------------------------------------------------------------------------

def make_geo(ctx):
    rng = ctx.rng
    if rng.random() < 0.75:
        geo, desc = geos.rectangular(rng, max_n=5)
    else:
        name = rng.choice(['g7', 'g5', 'g6'])
        geo = geos.load_shipped(name)
        at = rng.randint(0, 2)
        geo.atmosphere_type = at
        desc = {'kind': 'shipped', 'name': name, 'atmos_type': at}
    if desc['kind'] == 'rectangular' and rng.random() < 0.7 and geo.num_layers > 2:
        desc['surfaces'] = geos.set_surfaces(geo, rng, rng.choice(['inside', 'mixed', 'boundary']))
    return geo, desc


def apply_op(grid, geo, op):
    """Applies one recorded operation; returns the rename map it implies."""
    k = op['op']
    if k == 'reorder_blocks':
        names = [grid.blocklist[i].name for i in op['perm']]
        grid.reorder(block_names=names)
    elif k == 'reorder_connections':
        cons = [tuple(b.name for b in grid.connectionlist[i].block) for i in op['perm']]
        cons = [c[::-1] if r else c for c, r in zip(cons, op['reverse'])]
        grid.reorder(connection_names=cons)
    elif k == 'reorder_geo':
        g2 = geos.rebuild(op['geo'])
        grid.reorder(geo=g2)
    elif k == 'rename':
        names = [b.name for b in grid.blocklist]
        mp = dict((names[i], names[j]) if isinstance(j, int) else (names[i], j) for i, j in op['map'])
        grid.rename_blocks(dict(mp))
        return mp
    else:
        raise HarnessError(op)
    return {}


def gen_op(ctx, grid, geo, desc):
    rng = ctx.rng
    nb, nc = grid.num_blocks, grid.num_connections
    r = rng.random()
    if r < 0.25:
        perm = list(range(nb))
        rng.shuffle(perm)
        return {'op': 'reorder_blocks', 'perm': perm}
    if r < 0.6 and nc:
        perm = list(range(nc))
        rng.shuffle(perm)
        mode = rng.random()
        if mode < 0.15:
            rev = [True] * nc
        else:
            p = rng.choice([0.1, 0.3, 0.5])
            rev = [rng.random() < p for _ in range(nc)]
        return {'op': 'reorder_connections', 'perm': perm, 'reverse': rev}
    if r < 0.7 and geo.num_columns > 1:
        # a geometry describing the same blocks with the columns listed in another order:
        # same names, different block and connection order and orientation
        return None
    # rename: permutation of a subset (swaps / cycles) or fresh names
    k = rng.randint(1, min(nb, 8))
    idx = rng.sample(range(nb), k)
    if rng.random() < 0.6:
        tgt = list(idx)
        rng.shuffle(tgt)
        return {'op': 'rename', 'map': [[i, j] for i, j in zip(idx, tgt)]}
    fresh = []
    # every other map uses names the simulator prints differently ('WA105' is 'WA1 5' in a file: digit, zero, digit at the end)
    quirk = rng.random() < 0.5

    def newname():
        if quirk:
            return 'W%s%d0%d' % (rng.choice('ABCDEFGH'), rng.randint(1, 9), rng.randint(0, 9))
        return 'W%s%s%02d' % (rng.choice('ABCDEFGH'), rng.choice('ABCDEFGH'), rng.randint(10, 99))
    for i in idx:
        n = newname()
        # fresh: neither given out in this map nor carried by any block of the grid (an earlier rename of
        # the same case may have introduced it) -- a colliding map is outside the documented precondition
        while n in fresh or n in grid.block:
            n = newname()
        fresh.append(n)
    return {'op': 'rename', 'map': [[i, n] for i, n in zip(idx, fresh)]}


def count_reversed(ctx, grid, op):
    if op['op'] != 'reorder_connections':
        return 0, 0
    n = v = 0
    for i, r in zip(op['perm'], op['reverse']):
        if r:
            n += 1
            con = grid.connectionlist[i]
            if con.direction == 3:
                v += 1
            elif con.dircos not in (0, None) and abs(con.dircos) > 0:
                ctx.count('reversed_horizontal_with_nonzero_cosine')
    return n, v


def run_case(ctx, case):
    t2g = R.t2grids
    geo = geos.rebuild(case['geo'])
    grid = t2g.t2grid().fromgeo(geo)
    sig = signature(grid)
    nrev_v = 0
    label = '+'.join(sorted(set(o['op'] for o in case['ops'])))
    for op in case['ops']:
        nr, nv = count_reversed(ctx, grid, op)
        nrev_v += nv
        ctx.count('reversed_connections_checked', nr)
        with ctx.guard(case, where=op['op']) as g:
            mp = apply_op(grid, geo, op)
        if g.raised is not None:
            return nrev_v
        ctx.see('op_kinds', op['op'])
        sig = map_signature(sig, mp)
        ctx.count('signature_comparisons')
        ctx.evaluated()
        try:
            sig_now = signature(grid)
        except HarnessError as e:
            import json
            raise HarnessError('%s after %s; case %s' % (e, op['op'], json.dumps(case, default=str)[:3000]))
        if not compare(ctx, sig, sig_now, case, 'after:' + op['op']):
            return nrev_v
    if case.get('roundtrip'):
        t2d = R.t2data
        fn = os.path.join(ctx.tmp, 'c09.dat')
        # where the mesh goes: in the data file, in a MESH file, or in the binary MESHA / MESHB pair of TOUGH2-MP (the
        # pair numbers the blocks of each connection: only for grids whose blocks all have centres, which the
        # binary writer needs)
        mode = case.get('mesh_mode')
        if mode is None:
            mode = 'infile'
        if mode == 'binary' and any(b.centre is None for b in grid.blocklist):
            mode = 'MESH'
        mf = {'infile': '', 'MESH': os.path.join(ctx.tmp, 'c09.MESH'),
              'binary': [os.path.join(ctx.tmp, 'c09.MESHA'), os.path.join(ctx.tmp, 'c09.MESHB')]}[mode]
        ctx.see('roundtrip_mesh_mode', mode)
        with ctx.guard(case, where='file-roundtrip:' + mode) as g:
            dat = t2d.t2data()
            dat.grid = grid
            dat.write(fn, meshfilename=mf)
            back = t2d.t2data(fn, meshfilename=mf)
        if g.raised is not None:
            return nrev_v
        ctx.count('file_roundtrips')
        ctx.evaluated()
        # writing is not an edit: the grid that was written is still the grid it was (same names under the same keys, same
        # network), ready for the next rename / reorder / write of the same object
        try:
            sig_after_write = signature(grid)
        except HarnessError as e:
            sig_after_write = None
            ctx.violation('file:write-alters-grid:' + label, 'the written grid is inconsistent after write(): %s' % e, case)
        bad_keys = [n for n, b in grid.block.items() if b.name != n][:3]
        if bad_keys:
            ctx.violation('file:write-alters-grid:' + label, 'after write() blocks are called %r under the keys %r' % ([grid.block[n].name for n in bad_keys], bad_keys), case)
        elif sig_after_write is not None:
            compare(ctx, sig, sig_after_write, case, 'after-write-in-memory:' + label)
        # order of blocks and connections must be what reorder asked for
        if [b.name for b in back.grid.blocklist] != [b.name for b in grid.blocklist]:
            ctx.violation('file:block-order:' + label, 'block order changed by the data-file round trip', case)
        compare(ctx, sig, signature(back.grid), case, 'after-file:' + label, through_file=True)
    return nrev_v


def run_compose(ctx, spec):
    t2g = R.t2grids
    for it in range(spec['n']):
        geo, desc = make_geo(ctx)
        grid = t2g.t2grid().fromgeo(geo)
        if grid.num_blocks > 600:
            continue
        ops = []
        case = {'geo': desc, 'ops': ops, 'roundtrip': ctx.rng.random() < 0.4, 'mesh_mode': ctx.rng.choice(['infile', 'MESH', 'binary'])}
        # generate ops against a scratch grid so that indices refer to the state they are applied in
        scratch = t2g.t2grid().fromgeo(geo)
        for _ in range(ctx.rng.randint(1, 4)):
            op = gen_op(ctx, scratch, geo, desc)
            if op is None:
                d2 = dict(desc)
                d2['block_order'] = None
                op = {'op': 'reorder_geo', 'geo': reversed_geo_desc(desc)}
                if op['geo'] is None:
                    continue
                g2 = geos.rebuild(op['geo'])
                # precondition of reorder(geo=...): the geometry names exactly this grid's blocks and connections
                if set(g2.block_name_list) != set(b.name for b in scratch.blocklist) or \
                        len(g2.block_connection_name_list) != scratch.num_connections or \
                        not all((c in scratch.connection or c[::-1] in scratch.connection) for c in g2.block_connection_name_list):
                    continue
            try:
                apply_op(scratch, geo, op)
            except Exception:
                ops.append(op)
                break
            ops.append(op)
        if not ops:
            continue
        nrev_v = run_case(ctx, case)
        ctx.count('compositions')
        ctx.case(case_digest(case), nontrivial=nrev_v >= 1, sample=False)
        if nrev_v >= 1 and len(ctx.samples) < 3:
            ctx.samples.append({'geo': desc['kind'], 'ops': [o['op'] for o in ops], 'roundtrip': case['roundtrip'],
                                'reversed_vertical': nrev_v})


def case_digest(case):
    return repr(case)


def reversed_geo_desc(desc):
    """The same geometry as a differently ordered file would give it: columns listed
    in reverse, every second connection written with its two columns swapped."""
    d = dict(desc)
    d['permute'] = {'columns_reversed': True, 'reverse_every': 2}
    return d


def run_minc(ctx, spec):
    t2g = R.t2grids
    rng = ctx.rng
    for it in range(spec['n']):
        geo, desc = geos.rectangular(rng, max_n=4)
        nlev = rng.randint(2, 6)
        mode = rng.choice(['sum<1', 'sum=1', 'sum>1', 'percent'])
        raw = [rng.uniform(0.05, 1.0) for _ in range(nlev)]
        tot = sum(raw)
        if mode == 'sum<1':
            vf = [x / tot * rng.uniform(0.2, 0.9) for x in raw]
        elif mode == 'sum=1':
            vf = [x / tot for x in raw]
        elif mode == 'percent':
            vf = [100.0 * x / tot for x in raw]
        else:
            vf = raw if tot > 1 else [x * 3 for x in raw]
        nfp = rng.randint(1, 3)
        spacing = [round(rng.uniform(1.0, 500.0), 1) for _ in range(rng.randint(1, nfp))]
        grid = t2g.t2grid().fromgeo(geo)
        under = [b.name for b in grid.blocklist if not b.atmosphere]
        partial = rng.random() < 0.5
        sel = sorted(rng.sample(under, max(1, len(under) // 2))) if partial else None
        case = {'geo': desc, 'volume_fractions': vf, 'spacing': spacing, 'num_fracture_planes': nfp, 'blocks': sel,
                'fraction_mode': mode,
                # optional arguments: own naming functions for the matrix blocks and their rock types, a distance for the
                # fracture end of the first connection, initial conditions carried along
                'options': sorted(o for o in ('matrix_blockname', 'minc_rockname', 'fracture_connection_distance', 'incon') if rng.random() < 0.3)}
        run_minc_case(ctx, case)
        ctx.count('minc_cases')
        ctx.case(repr(case), nontrivial=nlev >= 3, sample=(it < 2))
        ctx.see('minc_levels', str(nlev))
        ctx.see('minc_fraction_mode', mode)
        # embed
        if it % 3 == 0:
            run_embed_case(ctx, {'geo': desc, 'host_index': rng.randrange(len(under)), 'sub_volumes': [rng.uniform(0.1, 2.0) for _ in range(3)],
                                 'host_style': rng.choice(['own', 'stand-alone', 'copy'])})
            ctx.count('embed_cases')


def run_minc_case(ctx, case):
    t2g = R.t2grids
    geo = geos.rebuild(case['geo'])
    grid = t2g.t2grid().fromgeo(geo)
    orig = dict((b.name, (b.volume, b.rocktype.name, b.atmosphere)) for b in grid.blocklist)
    orig_cons = set(frozenset(b.name for b in c.block) for c in grid.connectionlist)
    sig0 = signature(grid)
    vf = list(case['volume_fractions'])
    nlev = len(vf)
    kw = {}
    opts = case.get('options') or []
    if 'matrix_blockname' in opts:
        kw['matrix_blockname'] = lambda blkname, level: 'MNOPQRST'[level] + blkname[1:]
    if 'minc_rockname' in opts:
        kw['minc_rockname'] = lambda rockname, level: rockname if level == 0 else 'Z%d%s' % (level, rockname[2:])
    if 'fracture_connection_distance' in opts:
        kw['fracture_connection_distance'] = 2.5
    inc0 = None
    if 'incon' in opts:
        inc0 = R.t2incons.t2incon()
        for k_, b_ in enumerate(grid.blocklist):
            inc0[b_.name] = [1.0e5 + k_, 20.0 + 0.25 * k_]
        kw['incon'] = inc0
    for o in opts:
        ctx.see('minc_option', o)
    # the selection: names, the grid's own block objects, or the equally named block objects of a copy of the grid made
    # before (a selection kept from an earlier read of the same model: blocks are selected BY NAME, whatever object carries it)
    blocks_arg = case['blocks']
    if case['blocks'] and len(vf) % 2 == 0:
        if len(vf) == 4:
            import copy as _copy
            twin = _copy.deepcopy(grid)
            blocks_arg = [twin.block[n] for n in case['blocks']]
            ctx.count('minc_selections_given_as_blocks_of_a_copy')
        else:
            blocks_arg = [grid.block[n] for n in case['blocks']]
    with ctx.guard(case, where='minc') as g:
        idx = grid.minc(list(vf), spacing=case['spacing'] if len(case['spacing']) > 1 else case['spacing'][0],
                        num_fracture_planes=case['num_fracture_planes'], **kw, blocks=blocks_arg)
    if g.raised is not None:
        return
    ctx.evaluated()
    newinc = None
    if inc0 is not None:
        idx, newinc = idx
    frac = [x / sum(vf) for x in vf]
    selected = set(case['blocks']) if case['blocks'] else set(orig)
    by_name = dict((b.name, b) for b in grid.blocklist)
    new_cons = [c for c in grid.connectionlist if frozenset(b.name for b in c.block) not in orig_cons]
    adj = {}
    for c in new_cons:
        a, b = c.block[0].name, c.block[1].name
        adj.setdefault(a, []).append(b)
        adj.setdefault(b, []).append(a)
    nmincd = 0
    for name, (vol, rock, atm) in orig.items():
        blk = by_name.get(name)
        if blk is None:
            ctx.violation('minc:block-lost', 'original block %r disappeared' % name, case)
            return
        is_minc = name in selected and 0 < vol < 1e25
        if not is_minc:
            if blk.volume != vol or name in adj:
                ctx.violation('minc:unselected-block-changed', 'block %r not selected for MINC: volume %r -> %r, new connections %r' % (
                    name, vol, blk.volume, adj.get(name)), case)
                return
            continue
        nmincd += 1
        # walk the chain fracture -> ... -> innermost matrix
        chain = [name]
        prev = None
        cur = name
        while True:
            nxt = [n for n in adj.get(cur, []) if n != prev]
            if cur == name and len(nxt) != 1:
                ctx.violation('minc:chain-shape', 'fracture block %r has %d MINC connections, expected 1' % (name, len(nxt)), case)
                return
            if not nxt:
                break
            if len(nxt) > 1:
                ctx.violation('minc:chain-shape', 'matrix block %r branches to %r' % (cur, nxt), case)
                return
            prev, cur = cur, nxt[0]
            chain.append(cur)
            if len(chain) > nlev + 2:
                break
        if len(chain) != nlev:
            ctx.violation('minc:chain-length', 'block %r: chain of %d continua, %d fractions requested' % (name, len(chain), nlev), case)
            return
        if newinc is not None:
            # every continuum of the block starts from the block's own state
            want = [float(x) for x in inc0[name].variable]
            for n in chain:
                got = newinc[n] if n in [x.block for x in newinc] else None
                if got is None or [float(x) for x in got.variable] != want:
                    ctx.violation('minc:initial-conditions', 'continuum %r of block %r starts from %r, the block from %r' % (n, name, got and list(got.variable), want), case)
                    return
        if 'minc_rockname' in opts:
            rocks = [by_name[n].rocktype.name for n in chain]
            exp_r = [rock] + ['Z%d%s' % (k_, rock[2:]) for k_ in range(1, nlev)]
            if rocks != exp_r or any(grid.rocktype.get(r_) is not by_name[n].rocktype for r_, n in zip(rocks, chain)):
                ctx.violation('minc:rock-names', 'block %r: continua have rock types %r, the naming function gives %r' % (name, rocks, exp_r), case)
                return
        if 'matrix_blockname' in opts and chain[1:] != ['MNOPQRST'[k_] + name[1:] for k_ in range(1, nlev)]:
            ctx.violation('minc:matrix-block-names', 'block %r: continua are called %r' % (name, chain), case)
            return
        vols = [by_name[n].volume for n in chain]
        if abs(sum(vols) - vol) > 1e-10 * vol:
            ctx.violation('minc:volume-not-conserved', 'block %r volume %r, continua sum to %r (fractions %s)' % (
                name, vol, sum(vols), case['fraction_mode']), case)
            return
        for k, (v, f) in enumerate(zip(vols, frac)):
            if abs(v - f * vol) > 1e-9 * vol:
                ctx.violation('minc:fractions', 'block %r level %d volume %r, requested fraction gives %r' % (name, k, v, f * vol), case)
                return
        # chained connections are listed outer -> inner
        for c in new_cons:
            a, b = c.block[0].name, c.block[1].name
            if a in chain and b in chain and chain.index(b) != chain.index(a) + 1:
                ctx.violation('minc:chain-orientation', 'connection %r not oriented fracture-to-matrix along %r' % ((a, b), chain), case)
                return
    # the original network among original blocks is untouched
    b1, c1 = signature(grid)
    for key, v in sig0[1].items():
        if c1.get(key) != v:
            ctx.violation('minc:original-connection-changed', 'pair %r changed from %r to %r' % (sorted(key), v, c1.get(key)), case)
            return
    tot0 = sum(v for v, r, a in orig.values() if v < 1e25)
    tot1 = sum(b.volume for b in grid.blocklist if b.volume < 1e25)
    if abs(tot0 - tot1) > 1e-10 * tot0:
        ctx.violation('minc:total-volume', 'total volume %r -> %r' % (tot0, tot1), case)
    ctx.count('minc_blocks_checked', nmincd)


def run_embed_case(ctx, case):
    t2g = R.t2grids
    geo = geos.rebuild(case['geo'])
    grid = t2g.t2grid().fromgeo(geo)
    under = [b for b in grid.blocklist if not b.atmosphere]
    host = under[case['host_index'] % len(under)]
    sub = t2g.t2grid()
    sub.add_rocktype(t2g.rocktype(name='subrk'))
    scale = host.volume / (sum(case['sub_volumes']) * 4.0)
    names = ['SUB%02d' % i for i in range(10, 10 + len(case['sub_volumes']))]
    for n, v in zip(names, case['sub_volumes']):
        sub.add_block(t2g.t2block(n, v * scale, sub.rocktype['subrk']))
    for a, b in zip(names[:-1], names[1:]):
        sub.add_connection(t2g.t2connection([sub.block[a], sub.block[b]], 1, [1., 1.], 1., 0.))
    tot0 = sum(b.volume for b in grid.blocklist if b.volume < 1e25)
    n0 = grid.num_blocks
    # the host block of the connection as the grid's own object, or as another object of the same name (embed() looks
    # the blocks of the connection up by name in the result, so both are legal requests)
    style = case.get('host_style', 'own')
    ctx.see('embed_host_style', style)
    if style == 'stand-alone':
        hostarg = t2g.t2block(host.name, host.volume, host.rocktype)
    elif style == 'copy':
        import copy
        hostarg = copy.deepcopy(grid).block[host.name]
    else:
        hostarg = host
    with ctx.guard(case, where='embed') as g:
        res = grid.embed(sub, t2g.t2connection([hostarg, sub.blocklist[0]], 1, [1., 1.], 1., 0.))
    if g.raised is not None:
        return
    ctx.evaluated()
    if res is None:
        ctx.violation('embed:refused', 'embed refused a sub-grid smaller than its host block', case)
        return
    tot1 = sum(b.volume for b in res.blocklist if b.volume < 1e25)
    if abs(tot1 - tot0) > 1e-10 * tot0:
        ctx.violation('embed:total-volume', 'total volume %r -> %r' % (tot0, tot1), case)
    if res.num_blocks != n0 + len(names):
        ctx.violation('embed:block-count', '%d blocks + %d embedded -> %d' % (n0, len(names), res.num_blocks), case)
    # the result is a grid like any other: its connections join ITS blocks (the host with its reduced volume), and
    # renaming / reordering it afterwards leaves the flow network alone
    foreign = [(con.block[0].name, con.block[1].name) for con in res.connectionlist if any(res.block.get(b.name) is not b for b in con.block)]
    ctx.count('embedded_grids_inspected')
    if foreign:
        ctx.violation('embed:connection-joins-block-outside-result', '%d connections of the embedded grid (e.g. %r) join block objects that are not the result\'s blocks' % (len(foreign), foreign[0]), case)
        return
    import random
    rng = random.Random(case['host_index'] * 7919 + len(case['sub_volumes']))
    sig = signature(res)
    all_names = [b.name for b in res.blocklist]
    mp = {}
    cyc = rng.sample(all_names, min(3, len(all_names)))
    for a, b in zip(cyc, cyc[1:] + cyc[:1]):
        mp[a] = b
    for k, n in enumerate(rng.sample([x for x in all_names if x not in mp], min(4, max(0, len(all_names) - len(mp))))):
        mp[n] = 'ZE%03d' % k
    with ctx.guard(case, where='embed+rename+reorder') as g:
        res.rename_blocks(dict(mp))
        perm = [b.name for b in res.blocklist]
        rng.shuffle(perm)
        cons = [tuple(b.name for b in c.block) for c in res.connectionlist]
        rng.shuffle(cons)
        res.reorder(block_names=perm, connection_names=[c[::-1] if rng.random() < 0.4 else c for c in cons])
    if g.raised is None:
        compare(ctx, map_signature(sig, mp), signature(res), case, 'embedded+rename+reorder')


def run_shard(ctx, spec):
    if spec['kind'] == 'compose':
        run_compose(ctx, spec)
    else:
        run_minc(ctx, spec)


def replay(ctx, case):
    if 'volume_fractions' in case:
        run_minc_case(ctx, case)
    elif 'host_index' in case:
        run_embed_case(ctx, case)
    else:
        run_case(ctx, case)
