"""C20 -- flavour conversion and Waiwera export keep the model, drop only what they say.

Monitor shape: before/after snapshots around the real conversion calls, judged by a small
own model of what a conversion may change; the converted object is then written, the file
text is scanned by an own keyword scan and read back, and the re-read model is compared
with the converted one.  For the export, json() of generated rectangular models is judged
by a partition / index oracle computed from the geometry and grid directly.
"""
import contextlib
import copy
import io
import os
import random

import numpy as np

from vf.core import HarnessError, REPO
from vf.gen import datacase
from vf.props import c01
from vf.repo import R

INFO = {
    'rule': ('conversion cases = (generated t2data model as read from a file, conversion call): sections present at random, generators of '
             'every AUTOUGH2 and TOUGH2 type (supported / convertible / AUTOUGH2-only, same name in several blocks, same (block, name) twice), '
             'MOP digits 0..9 at random in all 24 positions, MP on/off, SHORT with each of blocks / connections / generators present or '
             'absent, history lists holding objects, bare names of existing blocks and bare names of unknown blocks; calls: '
             'convert_to_TOUGH2(MP), type = "TOUGH2", convert_to_AUTOUGH2(MP, simulator, eos), type = "AUTOUGH2", and both in sequence. '
             'export cases = (rectangular geometry with atmosphere type 0/1/2, block order, naming convention; rock assignment; boundary '
             'blocks of zero or huge volume; generators of exportable types in interior, atmosphere and unknown blocks; EOS given '
             'explicitly, by index, via MULTI, or only via the simulator string).  Distinct = distinct descriptor; non-trivial = model with '
             '>= 2 generators or a SHORT / history request, resp. export with >= 2 rock types and >= 1 generator.'),
    'require': {
        'quick': {'counters': {'conversions': 1500, 'roundtrips': 1500, 'generator_lists_judged': 1500, 'grids_judged': 1500, 'history_judged': 1500,
                               'file_scans': 1500, 'exports': 1500, 'rock_partitions_judged': 1500, 'sources_judged': 1500, 'eos_detections': 1500, 'models_with_extra_precision_file': 60, 'real_file_conversions': 9, 'models_read_from_permuted_section_order': 200, 'earlier_converted_models_rechecked': 1000},
                  'seen': {'conversion_call': 5, 'generator_class': 3, 'mop_digit': 200, 'eos_route': 4, 'short_kinds': 6,
                           'history_item_kind': 3, 'atmosphere_type': 3},
                  'nontrivial': 1500},
        'thorough': {'counters': {'conversions': 18000, 'roundtrips': 18000, 'generator_lists_judged': 18000, 'grids_judged': 18000,
                                  'history_judged': 18000, 'file_scans': 18000, 'exports': 18000, 'rock_partitions_judged': 18000,
                                  'sources_judged': 18000, 'eos_detections': 18000, 'models_with_extra_precision_file': 600, 'real_file_conversions': 21, 'models_read_from_permuted_section_order': 2000, 'earlier_converted_models_rechecked': 12000},
                     'seen': {'conversion_call': 5, 'generator_class': 3, 'mop_digit': 236, 'eos_route': 4, 'short_kinds': 8,
                              'history_item_kind': 3, 'atmosphere_type': 3},
                     'nontrivial': 15000},
    },
    'watchdog_s': {'quick': 1500, 'thorough': 7200},
    'assumptions': ['TOUGH2 generator types = HEAT, WATE, AIR, MASS, DELV and COM*; CO2 converts to COM2; every other type used here '
                    '(DELG, DELS, DELT, DELW, DMAK, DMAT, FEED, FINJ, HLOS, IMAK, MAKE, PINJ, POWR, RECH, RINJ, TMAK, TOST, TRAC, VOL., WBRE, '
                    'WFLO, XINJ, XIN2) is AUTOUGH2-only',
                    'history requests: after AUTOUGH2 -> TOUGH2 a history list is unchanged when SHORT holds no items of that kind, else it '
                    'holds the SHORT items (blocks; connections; for generators the blocks of the SHORT generators, as documented for '
                    'history_generator); after TOUGH2 -> AUTOUGH2 SHORT holds every history item that is an object of the grid (for '
                    'GOFT blocks: the generators in that block); bare names of unknown blocks are dropped as documented; what happens to '
                    'bare names of existing blocks is not judged',
                    'rock conductivity may change only by the documented MULKOM rescaling: a factor (1 - porosity)^k, k in 0..2, and k > 0 '
                    'only when MOP(10) = 2 or MOP(23) > 0 before the conversion',
                    'MOP digits after conversion are not judged (the statement does not fix them); PARAM diff0 exists only in the AUTOUGH2 '
                    'format and is excluded from the round-trip comparison',
                    'the model is first written and read once, so that the conversion acts on a model as a user gets it from a file'],
}

T2_TYPES = ['HEAT', 'WATE', 'AIR ', 'MASS', 'DELV', 'COM1', 'COM2', 'COM3']
CONVERTIBLE = {'CO2 ': 'COM2'}
AUT_ONLY = ['DELG', 'DELS', 'DELT', 'DELW', 'DMAK', 'DMAT', 'FEED', 'FINJ', 'HLOS', 'IMAK', 'MAKE', 'PINJ', 'POWR', 'RECH', 'RINJ', 'TMAK',
            'TOST', 'TRAC', 'VOL.', 'WBRE', 'WFLO', 'XINJ', 'XIN2']


def is_t2_type(t):
    return t in ('HEAT', 'WATE', 'AIR ', 'MASS', 'DELV') or t.startswith('COM')


def plan(tier, seed):
    n = 16
    per = 220 if tier == 'quick' else 2500
    shards = [{'kind': 'convert', 'count': per} for _ in range(n // 2)]
    shards += [{'kind': 'export', 'count': per} for _ in range(n // 2)]
    # the shipped data files as starting models (big ones in the thorough tier only)
    for main, mesh, size in c01.REAL:
        if tier == 'quick' and size != 'small':
            continue
        shards.append({'kind': 'real', 'file': main, 'mesh': mesh})
    return shards


# ---------------------------------------------------------------- conversion cases

def gen_conv_case(rng):
    flav = rng.choice(['AUTOUGH2', 'AUTOUGH2', 'TOUGH2'])
    aut = flav == 'AUTOUGH2'
    force = {'flavour': flav, 'mesh': 'infile', 'blocks': rng.choice([3, 5, 8])}
    if not (aut and rng.random() < 0.3):
        force['extra_precision'] = []          # else: the generator picks sections for the AUTOUGH2 extra precision file
    c = datacase.gen_case(rng, force)
    # the file the model is read from before it is converted: written by the library (canonical section order), or an
    # own Fortran-style rendering with the sections in another legal order (e.g. PARAM or MULTI before ROCKS)
    c['section_order_seed'] = rng.randrange(1 << 30) if ('extra_precision' in force and rng.random() < 0.4) else None
    names = [b['name'] for b in c['blocks']]
    c['param']['option'] = [rng.randint(0, 9) if rng.random() < 0.6 else 0 for _ in range(24)]
    if rng.random() < 0.35:
        # the two MULKOM options whose values decide about the conductivity rescaling (MOP(10) = 2, MOP(23) = 1 with a
        # simulator older than AUTOUGH2.2): the values just next to the deciding ones as well
        c['param']['option'][9] = rng.choice([0, 1, 2, 2, 3])
        c['param']['option'][22] = rng.choice([0, 1, 1, 2])
    if aut and rng.random() < 0.5:
        c['simulator'] = rng.choice(['AUTOUGH2', 'MULKOM', 'AUTOUGH2.2EW', 'TOUGH2.2', 'AUTOUGH2.2EWAV', 'AUTOUGH2  EW'])
    # generators of every class
    gens = c['generators']
    if rng.random() < 0.8:
        want = rng.randint(1, 7)
        while len(gens) < want:
            blk = rng.choice(names)
            gens.append({'block': blk, 'name': datacase.own_fix('%3s%2d' % (rng.choice(['wel', 'inj', ' ab']), rng.randint(0, 99))),
                         'nseq': None, 'nadd': None, 'nads': None, 'type': 'MASS', 'ltab': None, 'itab': '', 'gx': datacase.real(rng, '10.3e'),
                         'ex': datacase.real(rng, '10.3e', True), 'hg': None, 'fg': None, 'time': [], 'rate': [], 'enthalpy': []})
    keys = set()
    for g in gens:
        r = rng.random()
        if not aut or r < 0.4:
            g['type'] = rng.choice(T2_TYPES)
        elif r < 0.55:
            g['type'] = 'CO2 '
        else:
            g['type'] = rng.choice(AUT_ONLY)
        if g['type'] == 'DELV':
            g['time'], g['rate'], g['enthalpy'], g['itab'] = [], [], [], ''
            g['ltab'] = rng.choice([None, 1, 3])
        elif not g['time'] and g['ltab'] is not None and g['ltab'] <= 1:
            pass
    # same name in several blocks; same key twice
    if gens and rng.random() < 0.4:
        g = copy.deepcopy(rng.choice(gens))
        others = [n for n in names if n != g['block']]
        if others:
            g['block'] = rng.choice(others)
            g['type'] = rng.choice(T2_TYPES + (AUT_ONLY if aut else []))
            if g['type'] == 'DELV':
                g['time'], g['rate'], g['enthalpy'], g['itab'], g['ltab'] = [], [], [], '', None
            gens.insert(rng.randint(0, len(gens)), g)
    c['dup_key'] = False
    if gens and rng.random() < 0.25:
        g = copy.deepcopy(rng.choice(gens))
        g['type'] = rng.choice(T2_TYPES + (AUT_ONLY if aut else []))
        if g['type'] == 'DELV':
            g['time'], g['rate'], g['enthalpy'], g['itab'], g['ltab'] = [], [], [], '', None
        gens.append(g)
        c['dup_key'] = True
    seen = set()
    out = []
    for g in gens:
        k = (g['block'], g['name'])
        if k in seen and not c['dup_key']:
            continue
        seen.add(k)
        out.append(g)
    c['generators'] = out
    gens = out
    cons = c['connections']
    # SHORT: each kind present or absent
    c['short'] = None
    if aut and rng.random() < 0.7:
        sh = {}
        if rng.random() < 0.5:
            sh['frequency'] = rng.choice([1, 5])
        if rng.random() < 0.6:
            sh['block'] = rng.sample(names, rng.randint(1, min(3, len(names))))
        if cons and rng.random() < 0.6:
            sh['connection'] = [[k['block1'], k['block2']] for k in rng.sample(cons, rng.randint(1, min(3, len(cons))))]
        if gens and rng.random() < 0.6:
            ks = []
            for g in rng.sample(gens, rng.randint(1, min(3, len(gens)))):
                if [g['block'], g['name']] not in ks:
                    ks.append([g['block'], g['name']])
            sh['generator'] = ks
        if sh:
            c['short'] = sh
    c['history_block'] = rng.sample(names, rng.randint(1, min(3, len(names)))) if rng.random() < 0.6 else []
    c['history_connection'] = [[k['block1'], k['block2']] for k in rng.sample(cons, rng.randint(1, min(3, len(cons))))] if (cons and rng.random() < 0.6) else []
    gblocks = sorted(set(g['block'] for g in gens))
    c['history_generator'] = rng.sample(gblocks, rng.randint(1, min(3, len(gblocks)))) if (gblocks and rng.random() < 0.6) else []
    # after the normalising read: which object items become bare names, which unknown names are added
    c['bare'] = {'block': rng.random() < 0.3, 'connection': rng.random() < 0.3, 'generator': rng.random() < 0.3,
                 'unknown': rng.random() < 0.3}
    r = rng.random()
    if aut:
        c['call'] = ('convert_to_TOUGH2', {'MP': rng.random() < 0.3}) if r < 0.6 else (('type', 'TOUGH2') if r < 0.8 else ('both', {'MP': False}))
    else:
        kw = {'MP': rng.random() < 0.3, 'simulator': rng.choice(['AUTOUGH2.2', 'AUTOUGH2', 'MULKOM']), 'eos': rng.choice(['EW', 'EWC', 'EWAV', 'W'])}
        c['call'] = ('convert_to_AUTOUGH2', kw) if r < 0.55 else (('type', 'AUTOUGH2') if r < 0.75 else ('both', dict(kw, MP=False)))
    return c


def gen_snapshot(dat):
    return [(id(g), g.block, g.name, g.type, g.gx, g.ex, g.hg, g.fg, g.ltab, (g.itab or '').strip(), list(g.time), list(g.rate), list(g.enthalpy),
             g.nseq, g.nadd, g.nads) for g in dat.generatorlist]


def grid_snapshot(dat):
    g = dat.grid
    blocks = [(b.name, b.volume, b.rocktype.name, None if b.centre is None else [float(x) for x in b.centre], b.ahtx, b.pmx, b.nseq, b.nadd)
              for b in g.blocklist]
    cons = [(k.block[0].name, k.block[1].name, k.direction, [float(x) for x in k.distance], k.area, k.dircos, k.sigma, k.nseq, k.nad1, k.nad2)
            for k in g.connectionlist]
    rocks = []
    for rt in g.rocktypelist:
        d = {'name': rt.name, 'nad': rt.nad, 'density': rt.density, 'porosity': rt.porosity, 'permeability': [None if x is None else float(x) for x in rt.permeability],
             'specific_heat': rt.specific_heat}
        for k in ('compressibility', 'expansivity', 'dry_conductivity', 'tortuosity', 'klinkenberg', 'xkd3', 'xkd4'):
            d[k] = getattr(rt, k, None)
        d['rp'] = copy.deepcopy(getattr(rt, 'relative_permeability', None))
        d['cp'] = copy.deepcopy(getattr(rt, 'capillarity', None))
        rocks.append((d, rt.conductivity))
    keys = (sorted(g.block.keys()) == sorted(b[0] for b in blocks), sorted(g.rocktype.keys()) == sorted(r[0]['name'] for r in rocks))
    return {'blocks': blocks, 'connections': cons, 'rocks': rocks, 'keys': keys}


def hist_names(dat):
    T = R.t2grids
    hb = [b if isinstance(b, str) else b.name for b in dat.history_block]
    hc = [tuple(k) if isinstance(k, (tuple, list)) else (k.block[0].name, k.block[1].name) for k in dat.history_connection]
    hg = []
    for b in dat.history_generator:
        if isinstance(b, str):
            hg.append(b)
        elif isinstance(b, T.t2block):
            hg.append(b.name)
        else:
            hg.append(('GENERATOR-OBJECT', getattr(b, 'block', None), getattr(b, 'name', None)))
    return hb, hc, hg


def short_names(dat):
    s = dat.short_output or {}
    out = {}
    if 'block' in s:
        out['block'] = [b if isinstance(b, str) else b.name for b in s['block']]
    if 'connection' in s:
        out['connection'] = [tuple(k) if isinstance(k, (tuple, list)) else (k.block[0].name, k.block[1].name) for k in s['connection']]
    if 'generator' in s:
        out['generator'] = [tuple(g) if isinstance(g, (tuple, list)) else (g.block, g.name) for g in s['generator']]
    return out


def scan_keywords(path):
    """Own scan: the section keywords at the start of lines of a written data file, and the text of the record after MULTI."""
    keys = []
    multi = None
    with open(path, 'rb') as f:
        lines = f.read().decode('latin-1').split('\n')
    for i, l in enumerate(lines):
        k = l[:5].rstrip()
        if k in c01.SECTION_KEYS:
            keys.append(k)
            if k == 'MULTI' and i + 1 < len(lines):
                multi = lines[i + 1]
    return keys, multi


def silently(fn, *a, **kw):
    buf = io.StringIO()
    with contextlib.redirect_stdout(buf):
        r = fn(*a, **kw)
    return r


class Conv(object):
    def __init__(self, ctx, c, case):
        self.ctx, self.c, self.case = ctx, c, case
        self.bad = False

    def violation(self, key, what):
        self.bad = True
        self.ctx.violation(key, what, self.case)

    def prepare(self):
        """Build, write, read (normalise); then put bare names into the history lists."""
        ctx, c = self.ctx, self.c
        t2d = R.t2data
        base = os.path.join(ctx.tmp, 'c20_a')
        for f in (base + '.dat', base + '.pdat', os.path.join(ctx.tmp, 'c20_b.dat'), os.path.join(ctx.tmp, 'c20_b.pdat')):
            if os.path.exists(f):
                os.remove(f)            # no companion file of an earlier case may be picked up
        try:
            dat0 = c01.build(c)
            cfg = c['config']
            kw = {}
            if c['flavour'] == 'AUTOUGH2' and cfg['extra_precision']:
                kw = {'extra_precision': cfg['extra_precision'], 'echo_extra_precision': cfg['echo']}
                ctx.count('models_with_extra_precision_file')
            silently(dat0.write, base + '.dat', **kw)
            if c.get('section_order_seed') is not None and not kw:
                first = permute_front_sections(base + '.dat', random.Random(c['section_order_seed']))
                if first:
                    ctx.count('models_read_from_permuted_section_order')
                    ctx.see('first_sections_of_source_file', ' '.join(first))
            dat = silently(t2d.t2data, base + '.dat')
        except Exception as e:
            ctx.count('prepare_failed_foreign')
            ctx.see('prepare_failure', type(e).__name__)
            return None
        bare = c['bare']
        if bare['block']:
            dat.history_block = [b.name if (i % 2 == 0 and not isinstance(b, str)) else b for i, b in enumerate(dat.history_block)]
        if bare['connection']:
            dat.history_connection = [(k.block[0].name, k.block[1].name) if (i % 2 == 0 and not isinstance(k, tuple)) else k
                                      for i, k in enumerate(dat.history_connection)]
        if bare['generator']:
            dat.history_generator = [b.name if (i % 2 == 0 and not isinstance(b, str)) else b for i, b in enumerate(dat.history_generator)]
        if bare['unknown']:
            dat.history_block = list(dat.history_block) + ['zz 99']
            if dat.history_connection:
                dat.history_connection = list(dat.history_connection) + [('zz 99', 'zz 98')]
        return dat

    # ------------------------------------------------------------ judgements
    def judge_grid(self, g0, g1, opt0, label):
        ctx = self.ctx
        ctx.count('grids_judged')
        if g1['blocks'] != g0['blocks']:
            self.violation('grid-changed:blocks:' + label, 'blocks differ after the conversion: %r -> %r' % (first_difference(g0['blocks'], g1['blocks'])))
        if g1['connections'] != g0['connections']:
            self.violation('grid-changed:connections:' + label, 'connections differ after the conversion: %r -> %r' % (first_difference(g0['connections'], g1['connections'])))
        if not all(g1['keys']):
            self.violation('grid-changed:lookup:' + label, 'block / rock type dictionaries no longer match the lists')
        r0, r1 = g0['rocks'], g1['rocks']
        if [r[0] for r in r0] != [r[0] for r in r1]:
            self.violation('rocktype-changed:' + label, 'rock types differ after the conversion (other than conductivity): %r -> %r' % (first_difference([r[0] for r in r0], [r[0] for r in r1])))
            return
        # the documented rescaling: with the MULKOM conductivity option MOP(10)=2 the conversion to TOUGH2 multiplies every
        # conductivity by (1 - porosity); with the MULKOM compatibility option MOP(23)>0 it may do so once (more); nothing else
        # may change a conductivity, and MOP(10)=2 must change it
        to_t2 = label.startswith('to-TOUGH2')
        allowed = set([0])
        if to_t2 and opt0[10] == 2:
            allowed = set([1, 2]) if opt0[23] > 0 else set([1])
        elif to_t2 and opt0[23] > 0:
            allowed = set([0, 1])
        for (d, k0), (_, k1) in zip(r0, r1):
            if k0 is None or d['porosity'] is None or k0 == 0 or d['porosity'] in (0.0, 1.0):
                if k0 != k1 and not (k0 is not None and d['porosity'] == 1.0 and k1 == 0.0 and allowed != set([0])):
                    self.violation('conductivity-changed:' + label + ':degenerate', 'rock %s conductivity %r -> %r (porosity %r)' % (d['name'], k0, k1, d['porosity']))
                continue
            got = None
            for n in (0, 1, 2):
                want = k0 * (1.0 - d['porosity']) ** n
                if abs(k1 - want) <= 1e-12 * max(abs(want), 1e-300):
                    got = n
                    break
            if got:
                ctx.count('conductivity_rescalings_seen')
            ctx.see('conductivity_rescaling', 'MOP(10)=%s MOP(23)%s: factor applied %r times' % ('2' if opt0[10] == 2 else 'other', '>0' if opt0[23] > 0 else '=0', got))
            if got is None or got not in allowed:
                kind = 'not-a-rescaling' if got is None else ('no-mulkom-option' if allowed == set([0]) else ('not-rescaled' if got == 0 else 'rescaled-too-often'))
                self.violation('conductivity-changed:' + label + ':' + kind,
                               'rock %s conductivity %r -> %r (porosity %r, MOP(10)=%d MOP(23)=%d): (1 - porosity) applied %r times, allowed %r' % (
                                   d['name'], k0, k1, d['porosity'], opt0[10], opt0[23], got, sorted(allowed)))

    def judge_lookup(self, dat, label):
        keys = set((g.block, g.name) for g in dat.generatorlist)
        if set(dat.generator.keys()) != keys:
            self.violation('generator-lookup:keys:' + label, 'generator lookup keys %r, list keys %r' % (sorted(set(dat.generator.keys()) ^ keys), sorted(keys)))
            return
        for k, g in dat.generator.items():
            if (g.block, g.name) != k or not any(g is x for x in dat.generatorlist):
                self.violation('generator-lookup:stale:' + label, 'lookup entry %r refers to a generator %r that is not in the list' % (k, (g.block, g.name, g.type)))
                return

    def to_tough2(self, dat, call, label):
        ctx = self.ctx
        opt0 = [int(x) for x in dat.parameter['option']]
        g0 = grid_snapshot(dat)
        gens0 = gen_snapshot(dat)
        h0 = hist_names(dat)
        s0 = short_names(dat)
        with ctx.guard(self.case, where=label) as g:
            if call[0] == 'type':
                silently(setattr, dat, 'type', 'TOUGH2')
            else:
                silently(dat.convert_to_TOUGH2, warn=False, MP=call[1].get('MP', False))
        if g.raised is not None:
            self.bad = True
            return
        ctx.count('conversions')
        ctx.see('conversion_call', label)
        for i, d in enumerate(opt0[1:25]):
            ctx.see('mop_digit', '%d=%d' % (i + 1, d))
        # declares itself TOUGH2, nothing AUTOUGH2-specific
        if dat.type != 'TOUGH2' or dat.simulator:
            self.violation('still-autough2:type:' + label, 'type %r, simulator %r after the conversion' % (dat.type, dat.simulator))
        if dat.lineq:
            self.violation('still-autough2:lineq:' + label, 'lineq %r after the conversion' % (dat.lineq,))
        if dat.short_output:
            self.violation('still-autough2:short:' + label, 'short_output %r after the conversion' % (short_names(dat),))
        if dat.multi and dat.multi.get('eos'):
            self.violation('still-autough2:eos-name:' + label, 'multi still names the EOS %r' % (dat.multi.get('eos'),))
        # generators
        ctx.count('generator_lists_judged')
        exp = []
        for s in gens0:
            t = s[3]
            ctx.see('generator_class', 'tough2' if is_t2_type(t) else ('convertible' if t in CONVERTIBLE else 'autough2-only'))
            if t in CONVERTIBLE:
                exp.append(s[:3] + (CONVERTIBLE[t],) + s[4:])
            elif is_t2_type(t):
                exp.append(s)
        got = gen_snapshot(dat)
        left = [s for s in got if not is_t2_type(s[3])]
        if left:
            self.violation('generator-type-left:' + label + (':duplicate-key' if self.c['dup_key'] else ''),
                           'generators of types TOUGH2 lacks remain: %r' % ([(s[1], s[2], s[3]) for s in left],))
        elif got != exp:
            a, b = first_difference(exp, got)
            self.violation('generators-changed:' + label, 'remaining generators differ: expected %r, found %r' % (a and a[1:], b and b[1:]))
        self.judge_lookup(dat, label)
        self.judge_grid(g0, grid_snapshot(dat), opt0, label)
        # history requests
        ctx.count('history_judged')
        h1 = hist_names(dat)
        ctx.see('short_kinds', '+'.join(sorted(k for k in s0)) or 'none')
        for idx, kind in enumerate(('block', 'connection', 'generator')):
            for x in h0[idx]:
                ctx.see('history_item_kind', 'bare-unknown' if (x == 'zz 99' or x == ('zz 99', 'zz 98')) else 'name-or-object')
            if kind not in s0:
                if h1[idx] != h0[idx]:
                    self.violation('history-changed:%s:no-short-items:%s' % (kind, label), 'history %s requests %r -> %r although SHORT holds no %ss' % (kind, h0[idx], h1[idx], kind))
            else:
                want = s0[kind] if kind != 'generator' else dedupe([b for b, n in s0[kind]])
                if kind == 'generator' and any(isinstance(x, tuple) for x in h1[idx]):
                    self.violation('history-generator-holds-generators:' + label,
                                   'history_generator holds generator objects %r; it is documented to hold the blocks of the generators %r' % (h1[idx], want))
                elif kind == 'generator':
                    # blocks of SHORT generators that the conversion deleted may or may not be kept
                    alive = set((x[1], x[2]) for x in got)
                    need = dedupe([b for b, n in s0[kind] if (b, n) in alive])
                    have = list(h1[idx])
                    if not set(need) <= set(have) or any(b not in want for b in have) or len(set(have)) != len(have):
                        self.violation('history-from-short:generator:' + label, 'history generator blocks %r, SHORT held the generators %r' % (have, s0[kind]))
                elif list(h1[idx]) != list(want):
                    self.violation('history-from-short:%s:%s' % (kind, label), 'history %s requests %r, SHORT held %r' % (kind, h1[idx], s0[kind]))
        return True

    def to_autough2(self, dat, call, label):
        ctx = self.ctx
        T = R.t2grids
        opt0 = [int(x) for x in dat.parameter['option']]
        g0 = grid_snapshot(dat)
        gens0 = gen_snapshot(dat)
        h_objs = ([b for b in dat.history_block if isinstance(b, T.t2block)],
                  [k for k in dat.history_connection if isinstance(k, T.t2connection)],
                  [b for b in dat.history_generator if isinstance(b, T.t2block)])
        multi0 = bool(dat.multi)
        with ctx.guard(self.case, where=label) as g:
            if call[0] == 'type':
                silently(setattr, dat, 'type', 'AUTOUGH2')
                sim, eos = 'AUTOUGH2.2', 'EW'
            else:
                kw = call[1]
                sim, eos = kw.get('simulator', 'AUTOUGH2.2'), kw.get('eos', 'EW')
                silently(dat.convert_to_AUTOUGH2, warn=False, MP=kw.get('MP', False), simulator=sim, eos=eos)
        if g.raised is not None:
            self.bad = True
            return
        ctx.count('conversions')
        ctx.see('conversion_call', label)
        for i, d in enumerate(opt0[1:25]):
            ctx.see('mop_digit', '%d=%d' % (i + 1, d))
        if dat.type != 'AUTOUGH2' or not dat.simulator.startswith(sim) or not dat.simulator.rstrip().endswith(eos):
            self.violation('not-autough2:type:' + label, 'type %r, simulator %r after conversion with simulator=%r eos=%r' % (dat.type, dat.simulator, sim, eos))
        if dat.solver:
            self.violation('still-tough2:solver:' + label, 'solver %r after the conversion' % (dat.solver,))
        if not dat.lineq or 'type' not in dat.lineq:
            self.violation('not-autough2:lineq:' + label, 'no linear solver section after the conversion: %r' % (dat.lineq,))
        if dat.history_block or dat.history_connection or dat.history_generator:
            self.violation('still-tough2:history:' + label, 'history lists not emptied: %r' % (hist_names(dat),))
        if multi0 and (not dat.multi or dat.multi.get('eos') != eos):
            self.violation('not-autough2:eos-name:' + label, 'multi %r does not name the EOS %r' % (dat.multi, eos))
        ctx.count('generator_lists_judged')
        got = gen_snapshot(dat)
        if got != gens0:
            a, b = first_difference(gens0, got)
            self.violation('generators-changed:' + label, 'generators differ: before %r, after %r' % (a and a[1:], b and b[1:]))
        self.judge_lookup(dat, label)
        self.judge_grid(g0, grid_snapshot(dat), opt0, label)
        ctx.count('history_judged')
        s = dat.short_output or {}
        for x in h_objs[0]:
            ctx.see('history_item_kind', 'object')
        want_b = [b.name for b in h_objs[0]]
        got_b = [b.name if not isinstance(b, str) else b for b in s.get('block', [])]
        if [n for n in got_b if n in want_b] != want_b or any(n == 'zz 99' for n in got_b):
            self.violation('short-from-history:block:' + label, 'SHORT blocks %r, history blocks (objects) were %r' % (got_b, want_b))
        want_c = [(k.block[0].name, k.block[1].name) for k in h_objs[1]]
        got_c = [(k.block[0].name, k.block[1].name) if not isinstance(k, tuple) else k for k in s.get('connection', [])]
        if [n for n in got_c if n in want_c] != want_c:
            self.violation('short-from-history:connection:' + label, 'SHORT connections %r, history connections (objects) were %r' % (got_c, want_c))
        want_g = []
        for b in h_objs[2]:
            for gg in dat.generatorlist:
                if gg.block == b.name and (gg.block, gg.name) not in want_g:
                    want_g.append((gg.block, gg.name))
        got_g = [(x.block, x.name) if not isinstance(x, tuple) else x for x in s.get('generator', [])]
        if sorted(set(got_g)) != sorted(set(want_g)):
            self.violation('short-from-history:generator:' + label, 'SHORT generators %r; history generator blocks were %r, holding the generators %r' % (got_g, [b.name for b in h_objs[2]], want_g))
        return True

    def roundtrip(self, dat, target, label):
        """Write the converted model, scan the text, read it back, compare."""
        ctx = self.ctx
        t2d = R.t2data
        base = os.path.join(ctx.tmp, 'c20_b')
        m1 = c01.model_of(dat)
        with ctx.guard(self.case, where='write:' + label) as g:
            silently(dat.write, base + '.dat')
        if g.raised is not None:
            self.bad = True
            return
        keys, multi = scan_keywords(base + '.dat')
        ctx.count('file_scans')
        if target == 'TOUGH2':
            extra = [k for k in keys if k in ('SIMUL', 'LINEQ', 'SHORT')]
            if extra:
                self.violation('file-still-autough2:%s:%s' % ('+'.join(extra), label), 'the written TOUGH2 file holds section(s) %r' % (extra,))
            if multi is not None and any(ch.isalpha() for ch in multi):
                self.violation('file-still-autough2:eos-name:' + label, 'the MULTI record of the written TOUGH2 file holds letters: %r' % (multi,))
        else:
            missing = [k for k in ('SIMUL', 'LINEQ') if k not in keys]
            extra = [k for k in keys if k in ('SOLVR', 'FOFT', 'COFT', 'GOFT')]
            if missing:
                self.violation('file-not-autough2:missing-%s:%s' % ('+'.join(missing), label), 'the written AUTOUGH2 file lacks section(s) %r' % (missing,))
            if extra:
                self.violation('file-still-tough2:%s:%s' % ('+'.join(extra), label), 'the written AUTOUGH2 file holds section(s) %r' % (extra,))
        with ctx.guard(self.case, where='read:' + label) as g:
            dat2 = silently(t2d.t2data, base + '.dat')
        if g.raised is not None:
            self.bad = True
            return
        ctx.count('roundtrips')
        m2 = c01.model_of(dat2)
        for m in (m1, m2):
            m.pop('param.diff0', None)
        # unknown bare names are dropped by the reader with a message (documented): compare without them
        for k in ('history_block', 'history_connection', 'history_generator'):
            m1[k] = [x for x in m1[k] if x != 'zz 99' and x != ['zz 99', 'zz 98']]
        d = c01.diff_real(m1, m2)
        for sec, field, what in d[:1]:
            self.violation('roundtrip:%s:%s:%s' % (sec, field, label), 'converted model vs the model read back from its file: %s (+%d more)' % (what, len(d) - 1))
        if dat2.type != target:
            self.violation('roundtrip:flavour:' + label, 'the file of the converted model reads back as %r' % (dat2.type,))
        for f in (base + '.dat',):
            if os.path.exists(f):
                os.remove(f)


def permute_front_sections(path, rng):
    """Rewrites a data file with the sections in front of the mesh (ROCKS, PARAM, MOMOP, START, NOVER, RPCAP, LINEQ,
    SOLVR, MULTI, TIMES, SELEC, DIFFU) in a random order; SIMUL stays first, everything from ELEME on stays as it is
    (the reader resolves SHORT / FOFT / COFT / GOFT items against the grid while it reads).  Own splitter: a section
    runs from its keyword line to the next keyword line.  Returns the first three keywords of the new file."""
    front = ('ROCKS', 'PARAM', 'MOMOP', 'START', 'NOVER', 'RPCAP', 'LINEQ', 'SOLVR', 'MULTI', 'TIMES', 'SELEC', 'DIFFU')
    with open(path) as f:
        lines = f.read().split('\n')
    starts = [i for i, l in enumerate(lines) if i > 0 and l[:5].rstrip() in c01.SECTION_KEYS]
    if not starts:
        return None
    chunks = [(lines[a][:5].rstrip(), lines[a:b]) for a, b in zip(starts, starts[1:] + [len(lines)])]
    head = [ch for ch in chunks if ch[0] in front]
    k = next((i for i, ch in enumerate(chunks) if ch[0] not in front and ch[0] != 'SIMUL'), len(chunks))
    if len(head) < 2 or any(ch[0] in front for ch in chunks[k:]):
        return None
    simul = [ch for ch in chunks[:k] if ch[0] == 'SIMUL']
    rng.shuffle(head)
    new = simul + head + chunks[k:]
    out = lines[:starts[0]]
    for _, body in new:
        out += body
    with open(path, 'w') as f:
        f.write('\n'.join(out))
    return [ch[0] for ch in new[:3]]


def dedupe(lst):
    out = []
    for x in lst:
        if x not in out:
            out.append(x)
    return out


def first_difference(a, b):
    for x, y in zip(a, b):
        if x != y:
            return x, y
    if len(a) != len(b):
        return (a[len(b)] if len(a) > len(b) else None), (b[len(a)] if len(b) > len(a) else None)
    return None, None


def model_settings(dat):
    """What a conversion sets in a model, as plain values (nothing shared with the model)."""
    def plain(d):
        return sorted((k, repr(v)) for k, v in d.items()) if isinstance(d, dict) else repr(d)
    return (dat.type, dat.simulator, plain(dat.lineq), plain(dat.solver), plain(dat.multi), [int(x) for x in dat.parameter['option']],
                 [t[1:] for t in gen_snapshot(dat)], sorted(dat.generator.keys()), [(r.name, [float(x) for x in r.conductivity] if isinstance(r.conductivity, (list, tuple, np.ndarray)) else r.conductivity) for r in dat.grid.rocktypelist])


BYSTANDER = {}


def run_conversion(ctx, c, bystander=True):
    if 'first' in c:
        # replay of a pair: the earlier conversion, then the one after which the earlier model had changed
        BYSTANDER.clear()
        run_conversion(ctx, c['first'])
        run_conversion(ctx, c['second'])
        return
    case = {'kind': 'convert', 'descriptor': c}
    cv = Conv(ctx, c, case)
    dat = cv.prepare()
    if dat is None:
        return
    call = c['call']
    ngen = len(c['generators'])
    nontrivial = ngen >= 2 or bool(c['short']) or bool(c['history_block'])
    if c['flavour'] == 'AUTOUGH2':
        label = 'to-TOUGH2:' + ('type-setter' if call[0] == 'type' else ('MP' if call[1].get('MP') else 'plain'))
        ok = cv.to_tough2(dat, call, label)
        if ok and not cv.bad:
            cv.roundtrip(dat, 'TOUGH2', label)
        if ok and not cv.bad and call[0] == 'both':
            lab2 = 'to-AUTOUGH2:after-to-TOUGH2'
            ok = cv.to_autough2(dat, ('convert_to_AUTOUGH2', {}), lab2)
            if ok and not cv.bad:
                cv.roundtrip(dat, 'AUTOUGH2', lab2)
    else:
        label = 'to-AUTOUGH2:' + ('type-setter' if call[0] == 'type' else ('MP' if call[1].get('MP') else 'plain'))
        ok = cv.to_autough2(dat, call, label)
        if ok and not cv.bad:
            cv.roundtrip(dat, 'AUTOUGH2', label)
        if ok and not cv.bad and call[0] == 'both':
            lab2 = 'to-TOUGH2:after-to-AUTOUGH2'
            ok = cv.to_tough2(dat, ('convert_to_TOUGH2', {'MP': False}), lab2)
            if ok and not cv.bad:
                cv.roundtrip(dat, 'TOUGH2', lab2)
    if not cv.bad:
        # an earlier converted model that is still around: converting another model must leave it alone
        prev = BYSTANDER.get('model')
        if prev is not None:
            ctx.count('earlier_converted_models_rechecked')
            now = model_settings(prev[0])
            if now != prev[1]:
                ctx.violation('conversion-changes-another-model:' + label, 'a model converted earlier now holds %r, it held %r before this conversion of a different model' % first_difference(now, prev[1]), {'kind': 'convert', 'descriptor': {'first': prev[2], 'second': c}})
        BYSTANDER['model'] = (dat, model_settings(dat), c)
    ctx.evaluated()
    ctx.case(('convert', repr(sorted((k, repr(v)) for k, v in c.items()))), nontrivial=nontrivial, sample=(nontrivial and len(ctx.samples) < 2))


# ---------------------------------------------------------------- export cases

EXPORT_TYPES = ['MASS', 'HEAT', 'COM1', 'COM2', 'WATE', 'AIR ', 'DELV', 'DELG', 'DELS', 'DELT', 'DELW', 'RECH', 'XINJ', 'MASD',
                'DMAK', 'TMAK', 'FINJ', 'PINJ', 'RINJ', 'IMAK']
EOS_NAMES = {'W': 'w', 'EW': 'we', 'EWC': 'wce', 'EWAV': 'wae', 'EWT': 'we', 'EWTD': 'we'}


def gen_export_case(rng):
    nx, ny, nz = rng.randint(1, 4), rng.randint(1, 3), rng.randint(1, 4)
    c = {'dx': [float(rng.choice([10, 20, 50])) for _ in range(nx)], 'dy': [float(rng.choice([10, 30])) for _ in range(ny)],
         'dz': [float(rng.choice([5, 10, 25])) for _ in range(nz)], 'atmos_type': rng.choice([0, 1, 2]), 'convention': rng.choice([0, 1, 2]),
         'block_order': rng.choice([None, 'layer_column', 'dmplex']), 'nrocks': rng.randint(1, 4)}
    ncells = nx * ny * nz
    c['rock_of'] = [rng.randrange(c['nrocks']) for _ in range(ncells)]
    # the threshold is an argument of json(): the geometry's own atmosphere volume is something else and may differ from it;
    # block volumes on both sides of the threshold, also between the two
    # (atmosphere blocks themselves must stay boundary blocks: with atmosphere blocks present their volume is kept at or
    # above the threshold)
    if c['atmos_type'] == 2:
        c['atmos_volume'] = rng.choice([1e25, 1e25, 1e20, 1e30])
        c['geo_atmosphere_volume'] = rng.choice([None, None, 1e22, 1e27])
    else:
        c['atmos_volume'] = rng.choice([1e25, 1e25, 1e20])
        c['geo_atmosphere_volume'] = rng.choice([None, None, 1e27])
    c['boundary'] = dict((str(rng.randrange(ncells)), rng.choice([0.0, 1e25, 1e30, 2e25, 1e22, 1e27, c['atmos_volume']]))
                         for _ in range(rng.choice([0, 0, 1, 2, 3])))
    route = rng.choice(['explicit', 'index', 'multi', 'simulator', 'simulator+multi-without-eos'])
    eos = rng.choice(sorted(EOS_NAMES))
    if route == 'index':
        eos = rng.choice(['EW', 'EWC', 'EWAV'])
    if eos == 'EWTD':
        eos = 'EWT'
    c['eos_route'], c['eos'] = route, eos
    c['simulator_prefix'] = rng.choice(['AUTOUGH2.2', 'AUTOUGH2  ', 'MULKOM    ', 'AUTOUGH2.2'])
    gens = []
    names = set()
    for _ in range(rng.choice([0, 1, 2, 4, 7])):
        t = rng.choice(EXPORT_TYPES)
        where = rng.random()
        g = {'type': t, 'cell': rng.randrange(ncells) if where < 0.8 else ('atmosphere' if where < 0.9 else 'unknown'),
             'name': rng.choice(['', 'wel%2d' % rng.randint(1, 9), 'inj%2d' % rng.randint(1, 3)]),
             'gx': rng.choice([-5.0, 0.0, 2.5, 1e-12]), 'ex': rng.choice([0.0, 8.5e4, 1.2e6]), 'hg': rng.choice([None, -1.0, -2.0, 0.0, 3.0e5]),
             'fg': rng.choice([None, -1.0, 0.0, 1.0, 2.0e5]), 'ltab': rng.choice([None, 0, 1]),
             'table': rng.random() < 0.3}
        if t in ('MASS', 'HEAT', 'COM1', 'COM2', 'WATE', 'AIR ', 'MASD', 'DELV', 'DELG', 'DELS', 'DELT', 'DELW', 'DMAK', 'RECH', 'IMAK', 'XINJ',
                 'FINJ', 'PINJ', 'RINJ'):
            if g['hg'] is None and t in ('FINJ', 'PINJ', 'RINJ', 'IMAK', 'XINJ'):
                g['hg'] = 1.0e5
            if g['fg'] is None and t in ('IMAK', 'XINJ', 'FINJ', 'PINJ', 'RINJ', 'DELV'):
                g['fg'] = 1.0
        if t == 'TMAK':
            g['hg'] = rng.choice([-1.0, -2.0])
            g['cell'] = rng.randrange(ncells)
        if t == 'DELV' and g['ltab'] is not None and g['ltab'] > 1:
            g['ltab'] = 1
        gens.append(g)
    c['generators'] = gens
    c['first_cell_generator'] = rng.random() < 0.5
    if c['first_cell_generator']:
        gens.insert(0, {'type': 'MASS', 'cell': 0, 'name': 'frs 1', 'gx': 1.5, 'ex': 8.5e4, 'hg': None, 'fg': None, 'ltab': None, 'table': False})
    # the model as a user normally has it: read from a data file (blocks then carry nothing but what the file records),
    # not the grid object fromgeo() just built
    c['via_file'] = rng.choice([False, True, True])
    return c


def build_export(c):
    mg, t2g, t2d = R.mulgrids, R.t2grids, R.t2data
    kw = {}
    if c['block_order']:
        kw['block_order'] = c['block_order']
    geo = mg.mulgrid().rectangular(c['dx'], c['dy'], c['dz'], atmos_type=c['atmos_type'], convention=c['convention'], **kw)
    if c.get('geo_atmosphere_volume') is not None:
        geo.atmosphere_volume = c['geo_atmosphere_volume']
    dat = t2d.t2data()
    dat.title = 'export case'
    dat.grid = t2g.t2grid().fromgeo(geo)
    rocks = []
    for i in range(c['nrocks']):
        rt = t2g.rocktype('rok%2d' % i, 0, 2500.0 + i, 0.1, [1e-14, 1e-14, 1e-15], 2.5, 900.0)
        dat.grid.add_rocktype(rt)
        rocks.append(rt)
    natm = geo.num_atmosphere_blocks
    under = geo.block_name_list[natm:]
    # an independent cell numbering: position among the non-atmosphere blocks in the geometry's own order
    cell_of = dict((n, i) for i, n in enumerate(under))
    # rock assignment by position in the t2grid's own block list (which may be ordered differently)
    gridorder = [b.name for b in dat.grid.blocklist if b.name in cell_of]
    for i, n in enumerate(gridorder):
        dat.grid.block[n].rocktype = rocks[c['rock_of'][i % len(c['rock_of'])]]
    for k, v in c['boundary'].items():
        n = gridorder[int(k) % len(gridorder)]
        dat.grid.block[n].volume = v
    for n in geo.block_name_list[:natm]:
        dat.grid.block[n].rocktype = rocks[0]
    dat.parameter['default_incons'] = [1.0e5, 20.0, 0.0, None] if c['eos'] in ('EWC', 'EWAV', 'EWT') else [1.0e5, 20.0, None, None]
    dat.parameter['option'] = np.zeros(25, np.int8)
    dat.parameter['gravity'] = 9.8
    route, eos = c['eos_route'], c['eos']
    kwargs = {}
    if route == 'explicit':
        kwargs['eos'] = eos
    elif route == 'index':
        kwargs['eos'] = {'EW': 1, 'EWC': 2, 'EWAV': 4}[eos]
    elif route == 'multi':
        dat.multi = {'num_components': 1, 'num_equations': 2, 'num_phases': 2, 'num_secondary_parameters': 6, 'eos': eos}
        dat.simulator = 'AUTOUGH2.2' + eos
    elif route == 'simulator':
        dat.simulator = c['simulator_prefix'] + eos
    else:
        dat.simulator = c['simulator_prefix'] + eos
        dat.multi = {'num_components': 1, 'num_equations': 2, 'num_phases': 2, 'num_secondary_parameters': 6}
    expected_cell = []
    for i, g in enumerate(c['generators']):
        if g['cell'] == 'atmosphere':
            if natm:
                blk, cell = geo.block_name_list[0], None
            else:
                blk, cell = under[0], 0
        elif g['cell'] == 'unknown':
            blk, cell = 'zz 99', None
        else:
            blk = under[g['cell'] % len(under)]
            cell = cell_of[blk]
        gen = t2d.t2generator(name=g['name'], block=blk, type=g['type'], gx=g['gx'], ex=g['ex'], hg=g['hg'], fg=g['fg'], ltab=g['ltab'])
        if g['table'] and g['type'] != 'TMAK':
            gen.time, gen.rate = [0.0, 1.0e6], [g['gx'], g['gx'] * 0.5]
            gen.ltab = 2 if g['type'] not in ('DELG', 'DELS', 'DELT', 'DELW', 'DMAK', 'DELV') else gen.ltab
        dat.add_generator(gen)
        expected_cell.append((g['type'], blk, cell))
    return geo, dat, kwargs, cell_of, expected_cell


def run_export(ctx, c):
    case = {'kind': 'export', 'descriptor': c}
    try:
        geo, dat, kwargs, cell_of, expected_cell = build_export(c)
    except Exception as e:
        import traceback
        raise HarnessError('building the export case failed: %s\n%s' % (e, traceback.format_exc()))
    route = c['eos_route']
    if c.get('via_file'):
        try:
            path = os.path.join(ctx.tmp, 'export_model.dat')
            dat.write(path)
            dat = R.t2data.t2data(path)
        except Exception as e:
            import traceback
            raise HarnessError('writing / reading the export model failed: %s\n%s' % (e, traceback.format_exc()))
        # the rock types of the blocks are compared by name below: nothing else of the in-memory model is used
    ctx.see('model_from', 'file' if c.get('via_file') else 'memory')
    ctx.see('eos_route', route)
    ctx.see('atmosphere_type', str(c['atmos_type']))
    ctx.see('block_order', str(c['block_order']))
    av = c['atmos_volume']
    # EOS detection on its own (eos_json), then the full export
    with ctx.guard(case, where='eos:' + route) as g:
        ej, tracer = dat.eos_json(kwargs.get('eos'))
    ctx.count('eos_detections')
    if g.raised is None:
        got = (ej.get('eos') or {}).get('name')
        if got != EOS_NAMES[c['eos']]:
            ctx.violation('eos-misrecognised:' + route, 'EOS %r given via %s (simulator %r, multi %r) exported as %r' % (c['eos'], route, dat.simulator, dat.multi, got), case)
    with ctx.guard(case, where='json:' + (route if route.startswith('simulator') else 'eos-known')) as g:
        j = dat.json(geo, 'mesh.exo', atmos_volume=av, **kwargs)
    nontrivial = c['nrocks'] >= 2 and len(c['generators']) >= 1
    ctx.evaluated()
    ctx.case(('export', repr(sorted((k, repr(v)) for k, v in c.items()))), nontrivial=nontrivial, sample=(nontrivial and len(ctx.samples) < 2))
    if g.raised is not None:
        return
    ctx.count('exports')
    # rock partition
    ctx.count('rock_partitions_judged')
    types = j['rock']['types']
    where = {}
    for rt in types:
        for cell in rt['cells']:
            where.setdefault(cell, []).append(rt['name'])
    for b in dat.grid.blocklist:
        interior = 0.0 < b.volume < av
        if b.name not in cell_of:
            continue            # atmosphere block
        cell = cell_of[b.name]
        names = where.get(cell, [])
        if interior:
            if names != [b.rocktype.name]:
                ctx.violation('rock-partition:' + ('missing' if not names else ('twice' if len(names) > 1 else 'wrong-rock')),
                              'block %s (cell %d, rock %s) is in the cell lists of %r' % (b.name, cell, b.rocktype.name, names), case)
                break
        elif names:
            ctx.see('boundary_kind', 'zero' if b.volume == 0 else 'huge')
            ctx.violation('rock-partition:boundary-block-listed', 'boundary block %s (volume %r) is in the cell lists of %r' % (b.name, b.volume, names), case)
            break
        else:
            ctx.see('boundary_kind', 'zero' if b.volume == 0 else 'huge')
    bad_cells = [cell for cell in where if not isinstance(cell, int) or cell < 0 or cell >= len(cell_of)]
    if bad_cells:
        ctx.violation('rock-partition:cell-out-of-range', 'cell indices %r are not cells of the mesh (%d cells)' % (bad_cells[:5], len(cell_of)), case)
    # sources
    ctx.count('sources_judged')
    sources = j.get('source', [])
    want = [e for e in expected_cell if e[0] != 'TMAK']
    if len(sources) != len(want):
        ctx.violation('source-count', '%d sources for %d non-group generators (%r)' % (len(sources), len(want), [e[0] for e in expected_cell]), case)
        return
    for s, (t, blk, cell) in zip(sources, want):
        ctx.see('source_cell_kind', 'none' if cell is None else ('zero' if cell == 0 else 'positive'))
        if s.get('cell', 'absent') != cell:
            ctx.violation('source-cell:' + ('zero' if cell == 0 else ('none' if cell is None else 'positive')),
                          'generator of type %s in block %r exported with cell %r, expected %r' % (t, blk, s.get('cell', 'absent'), cell), case)
            return
    names = [s.get('name') for s in sources if s.get('name')]
    if len(set(names)) != len(names):
        ctx.violation('source-names-not-unique', 'exported source names %r' % (names,), case)


def load_real(ctx, main, mesh):
    import shutil
    t2d = R.t2data
    d = os.path.join(REPO, 'tests', 'data')
    src = os.path.join(d, main)
    work = os.path.join(ctx.tmp, 'real')
    os.makedirs(work, exist_ok=True)
    local = os.path.join(work, os.path.basename(main))
    shutil.copy(src, local)
    pd = os.path.splitext(src)[0] + '.pdat'
    if os.path.exists(pd):
        shutil.copy(pd, os.path.splitext(local)[0] + '.pdat')
    # private copies of the mesh files too: a later write() would write to the names the model was read with
    if mesh is None:
        mf = ''
    elif isinstance(mesh, str):
        mf = os.path.join(work, os.path.basename(mesh))
        shutil.copy(os.path.join(d, mesh), mf)
    else:
        mf = [os.path.join(work, os.path.basename(x)) for x in mesh]
        for x, y in zip(mesh, mf):
            shutil.copy(os.path.join(d, x), y)
    dat = silently(t2d.t2data, local, meshfilename=mf)
    dat.meshfilename = ''            # from here on the mesh lives in the main file
    return dat


def run_real(ctx, spec):
    main, mesh = spec['file'], spec['mesh']
    probe = load_real(ctx, main, mesh)
    aut = probe.type == 'AUTOUGH2'
    if aut:
        calls = [('convert_to_TOUGH2', {'MP': False}), ('convert_to_TOUGH2', {'MP': True}), ('type', 'TOUGH2'), ('both', {'MP': False})]
    else:
        calls = [('convert_to_AUTOUGH2', {'MP': False, 'simulator': 'AUTOUGH2.2', 'eos': 'EW'}),
                 ('convert_to_AUTOUGH2', {'MP': True, 'simulator': 'AUTOUGH2', 'eos': 'EWAV'}), ('type', 'AUTOUGH2')]
    for call in calls:
        c = {'flavour': probe.type, 'dup_key': False, 'call': call, 'real_file': main}
        case = {'kind': 'real', 'file': main, 'mesh': mesh, 'call': list(call)}
        cv = Conv(ctx, c, case)
        with ctx.guard(case, where='read-real') as g:
            dat = load_real(ctx, main, mesh)
        if g.raised is not None:
            continue
        # a SHORT section and history requests, if the file has none (first / last blocks, first connection, first generator)
        if aut and not dat.short_output and dat.grid.num_blocks >= 2:
            dat.short_output = {'frequency': 1, 'block': [dat.grid.blocklist[0], dat.grid.blocklist[-1]]}
            if dat.grid.connectionlist:
                dat.short_output['connection'] = [dat.grid.connectionlist[0]]
            if dat.generatorlist and call[0] != 'type':
                dat.short_output['generator'] = [dat.generatorlist[0], dat.generatorlist[-1]]
        if not aut and not dat.history_block and dat.grid.num_blocks >= 2:
            dat.history_block = [dat.grid.blocklist[1]]
            if dat.generatorlist:
                dat.history_generator = [dat.grid.block[dat.generatorlist[0].block]] if dat.generatorlist[0].block in dat.grid.block else []
        ctx.count('real_file_conversions')
        ctx.see('real_file', '%s: %s, %d generators of types %s' % (main, dat.type, len(dat.generatorlist), ' '.join(sorted(set(g.type for g in dat.generatorlist)))))
        if aut:
            label = 'to-TOUGH2:' + ('type-setter' if call[0] == 'type' else ('MP' if call[1].get('MP') else 'plain'))
            ok = cv.to_tough2(dat, call, label)
            if ok and not cv.bad:
                cv.roundtrip(dat, 'TOUGH2', label)
            if ok and not cv.bad and call[0] == 'both':
                lab2 = 'to-AUTOUGH2:after-to-TOUGH2'
                ok = cv.to_autough2(dat, ('convert_to_AUTOUGH2', {}), lab2)
                if ok and not cv.bad:
                    cv.roundtrip(dat, 'AUTOUGH2', lab2)
        else:
            label = 'to-AUTOUGH2:' + ('type-setter' if call[0] == 'type' else ('MP' if call[1].get('MP') else 'plain'))
            ok = cv.to_autough2(dat, call, label)
            if ok and not cv.bad:
                cv.roundtrip(dat, 'AUTOUGH2', label)
        ctx.evaluated()
        ctx.case(('real', main, repr(call)), nontrivial=True, sample=(len(ctx.samples) < 1))


def run_shard(ctx, spec):
    rng = ctx.rng
    if spec['kind'] == 'real':
        run_real(ctx, spec)
        return
    for _ in range(spec['count']):
        if spec['kind'] == 'convert':
            run_conversion(ctx, gen_conv_case(rng))
        else:
            run_export(ctx, gen_export_case(rng))


def replay(ctx, case):
    if case['kind'] == 'real':
        run_real(ctx, {'file': case['file'], 'mesh': case['mesh']})
        return
    if case['kind'] == 'convert':
        c = case['descriptor']
        for d in ([c['first'], c['second']] if 'first' in c else [c]):
            d['call'] = tuple(d['call'])
        run_conversion(ctx, c)
    else:
        run_export(ctx, case['descriptor'])
