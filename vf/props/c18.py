"""C18 -- reverse-engineering a rectangular geometry inverts grid generation.

Monitor shape: inverse-function check.  G -> g = fromgeo(G) [-> data file -> g] ->
(G', m) = g.rectgeo(...): G' must describe the same columns (polygon + surface), the
same layers and the same atmosphere arrangement as G (compared as sets through
positions, never by list index), and fromgeo(G', m) must reproduce g's block names,
volumes and connection signature (the C09 signature).
"""
import math
import os

from vf.core import HarnessError
from vf.gen import geos
from vf.props.c09 import signature
from vf.repo import R

INFO = {
    'rule': ('cases = rectangular geometries 1..12 x 1..12 x 2..14 blocks with random spacings (at most one horizontal direction with a '
             'single block, either one), random origin, rotation in {0, +-17, 30, 90, 123} (permeability direction 1 along the geometry\'s '
             'own first axis), atmosphere type 0/1/2, flat / stepped / sloping surfaces leaving the bottom layer complete and at least one '
             'full-height column, 4 conventions, atmosphere volumes 1e25 / 1e50 / 0 (inactive), optional data-file round trip. '
             'Distinct = distinct descriptor; non-trivial = >= 2 layers cut by the surface or rotation != 0.'),
    'require': {
        'quick': {'counters': {'reconstructions': 500, 'geometries_compared': 450, 'grids_compared': 450, 'file_roundtrips': 100,
                               'two_dimensional_cases': 60},
                  'seen': {'atmosphere_type': 3, 'surface_kind': 3}, 'nontrivial': 250},
        'thorough': {'counters': {'reconstructions': 9000, 'geometries_compared': 8500, 'grids_compared': 8500, 'file_roundtrips': 1800,
                                  'two_dimensional_cases': 700},
                     'seen': {'atmosphere_type': 3, 'surface_kind': 3}, 'nontrivial': 3500},
    },
    'watchdog_s': {'quick': 1200, 'thorough': 5400},
    'assumptions': ['in memory: tolerance 1e-7 x extent (the reconstruction divides volumes by areas and rotates twice)',
                    'after a data-file round trip: the precision of the carrying fields (10.4e volumes/distances, 10.3e centres), '
                    'coordinates kept within +-200 m; the tolerance is computed from those formats, not guessed'],
}


def plan(tier, seed):
    if tier == 'quick':
        return [{'n': 120} for _ in range(6)]
    return [{'n': 800} for _ in range(16)]


def gen_case(rng, k):
    twod = None
    if k % 6 == 0:
        twod = 'x' if (k // 6) % 2 == 0 else 'y'
    nx = 1 if twod == 'x' else rng.randint(2, 12 if k % 5 == 0 else 6)
    ny = 1 if twod == 'y' else rng.randint(2, 12 if k % 7 == 0 else 5)
    nz = rng.randint(2, 14 if k % 4 == 0 else 6)
    viafile = k % 4 == 1
    sp = (5.0, 40.0) if viafile else (10.0, 300.0)
    dx = [round(rng.uniform(*sp), 1) for _ in range(nx)]
    dy = [round(rng.uniform(*sp), 1) for _ in range(ny)]
    dz = [round(rng.uniform(4.0, 20.0) if viafile else rng.uniform(5.0, 100.0), 1) for _ in range(nz)]
    org = [round(rng.uniform(-100, 100), 1), round(rng.uniform(-100, 100), 1), round(rng.uniform(0, 100), 1)] if viafile else \
        [round(rng.uniform(-5000, 5000), 1), round(rng.uniform(-5000, 5000), 1), round(rng.uniform(-500, 1500), 1)]
    if rng.random() < 0.3:
        # centre coordinates that are exactly zero: a column centred on an axis (kept there by any rotation about the
        # origin only if both are zero), a layer centred on elevation zero, or the default origin
        z = rng.randint(0, 3)
        if z == 0:
            org = [0.0, 0.0, 0.0]
        else:
            dx[0], dy[0], dz[0] = float(2 * rng.randint(3, 20)), float(2 * rng.randint(3, 20)), float(2 * rng.randint(2, 9))
            org = [-dx[0] / 2 if z in (1, 3) else org[0], -dy[0] / 2 if z in (1, 3) else org[1], dz[0] / 2 if z in (2, 3) else org[2]]
    rot = rng.choice([0.0, 0.0, 17.0, -17.0, 30.0, 90.0, 123.0, 12.3456, -33.337, round(rng.uniform(-179.0, 179.0), 4)])  # (angles that are not multiples of 0.01 degree too)
    atm = rng.randint(0, 2)
    conv = rng.randint(0, 3) if not viafile else rng.randint(0, 2)
    if conv == 1 and (nx + 1) * (ny + 1) > 99:
        conv = 0            # convention 1 has two-digit node/column names
    surf_kind = rng.choice(['flat', 'stepped', 'sloping', 'stepped', 'raised'])
    atmvol = rng.choice([1e25, 1e25, 1e50, 0.0]) if atm != 2 else 1e25
    return {'dx': dx, 'dy': dy, 'dz': dz, 'origin': org, 'rotation': rot, 'atmos_type': atm, 'convention': conv,
            'surface_kind': surf_kind, 'atmosphere_volume': atmvol, 'via_file': viafile, 'seed': rng.randint(0, 10 ** 9),
            'rename': rng.random() < 0.5,
            # optional arguments of rectgeo(): how the reconstructed geometry names and orders its items, and the origin block
            # given by the caller instead of being searched for (none of them may change what is reconstructed)
            'options': {} if k % 3 else dict(x for x in [('block_order', rng.choice(['layer_column', 'dmplex'])), ('justify', 'l'), ('chars', 'qrstuvwxyz' + 'klmnop'),
                                                           ('spaces', False), ('origin_block', True)] if rng.random() < 0.5)}


def build_geo(case):
    import random
    mg = R.mulgrids
    rng = random.Random(case['seed'])
    geo = mg.mulgrid().rectangular(case['dx'], case['dy'], case['dz'], convention=case['convention'], atmos_type=case['atmos_type'],
                                   origin=case['origin'])
    nz = len(case['dz'])
    lays = geo.layerlist
    ncut = 0
    if case['surface_kind'] != 'flat' and nz >= 2:
        cols = geo.columnlist
        full = rng.randrange(len(cols))                 # at least one full-height column
        nx = len(case['dx'])
        for i, col in enumerate(cols):
            if i == full:
                continue
            if case['surface_kind'] == 'raised' and rng.random() < 0.5:
                # ground above the top of the top layer (the top block of such a column is taller than its layer)
                col.surface = lays[0].bottom + round(rng.uniform(0.05, 0.6) * case['dz'][0], 2)
                continue
            if case['surface_kind'] in ('stepped', 'raised'):
                if rng.random() < 0.5:
                    continue
                k = rng.randint(1, nz - 1)              # surface in layer k (never the bottom layer's bottom)
            else:
                k = 1 + int((i % nx) * (nz - 1) / max(1, nx))
                k = max(1, min(nz - 1, k))
            lay = lays[k]
            frac = rng.choice([0.3, 0.5, 0.75, 1.0])    # 1.0 = exactly on the layer top
            # exactly on the layer top means the top elevation itself (not a rounding sliver)
            col.surface = lay.top if frac == 1.0 else lay.bottom + frac * (lay.top - lay.bottom)
            if col.surface < lays[0].bottom - 1e-9:
                ncut += 1
        geos.refresh(geo)
    if case['rotation']:
        geo.rotate(case['rotation'])
        geo.permeability_angle = -case['rotation']
    geo.atmosphere_volume = case['atmosphere_volume']
    return geo, ncut


def poly_of(col):
    return [(n.pos[0], n.pos[1]) for n in col.node]


def compare_geometries(ctx, G, G2, case, tolh, tolz, label):
    def V(key, what):
        ctx.violation('%s:%s' % (key, label), what, case)
        return False
    if any(not all(math.isfinite(x) for x in n.pos) for n in G2.nodelist):
        return V('geometry-not-finite', 'reconstructed geometry has non-finite node positions (%d x %d x %d blocks)' % (
            len(case['dx']), len(case['dy']), len(case['dz'])))
    if G2.atmosphere_type != G.atmosphere_type:
        return V('atmosphere-type', 'atmosphere type %r, original %r' % (G2.atmosphere_type, G.atmosphere_type))
    if G2.num_columns != G.num_columns:
        return V('column-count', '%d columns reconstructed, original has %d' % (G2.num_columns, G.num_columns))
    # layers as a set of (bottom, top)
    l1 = sorted((l.bottom, l.top) for l in G.layerlist[1:])
    l2 = sorted((l.bottom, l.top) for l in G2.layerlist[1:])
    if len(l1) != len(l2) or any(abs(a[0] - b[0]) > tolz or abs(a[1] - b[1]) > tolz for a, b in zip(l1, l2)):
        return V('layers', 'layers (bottom, top) %r, original %r' % (l2[:4], l1[:4]))
    # the surface layer: the top of the model (it has no thickness; everything above the ground hangs on its elevation:
    # atmosphere block centres, the elevation a geometry file records)
    a1, a2 = G.layerlist[0], G2.layerlist[0]
    if any(abs(x - y) > tolz for x, y in ((a1.bottom, a2.bottom), (a1.top, a2.top), (a1.centre, a2.centre))):
        return V('surface-layer-elevation', 'surface layer (bottom, centre, top) %r, original %r' % ((a2.bottom, a2.centre, a2.top), (a1.bottom, a1.centre, a1.top)))
    # columns matched by centre
    unmatched = list(G2.columnlist)
    for c in G.columnlist:
        best = min(unmatched, key=lambda d: (d.centre[0] - c.centre[0]) ** 2 + (d.centre[1] - c.centre[1]) ** 2)
        if math.hypot(best.centre[0] - c.centre[0], best.centre[1] - c.centre[1]) > tolh:
            return V('column-position', 'no reconstructed column at %r (nearest at %r)' % (tuple(c.centre), tuple(best.centre)))
        unmatched.remove(best)
        p1, p2 = poly_of(c), poly_of(best)
        for v in p1:
            if min(math.hypot(v[0] - w[0], v[1] - w[1]) for w in p2) > tolh:
                return V('column-shape', 'column at %r: corner %r missing from the reconstructed column %r' % (tuple(c.centre), v, p2))
        if abs(best.surface - c.surface) > tolz:
            return V('column-surface', 'column at %r: surface %r, original %r' % (tuple(c.centre), best.surface, c.surface))
    return True


def compare_grids(ctx, g, g2, case, rel, label):
    def V(key, what):
        ctx.violation('%s:%s' % (key, label), what, case)
        return False
    b1, c1 = signature(g)
    b2, c2 = signature(g2)
    if set(b1) != set(b2):
        return V('regenerated-block-names', 'blocks only in the original %r, only in the regenerated grid %r' % (
            sorted(set(b1) - set(b2))[:4], sorted(set(b2) - set(b1))[:4]))

    def close(x, y, scale=0.0):
        return abs(x - y) <= rel * max(abs(x), abs(y), scale)
    for n in b1:
        v1, v2 = b1[n][0], b2[n][0]
        if v1 >= 1e25 or v1 <= 0:
            continue
        if not close(v1, v2):
            return V('regenerated-volume', 'block %r volume %r, original %r' % (n, v2, v1))
    if set(c1) != set(c2):
        return V('regenerated-connections', 'pairs only in the original %r, only in the regenerated grid %r' % (
            [sorted(k) for k in list(set(c1) - set(c2))[:3]], [sorted(k) for k in list(set(c2) - set(c1))[:3]]))
    for key in c1:
        a1, d1, dist1, up1, adc1 = c1[key]
        a2, d2, dist2, up2, adc2 = c2[key]
        pair = sorted(key)
        if not close(a1, a2) or d1 != d2:
            return V('regenerated-connection-area-direction', 'pair %r area/direction %r/%r, original %r/%r' % (pair, a2, d2, a1, d1))
        L = max(dist1.values())
        if any(not close(dist1[n], dist2[n], L) for n in dist1):
            return V('regenerated-connection-distances', 'pair %r distances %r, original %r' % (pair, dist2, dist1))
        # which block is the upper one only means something when the line between the centres is
        # clearly inclined; after a file round trip surfaces carry the centre fields' rounding
        significant = (adc1 or 0) > 0.2 and (adc2 or 0) > 0.2 if label.startswith('file') else True
        if up1 != up2 and significant:
            return V('regenerated-connection-orientation', 'pair %r upper block %r, original %r' % (pair, up2, up1))
    return True


def run_case(ctx, case):
    t2g, t2d = R.t2grids, R.t2data
    geo, ncut = build_geo(case)
    g = t2g.t2grid().fromgeo(geo)
    mp_now = {}
    if case.get('rename'):
        # unrelated block names: the returned block map has to carry all the information
        import random
        rr = random.Random(case['seed'] + 1)
        L = 'ABCDEFGHIJKLMNOPQRSTUVWXYZ'
        fresh, mp = set(), {}
        for b in g.blocklist:
            n = '%s%s%s%02d' % (rr.choice(L), rr.choice(L), rr.choice(L), rr.randint(10, 99))
            while n in fresh:
                n = '%s%s%s%02d' % (rr.choice(L), rr.choice(L), rr.choice(L), rr.randint(10, 99))
            fresh.add(n)
            mp[b.name] = n
        mp_now = dict(mp)
        g.rename_blocks(mp)
    label = 'memory'
    extent = max(sum(case['dx']), sum(case['dy']), sum(case['dz']))
    tolh = tolz = 1e-7 * max(extent, 1.0)
    rel = 1e-7
    if case['via_file']:
        label = 'file'
        fn = os.path.join(ctx.tmp, 'c18.dat')
        with ctx.guard(case, where='file-roundtrip') as gd:
            dat = t2d.t2data()
            dat.grid = g
            dat.write(fn)
            g = t2d.t2data(fn).grid
            # (the grid is handed on exactly as the reader built it: a data file does not record which blocks are
            #  atmosphere blocks, and rectgeo() has to manage with the volumes - the harness must not help it)
        if gd.raised is not None:
            return
        ctx.count('file_roundtrips')
        # precision of the carrying fields: centres 10.3e (4 significant digits), distances/volumes 10.4e
        cmax = max(max(abs(c) for c in b.centre) for b in g.blocklist if b.centre is not None)
        # a 10.3e field resolves res = 10^(floor(log10|c|) - 3); each centre coordinate is off by <= res/2.
        # Position: the origin block centre (translation), plus the rotation angle taken from two rounded
        # centres a distance L1 apart, amplified by the lever arm to the farthest corner.
        res = 10.0 ** (math.floor(math.log10(max(cmax, 1e-30))) - 3)
        ec = 0.5 * res
        d1 = case['dx'] if len(case['dx']) > 1 else case['dy']
        L1 = sum(d1) - 0.5 * (d1[0] + d1[-1])
        diag = math.hypot(sum(case['dx']), sum(case['dy']))
        tolh = 1.5 * ec + 3.0 * ec * diag / L1 + 2e-4 * extent
        tolz = 2.0 * ec + 3e-4 * max(case['dz'])
        rel = 5e-3
    twod = len(case['dx']) == 1 or len(case['dy']) == 1
    mech = label + (':single-block-in-direction-1' if len(case['dx']) == 1 else (':single-block-in-direction-2' if len(case['dy']) == 1 else ''))
    if case['atmosphere_volume'] == 0.0:
        mech += ':zero-volume-atmosphere'
    kw = dict(case.get('options') or {})
    if kw.get('origin_block'):
        # the block at the origin of the two horizontal axes in the bottom layer, under its current name
        kw['origin_block'] = mp_now.get(geo.block_name(geo.layerlist[-1].name, geo.columnlist[0].name), geo.block_name(geo.layerlist[-1].name, geo.columnlist[0].name))
    if kw.get('chars') and case['convention'] in (1, 2) and (len(case['dx']) + 1) * (len(case['dy']) + 1) > 99:
        kw.pop('chars')
    for k_ in kw:
        ctx.see('rectgeo_option', k_ if k_ != 'block_order' else 'block_order=%s' % kw[k_])
    def grid_state():
        return ([(b.name, b.volume, None if b.centre is None else tuple(float(x) for x in b.centre), b.rocktype.name) for b in g.blocklist],
                [(k.block[0].name, k.block[1].name, tuple(float(x) for x in k.distance), k.area, k.direction, k.dircos) for k in g.connectionlist])
    before = grid_state()
    with ctx.guard(case, where='rectgeo:' + mech) as gd:
        G2, bm = g.rectgeo(atmos_volume=1e25, convention=case['convention'], atmos_type=case['atmos_type'], **kw)
    if gd.raised is not None:
        return
    # the grid is what the geometry is reconstructed FROM: it is still the same grid afterwards (it is written to a file,
    # reconstructed from again, compared with)
    after = grid_state()
    ctx.count('grids_compared_before_and_after_reconstruction')
    if after != before:
        k_ = next(i for i, (x, y) in enumerate(zip(before[0] + before[1], after[0] + after[1])) if x != y)
        ctx.violation('grid-changed-by-reconstruction:' + mech, 'rectgeo() changed the grid it was called on: %r became %r' % (
            (before[0] + before[1])[k_], (after[0] + after[1])[k_]), case)
        return
    ctx.evaluated()
    ctx.count('reconstructions')
    if twod:
        ctx.count('two_dimensional_cases')
    ctx.see('atmosphere_type', str(case['atmos_type']))
    ctx.see('surface_kind', case['surface_kind'])
    ctx.see('shape_class', '%s x %s x %s' % tuple('1' if n == 1 else ('2-4' if n <= 4 else '5+') for n in (len(case['dx']), len(case['dy']), len(case['dz']))))
    ok = compare_geometries(ctx, geo, G2, case, tolh, tolz, mech)
    ctx.count('geometries_compared')
    if not ok:
        return
    with ctx.guard(case, where='fromgeo-of-reconstruction:' + mech) as gd:
        g2 = t2g.t2grid().fromgeo(G2, bm)
    if gd.raised is not None:
        return
    ctx.count('grids_compared')
    compare_grids(ctx, g, g2, case, rel, mech)


def run_inactive_case(ctx, case):
    """The ground surface given the TOUGH2 way: the grid of the FLAT geometry, with the blocks above the surface moved to
    the end of the block list behind a block of zero volume (everything from the first non-positive volume on is inactive).
    rectgeo(remove_inactive=True) must give the geometry with those surfaces."""
    mg, t2g = R.mulgrids, R.t2grids
    conv = case['convention']
    flat = mg.mulgrid().rectangular(case['dx'], case['dy'], case['dz'], convention=conv, atmos_type=2, origin=case['origin'])
    want = mg.mulgrid().rectangular(case['dx'], case['dy'], case['dz'], convention=conv, atmos_type=2, origin=case['origin'])
    g = t2g.t2grid().fromgeo(flat)
    inactive = []
    for col, wcol, k in zip(flat.columnlist, want.columnlist, case['removed']):
        for lay in flat.layerlist[1:1 + k]:
            inactive.append(flat.block_name(lay.name, col.name))
        wcol.surface = want.layerlist[1 + k].top if k else want.layerlist[0].bottom
        want.set_column_num_layers(wcol)
    want.setup_block_name_index()
    want.setup_block_connection_name_index()
    if not inactive:
        return
    active = [b.name for b in g.blocklist if b.name not in set(inactive)]
    g.reorder(block_names=active + inactive)
    g.block[inactive[0]].volume = case['marker_volume']
    ctx.see('inactive_marker_volume', repr(case['marker_volume']))
    with ctx.guard(case, where='rectgeo:remove_inactive') as gd:
        G2, bm = g.rectgeo(remove_inactive=True, convention=conv, atmos_type=2)
    if gd.raised is not None:
        return
    ctx.evaluated()
    ctx.count('reconstructions_with_inactive_blocks')
    extent = max(sum(case['dx']), sum(case['dy']), sum(case['dz']))
    tol = 1e-7 * max(extent, 1.0)
    if not compare_geometries(ctx, want, G2, case, tol, tol, 'inactive-blocks'):
        return
    if len(G2.block_name_list) != len(active):
        ctx.violation('inactive-blocks:block-count', 'the reconstructed geometry has %d blocks, the grid %d active ones' % (len(G2.block_name_list), len(active)), case)


def gen_inactive_case(rng, k):
    nx, ny, nz = rng.randint(2, 4), rng.randint(2, 4), rng.randint(3, 6)
    dz = sorted([round(rng.uniform(4.0, 40.0), 1) for _ in range(nz)]) if k % 2 else [round(rng.uniform(4.0, 40.0), 1) for _ in range(nz)]
    return {'kind': 'inactive', 'dx': [round(rng.uniform(20, 200), 1) for _ in range(nx)], 'dy': [round(rng.uniform(20, 200), 1) for _ in range(ny)], 'dz': dz,
            'convention': rng.randint(0, 2), 'origin': [round(rng.uniform(-500, 500), 1), round(rng.uniform(-500, 500), 1), round(rng.uniform(0, 300), 1)],
            'removed': [rng.randint(0, nz - 2) for _ in range(nx * ny)], 'marker_volume': rng.choice([0.0, -1.0, 0.0])}


def run_shard(ctx, spec):
    for i in range(max(6, spec['n'] // 10)):
        c = gen_inactive_case(ctx.rng, i)
        run_inactive_case(ctx, c)
        ctx.case(repr(c), nontrivial=len(set(c['removed'])) >= 2)
    for i in range(spec['n']):
        case = gen_case(ctx.rng, ctx.shard * 1000 + i)
        geo, ncut = build_geo(case)
        cut_layers = len(set(round(c.surface, 6) for c in geo.columnlist)) - 1
        run_case(ctx, case)
        ctx.case(repr(case), nontrivial=(cut_layers >= 2 or case['rotation'] != 0), sample=(i < 1))


def replay(ctx, case):
    if case.get('kind') == 'inactive':
        run_inactive_case(ctx, case)
    else:
        run_case(ctx, case)
