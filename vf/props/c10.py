"""C10 -- geometry stays internally consistent under any sequence of edits.

Monitor shape: quiescent-point invariants + partial model.  Every single editing
operation with every column / layer subset as argument, every pair of operations, and
sampled longer sequences are executed on real mulgrid objects (small hand-checkable
bases and shipped geometries); after each public operation returns, the structural
invariants of vf/oracle/geoinv.py are evaluated on the live object.
"""
import os

from vf.core import HarnessError
from vf.gen import geoops, geos
from vf.oracle import geoinv as GI
from vf.repo import R
from vf import contracts

INFO = {
    'rule': ('(a) on five small bases (2x2, 3x2, a refined 2x2 with triangles, a pentagon mesh, a hexagon mesh; one column cut inside a layer, '
             'one exactly on a layer boundary): every single editing operation with every column subset / layer subset x factor 2..4 as '
             'argument, then every pair of operations (second argument over the subsets of the new column set, capped at 256 seeded subsets); '
             '(b) sampled sequences of length 3; (c) random sequences of up to 25 operations on geometries of up to 300 columns incl. shipped '
             'ones, optionally followed by a file round trip; (d) the add_/delete_ primitives, each judged immediately. Distinct = distinct '
             'operation sequence; non-trivial = sequences containing a topology-changing operation.'),
    'require': {
        'quick': {'counters': {'sequences': 3000, 'invariant_evaluations': 4000, 'primitive_evaluations': 30, 'primitive_then_check_fix': 15, 'random_sequences': 10},
                  'seen': {'operation_kinds': 18}, 'nontrivial': 1500},
        'thorough': {'counters': {'sequences': 150000, 'invariant_evaluations': 150000, 'primitive_evaluations': 60, 'primitive_then_check_fix': 20, 'random_sequences': 300},
                     'seen': {'operation_kinds': 20}, 'nontrivial': 80000},
    },
    'exhaustive': {'quick': False, 'thorough': True},
    'exhaustive_note': {'thorough': 'all single operations with every column subset on the five bases, and all pairs with the second argument '
                                    'over every subset of the new column set up to 2^8 (256 seeded subsets beyond); length-3 sequences are sampled '
                                    '(after one refinement there are up to 2^16 subsets), random sequences are sampled',
                        'quick': 'all single operations on the five bases; pairs sampled'},
    'watchdog_s': {'quick': 1500, 'thorough': 7200},
    'assumptions': ['after a primitive (add_/delete_ node, column, connection, layer) the harness refreshes derived data as a careful caller '
                    'would before the next operation, so a primitive\'s omission is reported once, where it happens',
                    'g3 enters only after check(fix=True) + refresh (it is not a valid mesh as shipped)'],
}

TOPOLOGY = ('refine', 'decompose', 'reduce', 'split_column', 'check_fix')


def plan(tier, seed):
    shards = []
    for b in geoops.BASES:
        shards.append({'kind': 'singles', 'base': b})
    if tier == 'quick':
        for b in geoops.BASES:
            shards.append({'kind': 'pairs', 'base': b, 'part': 0, 'parts': 1, 'sample': 250})
        shards.append({'kind': 'triples', 'n': 150})
        shards.append({'kind': 'random', 'n': 12})
        shards.append({'kind': 'primitives'})
        shards.append({'kind': 'shipped-layers'})
        return shards
    for b in geoops.BASES:
        for i in range(6):
            shards.append({'kind': 'pairs', 'base': b, 'part': i, 'parts': 6, 'sample': None})
    for i in range(8):
        shards.append({'kind': 'triples', 'n': 1200})
    for i in range(8):
        shards.append({'kind': 'random', 'n': 40})
    shards.append({'kind': 'primitives'})
    shards.append({'kind': 'shipped-layers'})
    return shards


def opkind(op):
    names = '[by-name]' if op[-1] == 'by_name' else ''
    if op[0] == 'refine':
        return ('refine' if not op[2] else 'refine[bisect=%s]%s' % (op[2], '+edge' if op[3] else '')) + names
    return op[0] + names


def judge(ctx, geo, ops, case, promised=None, primitive=False):
    """Evaluate the invariants after the last operation of `ops`."""
    last = ops[-1]
    if promised is None:
        promised = last[0] in geoops.VALID_MESH_OPS
    bad = GI.geo_invariants(geo, promised_valid=promised)
    ctx.count('invariant_evaluations')
    for kind, text in bad:
        ctx.violation('%s:%s:after:%s' % ('primitive' if primitive else 'invariant', kind, opkind(last)), text, case)
    return not bad


def partial_model(ctx, before, geo, op, case):
    """Predictable effects of an operation on the sets of names / elevations / positions."""
    k = op[0]

    def V(kind, text):
        ctx.violation('model:%s:after:%s' % (kind, opkind(op)), text, case)
    cols = set(c.name for c in geo.columnlist)
    if k == 'delete_column':
        if cols != before['cols'] - {op[1]}:
            V('column-set', 'columns %r, expected %r' % (sorted(cols), sorted(before['cols'] - {op[1]})))
    elif k == 'rename_column':
        if cols != (before['cols'] - {op[1]}) | {op[2]}:
            V('column-set', 'columns %r after renaming %r to %r' % (sorted(cols), op[1], op[2]))
    elif k == 'reduce':
        if cols != set(op[1]):
            V('column-set', 'columns %r, reduce asked for %r' % (sorted(cols), sorted(op[1])))
    elif k == 'refine_layers':
        sel = set(op[1]) if op[1] else set(before['layers'])
        exp = []
        for name, bottom, top in before['layer_list']:
            if name in sel:
                exp += [top - (top - bottom) * (i + 1) / op[2] for i in range(op[2])]
            else:
                exp.append(bottom)
        got = [l.bottom for l in geo.layerlist[1:]]
        if len(got) != len(exp) or any(abs(a - b) > 1e-9 * max(1.0, abs(a)) for a, b in zip(got, exp)):
            V('layer-elevations', 'layer bottoms %r, expected %r' % (got, exp))
        if len(set(l.name for l in geo.layerlist)) != len(geo.layerlist):
            V('layer-names', 'duplicate layer names after refine_layers')
    elif k == 'fit_surface':
        targets = set(op[3]) if op[3] else set(before['surfaces'])
        bounds = sorted(set([l.bottom for l in geo.layerlist] + [geo.layerlist[0].top]))
        for c in geo.columnlist:
            s0 = before['surfaces'].get(c.name)
            if c.name not in targets:
                if s0 is not None and c.surface != s0:
                    V('surfaces', 'column %r is not among the fitted columns, its surface went from %r to %r' % (c.name, s0, c.surface))
                    break
                continue
            if not (c.surface == c.surface and abs(c.surface) < 1e300):
                V('surfaces', 'column %r fitted surface %r' % (c.name, c.surface))
                break
            below = [b for b in bounds if b < c.surface - 1e-9]
            on_boundary = any(abs(b - c.surface) <= 1e-9 for b in bounds)      # a whole layer may be thinner than the tolerance
            if op[2] > 0 and below and not on_boundary and c.surface - below[-1] < op[2] - 1e-9 and below[-1] > bounds[0]:
                V('surfaces', 'column %r: top block %.6g thick after fit_surface(layer_snap=%r)' % (c.name, c.surface - below[-1], op[2]))
                break
    elif k == 'bad_centre+check_fix':
        c = geo.column.get(op[1])
        if c is not None:
            from vf.oracle import polygeo
            poly = [(float(n.pos[0]), float(n.pos[1])) for n in c.node]
            if not polygeo.inside((float(c.centre[0]), float(c.centre[1])), poly):
                V('column-centre', 'column %r: centre %r still outside the column after check(fix=True)' % (c.name, list(c.centre)))
    elif k == 'bad_layer+check_fix':
        lay = geo.layer.get(op[1])
        if lay is not None and not (lay.bottom <= lay.centre <= lay.top):
            V('layer-centre', 'layer %r: centre %r outside [%r, %r] after check(fix=True)' % (lay.name, lay.centre, lay.bottom, lay.top))
    elif k in ('well+translate', 'well+rotate'):
        import math
        w = geo.well.get('wz  9')
        c0 = before['first_column']
        col = geo.column.get(c0[0])
        if w is None or col is None:
            V('well', 'well or its column missing after %s' % k)
        else:
            # where the well was before the motion: where an earlier operation of the sequence left it, or - drilled by this
            # operation - at the centre of the first column from the top of the model to its bottom
            was = before['wells'].get('wz  9') or [(c0[1], c0[2], before['all_layers'][0][1]), (c0[1], c0[2], before['all_layers'][-1][1])]
            dz = op[1][2] if k == 'well+translate' else 0.0
            # rigid motion: every point of the track keeps its distance to every node of that column, and moves up by the shift
            for n in col.node:
                p0 = before['nodes'].get(n.name)
                if p0 is None:
                    continue
                for q0, pos in zip(was, w.pos):
                    d0 = math.hypot(q0[0] - p0[0], q0[1] - p0[1])
                    d1 = math.hypot(float(pos[0]) - float(n.pos[0]), float(pos[1]) - float(n.pos[1]))
                    if abs(d0 - d1) > 1e-6 * max(1.0, d0):
                        V('well-position', 'well at distance %r from node %r before and %r after %s' % (d0, n.name, d1, k))
                        return
                    if abs(float(pos[2]) - q0[2] - dz) > 1e-6:
                        V('well-position', 'well point elevation %r before, %r after %s' % (q0[2], float(pos[2]), k))
                        return
    elif k == 'translate':
        for n in geo.nodelist:
            p0 = before['nodes'].get(n.name)
            if p0 is not None and (abs(n.pos[0] - p0[0] - op[1][0]) > 1e-9 or abs(n.pos[1] - p0[1] - op[1][1]) > 1e-9):
                V('node-positions', 'node %r moved from %r to %r, shift %r' % (n.name, p0, list(n.pos), op[1]))
                break
        got = [l.bottom for l in geo.layerlist]
        if any(abs(a - b - op[1][2]) > 1e-9 for a, b in zip(got, [x[1] for x in before['all_layers']])):
            V('layer-elevations', 'layers not shifted by %r' % op[1][2])
        for c in geo.columnlist:
            if abs(c.surface - before['surfaces'][c.name] - op[1][2]) > 1e-9:
                V('surfaces', 'column %r surface not shifted' % c.name)
                break
    elif k == 'rotate':
        import math
        names = sorted(before['nodes'])
        for a, b in zip(names[:-1], names[1:]):
            if a in geo.node and b in geo.node:
                d0 = math.hypot(before['nodes'][a][0] - before['nodes'][b][0], before['nodes'][a][1] - before['nodes'][b][1])
                d1 = math.hypot(geo.node[a].pos[0] - geo.node[b].pos[0], geo.node[a].pos[1] - geo.node[b].pos[1])
                if abs(d0 - d1) > 1e-9 * max(1.0, d0):
                    V('node-distances', 'distance %r-%r changed from %r to %r' % (a, b, d0, d1))
                    break
    elif k in ('snap', 'snap_nearest'):
        elevs = set(round(l.bottom, 9) for l in geo.layerlist)
        target = [geo.column[c] for c in (op[2] if k == 'snap' else op[1])] or geo.columnlist
        if k == 'snap_nearest':
            for c in target:
                if round(c.surface, 9) not in elevs:
                    V('surfaces', 'column %r surface %r is not on a layer boundary after snapping to the nearest' % (c.name, c.surface))
                    break


def snapshot(geo):
    return {'cols': set(c.name for c in geo.columnlist), 'layers': [l.name for l in geo.layerlist[1:]],
            'layer_list': [(l.name, l.bottom, l.top) for l in geo.layerlist[1:]], 'all_layers': [(l.name, l.bottom) for l in geo.layerlist],
            'nodes': dict((n.name, (float(n.pos[0]), float(n.pos[1]))) for n in geo.nodelist),
            'surfaces': dict((c.name, float(c.surface)) for c in geo.columnlist),
            'wells': dict((w.name, [tuple(float(x) for x in pos) for pos in w.pos]) for w in geo.welllist),
            'first_column': (geo.columnlist[0].name, float(geo.columnlist[0].centre[0]), float(geo.columnlist[0].centre[1])) if geo.columnlist else None}


def run_indexed(ctx, base, indices, atm=2, conv=0, subset_limit=256, light=True, judge_all=False):
    """Fresh base; the i-th operation of the canonical enumeration is applied at each step (operations
    are identified by their index because names differ between builds, see geoops.enumerate_ops).
    Judged after the last operation (prefixes are sequences of their own).  Returns (geo, ops, count of
    operations enabled in the final state) or None."""
    geo = geoops.base(base, atmos_type=atm, convention=conv)
    ops = []
    case = {'base': base, 'indices': list(indices), 'ops': ops, 'atmos_type': atm, 'convention': conv, 'subset_limit': subset_limit, 'light': light}
    for k, idx in enumerate(indices):
        cand = geoops.enumerate_ops(geo, ctx.rng, subset_limit=subset_limit, light=light if k else (light and atm != 2 or light is True and k > 0))
        if idx >= len(cand):
            return None
        op = cand[idx]
        ops.append(op)
        before = snapshot(geo)
        with ctx.guard(case, where=opkind(op)) as g:
            geoops.apply_op(geo, op)
        if g.raised is not None:
            return None
        if k == len(indices) - 1 or judge_all:
            ok = judge(ctx, geo, ops, case)
            partial_model(ctx, before, geo, op, case)
            if not ok:
                return None
    ctx.evaluated()
    ctx.count('sequences')
    ctx.see('operation_kinds', opkind(ops[-1]))
    ctx.case(repr((base, atm, conv, subset_limit, light, list(indices))), nontrivial=any(o[0] in TOPOLOGY for o in ops),
             sample=(len(ops) >= 2 and len(ctx.samples) < 3))
    return geo, ops


def count_ops(base, indices, atm=2, conv=0, subset_limit=256, light=True):
    geo = geoops.base(base, atmos_type=atm, convention=conv)
    for k, idx in enumerate(indices):
        cand = geoops.enumerate_ops(geo, None, subset_limit=subset_limit, light=light if k else (light and atm != 2 or light is True and k > 0))
        if idx >= len(cand):
            return 0
        try:
            geoops.apply_op(geo, cand[idx])
        except Exception:
            return 0
    if GI.geo_invariants(geo, promised_valid=False):
        return 0                  # reported where it happens; nothing is built on a broken state
    return len(geoops.enumerate_ops(geo, None, subset_limit=subset_limit, light=True))


def run_singles(ctx, spec):
    base = spec['base']
    for atm, conv in ((2, 0), (0, 0), (1, 2)):
        geo0 = geoops.base(base, atmos_type=atm, convention=conv)
        bad0 = GI.geo_invariants(geo0, promised_valid=True)
        if bad0:
            raise HarnessError('base geometry %s violates the invariants: %r' % (base, bad0[:2]))
        light = atm != 2
        n = len(geoops.enumerate_ops(geo0, None, subset_limit=256, light=light))
        for i in range(n):
            run_indexed(ctx, base, [i], atm=atm, conv=conv, light=light)


def run_pairs(ctx, spec):
    base = spec['base']
    n1 = len(geoops.enumerate_ops(geoops.base(base), None, subset_limit=256, light=True))
    lim2 = 256 if spec['sample'] is None else 8
    for i in range(n1):
        if i % spec['parts'] != spec['part']:
            continue
        n2 = count_ops(base, [i], subset_limit=256)
        if n2 == 0:
            continue
        # the second argument ranges over the subsets of the *new* column set (capped)
        geo = geoops.base(base)
        cand = geoops.enumerate_ops(geo, None, subset_limit=256, light=True)
        geoops.apply_op(geo, cand[i])
        n2 = len(geoops.enumerate_ops(geo, None, subset_limit=lim2, light=True))
        js = range(n2)
        if spec['sample'] is not None:
            k = max(1, spec['sample'] // max(1, n1))
            js = ctx.rng.sample(range(n2), min(n2, k))
        for j in js:
            run_pair(ctx, base, i, j, lim2)


def run_pair(ctx, base, i, j, lim2):
    geo = geoops.base(base)
    ops = []
    case = {'base': base, 'pair': [i, j], 'second_subset_limit': lim2, 'ops': ops}
    for k, (idx, lim) in enumerate(((i, 256), (j, lim2))):
        cand = geoops.enumerate_ops(geo, None, subset_limit=lim, light=True)
        if idx >= len(cand):
            return
        op = cand[idx]
        ops.append(op)
        before = snapshot(geo)
        with ctx.guard(case, where=opkind(op)) as g:
            geoops.apply_op(geo, op)
        if g.raised is not None:
            return
        if k == 1:
            judge(ctx, geo, ops, case)
            partial_model(ctx, before, geo, op, case)
    ctx.evaluated()
    ctx.count('sequences')
    ctx.see('operation_kinds', opkind(ops[-1]))
    ctx.case(repr((base, i, j, lim2)), nontrivial=any(o[0] in TOPOLOGY for o in ops), sample=(len(ctx.samples) < 3))


def run_triples(ctx, spec):
    """Sampled sequences of three operations, generated and judged on the same instance."""
    rng = ctx.rng
    for it in range(spec['n']):
        base = rng.choice(geoops.BASES)
        atm, conv = rng.choice([(2, 0), (0, 0), (1, 1), (0, 2)])
        geo = geoops.base(base, atmos_type=atm, convention=conv)
        ops, idxs = [], []
        case = {'base': base, 'ops': ops, 'triple_indices': idxs, 'atmos_type': atm, 'convention': conv}
        for k in range(3):
            cand = geoops.enumerate_ops(geo, None, subset_limit=6, light=True)
            idx = rng.randrange(len(cand))
            op = cand[idx]
            ops.append(op)
            idxs.append(idx)
            before = snapshot(geo)
            with ctx.guard(case, where=opkind(op)) as g:
                geoops.apply_op(geo, op)
            if g.raised is not None:
                break
            ok = judge(ctx, geo, ops, dict(case, ops=list(ops), triple_indices=list(idxs)))
            partial_model(ctx, before, geo, op, case)
            ctx.see('operation_kinds', opkind(op))
            if not ok:
                break
        ctx.evaluated()
        ctx.count('sequences')
        ctx.case(repr((base, atm, conv, idxs)), nontrivial=any(o[0] in TOPOLOGY for o in ops))


def run_random(ctx, spec):
    """Longer random sequences on bigger geometries, invariants after every operation, with the
    quiescent contract attached to every public mutator of mulgrid."""
    mg = R.mulgrids
    rng = ctx.rng
    install_quiescent(ctx)
    for it in range(spec['n']):
        r = rng.random()
        if r < 0.5:
            geo, desc = geos.rectangular(rng, nx=rng.randint(2, 8), ny=rng.randint(2, 8), nz=rng.randint(2, 6))
            if geo.num_layers > 2:
                desc['surfaces'] = geos.set_surfaces(geo, rng, 'mixed', frac=0.4)
        else:
            name = rng.choice(['g7', 'g5', 'g6', 'g3', 'g1', 'g2', 'g4'])
            geo = geos.load_shipped(name)
            desc = {'kind': 'shipped', 'name': name}
            if name == 'g3':
                geo.check(fix=True, silent=True)
                geoops.careful_refresh(geo)
            if geo.num_columns > 300:
                keep = rng.sample(geo.columnlist, 1)
                # a connected patch of about 150 columns
                patch, frontier = set(keep), list(keep)
                while len(patch) < 150 and frontier:
                    frontier = [n for c in frontier for n in c.neighbour if n not in patch]
                    patch.update(frontier)
                geo.reduce(list(patch))
                desc['reduced_to'] = len(patch)
        ops = []
        case = {'geo': desc, 'ops': ops, 'seed': ctx.seed, 'shard': ctx.shard, 'iteration': it}
        if GI.geo_invariants(geo, promised_valid=True):
            first = GI.geo_invariants(geo, promised_valid=True)[0]
            ctx.violation('invariant:%s:after:%s' % (first[0], 'reduce' if 'reduced_to' in desc else 'load'), first[1], case)
            continue
        for step in range(rng.randint(3, 25)):
            if geo.num_columns > 400 or geo.num_columns < 3:
                break
            cand = geoops.enumerate_ops(geo, rng, subset_limit=3, light=True)
            cand = [o for o in cand if o[0] not in ('reduce',) or len(o[1]) > geo.num_columns // 2]
            op = rng.choice(cand)
            ops.append(op)
            before = snapshot(geo)
            # (a long random sequence of refinements can use up the names of a 2-character convention: the explicit naming
            #  error is then the right answer - whether it comes at the right moment is property C17 - and ends the sequence)
            with ctx.guard(case, where=opkind(op), expected=(R.mulgrids.NamingConventionError,)) as g:
                geoops.apply_op(geo, op)
            if g.raised is not None:
                if isinstance(g.raised, R.mulgrids.NamingConventionError):
                    ctx.count('sequences_ended_by_naming_error')
                break
            ctx.see('operation_kinds', opkind(op))
            ok = judge(ctx, geo, ops, dict(case, ops=list(ops)))
            partial_model(ctx, before, geo, op, case)
            ctx.evaluated()
            if not ok:
                break
        else:
            sliver = any(0 < abs(c.surface - l.bottom) < 0.011 for c in geo.columnlist for l in geo.layerlist)
            if rng.random() < 0.4 and not sliver:
                # file round trip of the edited geometry: must still satisfy the invariants and describe the same blocks
                # (not attempted when a surface lies within the file's two decimals of a layer boundary)
                fn = os.path.join(ctx.tmp, 'c10.dat')
                with ctx.guard(case, where='file-roundtrip') as g:
                    geo.write(fn)
                    g2 = mg.mulgrid(fn)
                if g.raised is None:
                    if list(g2.block_name_list) != list(geo.block_name_list):
                        ctx.violation('file:block-name-list:after-edits', 'edited geometry changes its block list in a file round trip', case)
                    for kind, text in GI.geo_invariants(g2, promised_valid=False)[:1]:
                        ctx.violation('file:invariant:%s' % kind, text, case)
        ctx.count('random_sequences')
        ctx.case(repr((desc.get('kind'), desc.get('name'), ops)), nontrivial=any(o[0] in TOPOLOGY for o in ops))
    ctx.count('quiescent_contract_evaluations', contracts.REC.evaluations.get('mulgrid-quiescent', 0))


MUTATORS = ['refine', 'refine_layers', 'decompose_columns', 'decompose_column', 'reduce', 'split_column', 'rename_column', 'rename_layer',
            'snap_columns_to_layers', 'snap_columns_to_nearest_layers', 'fit_surface', 'rotate', 'translate', 'copy_layers_from',
            'rectangular', 'read', 'triangulate_column', 'subdivide_column', 'check', 'delete_column', 'add_column', 'add_node', 'delete_node',
            'add_connection', 'delete_connection', 'add_layer', 'delete_layer', 'add_layers', 'from_gmsh']


def install_quiescent(ctx):
    """The invariants as a contract on every public mutator: evaluated only when the outermost call
    returns (refine legitimately passes through inconsistent states).  Records are used for counting
    only here -- every operation of the random workload is judged explicitly as well."""
    cls = R.mulgrids.mulgrid

    def inv(g, mname):
        return None
    contracts.quiescent(cls, MUTATORS, inv, 'mulgrid-quiescent', result_only=('rectangular', 'from_gmsh'))


def run_primitives(ctx, spec):
    """add_/delete_ primitives: judged immediately after the call, then refreshed."""
    for base in geoops.BASES:
        n = len(geoops.enumerate_primitives(geoops.base(base), ctx.rng))
        for i in range(n):
            geo = geoops.base(base)
            op = geoops.enumerate_primitives(geo, ctx.rng)[i]        # same instance: names differ between builds
            case = {'base': base, 'ops': [op], 'primitive': True, 'primitive_index': i}
            with ctx.guard(case, where=op[0]) as g:
                geoops.apply_op(geo, op)
            if g.raised is not None:
                continue
            ctx.evaluated()
            ctx.count('primitive_evaluations')
            ctx.see('operation_kinds', op[0])
            judge(ctx, geo, [op], case, promised=False, primitive=True)
            geoops.careful_refresh(geo)
            # after the careful caller's refresh everything must hold again
            bad = GI.geo_invariants(geo, promised_valid=False)
            for kind, text in bad[:1]:
                ctx.violation('after-refresh:%s:after:%s' % (kind, op[0]), text, case)
            ctx.case(repr((base, op)), nontrivial=True)
            # the same primitive followed directly by check(fix=True), WITHOUT the careful caller's refresh in
            # between: check(fix=True) promises a valid mesh whatever the primitive left behind
            if op[0] in ('delete_connection', 'delete+add_connection', 'add_existing_connection', 'delete_column', 'add_node', 'add+delete_node'):
                geo = geoops.base(base)
                op2 = geoops.enumerate_primitives(geo, ctx.rng)[i]
                case2 = {'base': base, 'ops': [op2, ['check_fix']], 'primitive_then_check_fix': True, 'primitive_index': i}
                with ctx.guard(case2, where=op2[0] + '+check_fix') as g:
                    geoops.apply_op(geo, op2)
                    geo.check(fix=True, silent=True)
                if g.raised is not None:
                    continue
                ctx.evaluated()
                ctx.count('primitive_then_check_fix')
                # judged: what check(fix=True) promises (no missing / extra connections, no orphan nodes); whatever
                # else the primitive left stale is the primitive's recorded finding
                for kind, text in GI.mesh_validity(geo)[:2]:
                    ctx.violation('after-check-fix:%s:after:%s' % (kind, op2[0]), text, case2)
                ctx.case(repr((base, op2, 'check_fix')), nontrivial=True)


def run_checkfix(ctx):
    """check(fix=True) promises a valid mesh: judged on geometries that are consistent but not valid
    (a missing connection, an extra connection, an orphan node) and on g3 as shipped."""
    mg = R.mulgrids
    import numpy as np
    for which in ('r32-broken', 'mixed-refined-broken', 'g3'):
        case = {'base': which, 'ops': [['check_fix']], 'checkfix': True}
        with ctx.guard(case, where='build') as g:
            if which == 'g3':
                geo = geos.load_shipped('g3')
            else:
                geo = geoops.base(which.replace('-broken', ''))
                ordered = sorted(geo.columnlist, key=lambda c: (round(float(c.centre[1]), 6), round(float(c.centre[0]), 6)))
                # remove one connection, add a connection between two columns that only share a node, add an orphan node;
                # then bring every derived datum up to date, so that the object is consistent but not a valid mesh
                con = sorted(geo.connectionlist, key=lambda c: sorted(x.name for x in c.column))[0]
                geo.delete_connection(tuple(c.name for c in con.column))
                adj = geoops.edge_adjacency(geo)
                pair = next(((a, b) for a in ordered for b in ordered if a is not b and b.name not in adj[a.name] and set(a.node) & set(b.node)), None)
                if pair:
                    geo.add_connection(mg.connection(list(pair)))
                    geo.connectionlist[-1].node = None
                geo.add_node(mg.node('zzq'[:geo.colname_length].rjust(geo.colname_length), np.array([1e4, 1e4])))
                geoops.careful_refresh(geo)
        if g.raised is not None:
            continue
        with ctx.guard(case, where='check_fix') as g:
            geo.check(fix=True, silent=True)
        if g.raised is not None:
            continue
        ctx.evaluated()
        ctx.count('sequences')
        ctx.see('operation_kinds', 'check_fix[on-invalid-mesh]')
        bad = GI.geo_invariants(geo, promised_valid=True)
        ctx.count('invariant_evaluations')
        for kind, text in bad:
            ctx.violation('invariant:%s:after:check_fix[on-invalid-mesh]' % kind, text, case)
        ctx.case(repr(case), nontrivial=True)


def run_shipped_layers(ctx, spec):
    """Layer operations on every shipped geometry as it comes from its file: these have surface layers called anything
    ('GS', '99', ' 1' - a name the regenerated layer names may want too), which generated geometries do not."""
    for name in geos.SHIPPED:
        g0 = geos.load_shipped(name)
        lays = [l.name for l in g0.layerlist[1:]]
        todo = [['refine_layers', [], 2], ['refine_layers', lays[:2], 3], ['refine_layers', lays[-1:], 2, 'by_name'],
                ['rename_layer', lays[0], 'zq'[:len(lays[0])].rjust(len(lays[0]))], ['delete_layer', lays[-1]]]
        for op in todo:
            geo = geos.load_shipped(name)
            case = {'geo': {'kind': 'shipped', 'name': name}, 'ops': [op], 'shipped_layers': True}
            before = snapshot(geo)
            with ctx.guard(case, where=opkind(op)) as g:
                geoops.apply_op(geo, op)
                if op[0] == 'delete_layer':
                    geoops.careful_refresh(geo)          # a primitive: the caller refreshes
            if g.raised is not None:
                continue
            ctx.evaluated()
            ctx.count('shipped_layer_operations')
            ctx.see('operation_kinds', opkind(op))
            ctx.case(('shipped-layers', name, repr(op)), nontrivial=True)
            bad = [b for b in GI.geo_invariants(geo, promised_valid=False) if b[0].startswith('layer') or 'name' in b[0] or 'block' in b[0]]
            ctx.count('invariant_evaluations')
            for kind, text in bad[:2]:
                ctx.violation('invariant:%s:after:%s:shipped' % (kind, opkind(op)), '%s: %s' % (name, text), case)
            partial_model(ctx, before, geo, op, case)


def run_shard(ctx, spec):
    if spec['kind'] == 'primitives':
        run_checkfix(ctx)
    {'singles': run_singles, 'pairs': run_pairs, 'triples': run_triples, 'random': run_random, 'primitives': run_primitives,
     'shipped-layers': run_shipped_layers}[spec['kind']](ctx, spec)


def replay(ctx, case):
    if 'indices' in case:
        run_indexed(ctx, case['base'], case['indices'], atm=case.get('atmos_type', 2), conv=case.get('convention', 0),
                    subset_limit=case.get('subset_limit', 256), light=case.get('light', True), judge_all=True)
    elif case.get('shipped_layers'):
        run_shipped_layers(ctx, {})
    elif 'pair' in case:
        run_pair(ctx, case['base'], case['pair'][0], case['pair'][1], case.get('second_subset_limit', 256))
    elif 'triple_indices' in case:
        geo = geoops.base(case['base'], atmos_type=case['atmos_type'], convention=case['convention'])
        ops = []
        for idx in case['triple_indices']:
            cand = geoops.enumerate_ops(geo, None, subset_limit=6, light=True)
            op = cand[idx]
            ops.append(op)
            geoops.apply_op(geo, op)
            judge(ctx, geo, ops, case)
        ctx.evaluated()
    elif case.get('primitive') or case.get('primitive_then_check_fix'):
        run_primitives(ctx, {})
    else:
        ctx.rng.seed(case.get('seed', 0) * 1000003 + case.get('shard', 0))
        run_random(ctx, {'n': case.get('iteration', 0) + 1})
