"""C03 -- MULgraph geometry file round trip.

Monitor shape: round-trip history + model.  model_of(mulgrid) is projected through
the two-decimal coordinate fields (and the unit scale); G -> file1 -> G1 -> file2:
model(G1) must equal the projection of model(G), the derived block and connection
name lists must be identical, file2 == file1 byte for byte, and for a geometry in
feet the node records of the *file* (re-parsed with own column arithmetic) must
hold metres/0.3048.  An independent Fortran-style writer (layout from
doc/source/mulformat.rst) emits geometry files the reader must decode.
"""
import os

from vf.core import HarnessError
from vf.gen import geos
from vf.oracle import fortran_writer as FW
from vf.repo import R
from vf import monitors

INFO = {
    'rule': ('cases = geometries: rectangular with random spacings/origin x 4 conventions x 3 atmosphere types x {metres, feet} x 3 '
             'block orders x {lower, upper case}, random non-default surfaces (below / on a boundary / above the top layer), 0..5 '
             'wells with 2..6 points, specified column centres, coordinates up to +-999999.99, tilt cosines and permeability angle; '
             'shipped geometries and refined / rotated / translated / reduced derivatives; plus Fortran-style files. Distinct = '
             'distinct descriptor; non-trivial = >= 4 columns and (non-default surface or wells or a non-zero header option).'),
    'require': {
        'quick': {'counters': {'roundtrips': 120, 'byte_identity_checks': 120, 'feet_files_reparsed': 20, 'fortran_style_files': 30,
                               'shipped_or_derived': 3, 'records_resliced_in_situ': 3000},
                  'seen': {'header_combination': 30}, 'nontrivial': 80},
        'thorough': {'counters': {'roundtrips': 9000, 'byte_identity_checks': 9000, 'feet_files_reparsed': 1800,
                                  'fortran_style_files': 1500, 'shipped_or_derived': 40, 'records_resliced_in_situ': 300000},
                     'seen': {'header_combination': 72}, 'nontrivial': 6000},
    },
    'watchdog_s': {'quick': 900, 'thorough': 3600},
    'assumptions': ['names are right-justified (the format documentation says only those are safe in files)',
                    'coordinates are compared as the two decimals the file carries (one decimal for wells)'],
}

FT = 0.3048


def plan(tier, seed):
    if tier == 'quick':
        return [{'kind': 'gen', 'n': 150} for _ in range(4)] + [{'kind': 'fortran', 'n': 150} for _ in range(2)] + [{'kind': 'shipped', 'which': ['g7', 'g5', 'g6'], 'derived': 8}]
    return [{'kind': 'gen', 'n': 1000} for _ in range(13)] + [{'kind': 'fortran', 'n': 1000} for _ in range(2)] + \
        [{'kind': 'shipped', 'which': ['g1', 'g2', 'g3', 'g4', 'g5', 'g6', 'g7'], 'derived': 40}]


# -- model --------------------------------------------------------------------------------------

def r2(x, scale, dec=2):
    """A coordinate as it comes back from the file: rounded to the decimals of its field
    in file units, then scaled to metres by the reader."""
    if x is None:
        return None
    s = '%10.*f' % (dec, x / scale)
    if len(s) > 10:
        raise HarnessError('coordinate %r does not fit its field' % x)
    return float(s) * scale


def rE(x):
    return None if x is None else float('%10.2e' % x)


def model_of(geo, projected=False):
    """projected=True: what a reader must return after this geometry went through a file."""
    sc = geo.unit_scale
    P = (lambda x, dec=2: r2(x, sc, dec)) if projected else (lambda x, dec=2: None if x is None else float(x))
    A = rE if projected else (lambda x: None if x is None else float(x))
    F2 = (lambda x: None if x is None else float('%10.2f' % x)) if projected else (lambda x: None if x is None else float(x))
    m = {
        'convention': geo.convention, 'atmosphere_type': geo.atmosphere_type,
        'atmosphere_volume': A(geo.atmosphere_volume), 'atmosphere_connection': A(geo.atmosphere_connection),
        'unit_type': geo.unit_type, 'gdcx': F2(geo.gdcx), 'gdcy': F2(geo.gdcy),
        'permeability_angle': F2(geo.permeability_angle),
        'block_order': geo.block_order if geo.block_order is not None else None,
        'nodes': [(n.name, P(n.pos[0]), P(n.pos[1])) for n in geo.nodelist],
        'columns': [(c.name, [n.name for n in c.node], 1 if c.centre_specified else 0,
                     (P(c.centre[0]), P(c.centre[1])) if c.centre_specified else None) for c in geo.columnlist],
        'connections': [tuple(c.name for c in con.column) for con in geo.connectionlist],
        'layers': [(l.name, P(l.bottom), P(l.centre)) for l in geo.layerlist],
        'surfaces': dict((c.name, P(c.surface)) for c in geo.columnlist if not c.default_surface),
        'wells': [(w.name, [tuple(P(x, 1) for x in p) for p in w.pos]) for w in geo.welllist],
    }
    return m


def approx(a, b, tol=1e-9):
    if a is None or b is None:
        return a is b
    return abs(a - b) <= tol * max(1.0, abs(a), abs(b))


def deep_close(a, b):
    if isinstance(a, float) or isinstance(b, float):
        return approx(a, b)
    if isinstance(a, (list, tuple)) and isinstance(b, (list, tuple)):
        return len(a) == len(b) and all(deep_close(x, y) for x, y in zip(a, b))
    if isinstance(a, dict) and isinstance(b, dict):
        return set(a) == set(b) and all(deep_close(a[k], b[k]) for k in a)
    return a == b


def diff_models(exp, got):
    out = []
    for k in ('convention', 'atmosphere_type', 'atmosphere_volume', 'atmosphere_connection', 'unit_type', 'gdcx', 'gdcy',
              'permeability_angle', 'block_order'):
        e, g = exp[k], got[k]
        if k == 'block_order' and e is None and g == 'layer_column':
            continue        # the default order, written as 0
        if k in ('gdcx', 'gdcy') and e in (None, 0.0) and g in (None, 0.0):
            continue
        if not deep_close(e, g):
            out.append(('header:%s' % k, 'header option %s: %r, expected %r' % (k, g, e)))
    for k in ('nodes', 'columns', 'connections', 'layers', 'surfaces', 'wells'):
        if not deep_close(exp[k], got[k]):
            e, g = exp[k], got[k]
            if isinstance(e, list):
                i = next((i for i, (x, y) in enumerate(zip(e, g)) if not deep_close(x, y)), min(len(e), len(g)))
                what = 'item %d: %r, expected %r (%d vs %d items)' % (i, g[i] if i < len(g) else None, e[i] if i < len(e) else None, len(g), len(e))
            else:
                ks = [x for x in set(e) | set(g) if not deep_close(e.get(x), g.get(x))][:3]
                what = ', '.join('%r: %r, expected %r' % (x, g.get(x), e.get(x)) for x in ks)
            out.append((k, '%s differ: %s' % (k, what)))
    return out


# -- generation -------------------------------------------------------------------------------------

def gen_geo(ctx, i):
    rng = ctx.rng
    mg = R.mulgrids
    conv = i % 4
    atm = (i // 4) % 3
    feet = (i // 12) % 2 == 1
    order = [None, 'layer_column', 'dmplex'][(i // 24) % 3]
    case_ = [None, 'u'][(i // 72) % 2]
    nx, ny = rng.randint(1, 5), rng.randint(1, 5)
    if conv == 1:
        while (nx + 1) * (ny + 1) > 99:
            nx -= 1
    nz = rng.randint(1, 6)
    big = rng.random() < 0.15
    lim = 2.9e5 if feet else 9.9e5          # so that the coordinate still fits ten columns in file units
    org = [round(rng.uniform(-lim, lim), 2), round(rng.uniform(-lim, lim), 2), round(rng.uniform(-3000, 3000), 2)] if big else \
        [round(rng.uniform(-500, 500), 3), round(rng.uniform(-500, 500), 3), round(rng.uniform(-100, 100), 3)]
    dx = [round(rng.uniform(5, 300), rng.choice([0, 1, 2, 3])) for _ in range(nx)]
    dy = [round(rng.uniform(5, 300), rng.choice([0, 1, 2, 3])) for _ in range(ny)]
    dz = [round(rng.uniform(2, 100), rng.choice([0, 1, 2])) for _ in range(nz)]
    zero = rng.random() < 0.15
    if zero:
        # boundary values: a column centre on a coordinate axis, a layer centred on elevation zero
        dx[0] = float(rng.randint(1, 150) * 2)
        dy[0] = float(rng.randint(1, 150) * 2)
        dz[0] = float(rng.randint(1, 40) * 2)
        org = [-dx[0] / 2 if rng.random() < 0.7 else org[0], -dy[0] / 2 if rng.random() < 0.5 else org[1], dz[0] / 2]
    zvariant = None
    if zero:
        # ... or slightly below zero (prints as -0.00), or a specified centre of exactly zero that is not the mid-point
        zvariant = rng.choice(['centred', 'just-below-zero', 'specified-zero-off-centre'])
        if zvariant == 'just-below-zero':
            org[2] = dz[0] / 2 - 0.004
        elif zvariant == 'specified-zero-off-centre':
            org[2] = float(int(dz[0] / 2) // 2 + 1) if dz[0] >= 4 else dz[0] / 2
    geo = mg.mulgrid().rectangular(dx, dy, dz, convention=conv, atmos_type=atm, origin=org, case=case_, block_order=order)
    if zvariant == 'specified-zero-off-centre' and geo.layerlist[1].bottom < 0.0 < geo.layerlist[1].top:
        geo.layerlist[1].centre = 0.0
    desc = {'kind': 'rectangular', 'dx': dx, 'dy': dy, 'dz': dz, 'convention': conv, 'atmos_type': atm, 'origin': org,
            'block_order': order, 'case': case_, 'feet': feet, 'zero_mode': zero, 'zero_variant': zvariant}
    if zvariant:
        ctx.see('layer_centre_zero_variant', zvariant)
    if rng.random() < 0.3:
        # the header options reached through their setters rather than through the constructor: another block
        # order first, then the final one (None included) -- what the file says must be what the object says
        other = rng.choice([o for o in (None, 'layer_column', 'dmplex') if o != order])
        geo.block_order = other
        geo.block_order = order
        desc['block_order_history'] = [other, order]
        ctx.count('block_order_set_twice')
    if feet:
        geo.unit_type = 'FEET '
    r = rng.random()
    if r < 0.6 and nz >= 2:
        desc['surfaces'] = geos.set_surfaces(geo, rng, rng.choice(['inside', 'mixed', 'boundary', 'above']))
    if rng.random() < 0.4:
        ws = []
        for k in range(rng.randint(1, 5)):
            name = 'W%3s%d' % (rng.choice(['  ', 'AB', 'x ']), k) if rng.random() < 0.5 else '%5s' % ('w%d' % k)
            pts = [[round(org[0] + rng.uniform(0, sum(dx)), 1), round(org[1] + rng.uniform(0, sum(dy)), 1), round(org[2] - 10.0 * j, 1)]
                   for j in range(rng.randint(2, 6))]
            ws.append([name[:5].ljust(5) if rng.random() < 0.5 else name[:5].rjust(5), pts])
        desc['wells'] = ws
        import numpy as np
        for name, pts in ws:
            geo.add_well(mg.well(name, [np.array(p) for p in pts]))
    if desc.get('wells') and geo.num_columns > 2 and rng.random() < 0.35:
        # a sub-model: reduced to a few columns, which removes the wells that lie outside them (possibly all of them)
        keep = sorted(rng.sample([c.name for c in geo.columnlist], rng.randint(1, max(1, geo.num_columns // 3))))
        geo.reduce([geo.column[n] for n in keep])
        geo.delete_orphan_wells()
        desc['reduced_to'] = keep
        desc['wells_left'] = [w.name for w in geo.welllist]
        ctx.count('geometries_reduced_with_wells')
        ctx.see('wells_after_reduce', 'none' if not geo.welllist else ('all' if len(geo.welllist) == len(desc['wells']) else 'some'))
    if rng.random() < 0.25 or zero:
        import numpy as np
        cs = {}
        for col in geo.columnlist:
            if rng.random() < 0.5 or (zero and col is geo.columnlist[0]):
                c = [round(col.centre[0] + rng.uniform(-1, 1), 2), round(col.centre[1] + rng.uniform(-1, 1), 2)]
                if zero and col is geo.columnlist[0]:
                    c = [round(float(col.centre[0]), 2), round(float(col.centre[1]), 2)]
                col.centre = np.array(c)
                col.centre_specified = 1
                cs[col.name] = c
        desc['centres'] = cs
    if rng.random() < 0.35 and not desc.get('reduced_to'):
        # a derived geometry: new columns / nodes / layers named by the library itself (what it names them must survive
        # the file as well as the names rectangular() gave)
        how = rng.choice(['refine', 'refine', 'split_column', 'refine_layers', 'triangulate'])
        if how == 'refine_layers' and not geo.default_surface:
            # (new layer boundaries could fall within a hundredth of a surface set earlier, and whether a thin block exists
            #  would then hang on the two decimals of the file: layer refinement is applied to geometries without surfaces)
            how = 'refine'
        try:
            if how == 'refine':
                geo.refine(rng.sample(geo.columnlist, rng.randint(1, max(1, geo.num_columns // 2))))
            elif how == 'split_column':
                col = rng.choice(geo.columnlist)
                geo.split_column(col.name, col.node[0].name)
            elif how == 'triangulate':
                geo.triangulate_column(rng.choice(geo.columnlist).name)
                for con in geo.missing_connections:
                    geo.add_connection(con)
                geo.identify_neighbours()
                geo.setup_block_name_index()
                geo.setup_block_connection_name_index()
            elif geo.num_layers > 1 and not (geo.convention == 0 and geo.num_layers > 30):
                geo.refine_layers(rng.sample(geo.layerlist[1:], rng.randint(1, geo.num_layers - 1)), factor=2)
            desc['derived_by'] = how
            ctx.see('generated_geometry_derived_by', how)
        except R.mulgrids.NamingConventionError:
            desc['derived_by'] = how + ':naming-error'
    if rng.random() < 0.3:
        desc['columns_renamed'] = rename_some_columns(rng, geo)
    if rng.random() < 0.25:
        # the surface layer with a centre of its own, a hundredth or so above its bottom, as MULgraph-style files give it
        # (shipped g4, g5): the file records it and the reader must give it back
        top = geo.layerlist[0]
        top.centre = top.bottom + rng.choice([0.01, 0.01, 0.5])
        desc['surface_layer_centre_above_bottom'] = top.centre - top.bottom
        ctx.count('geometries_with_surface_layer_centre_of_its_own')
    if rng.random() < 0.3:
        geo.gdcx = rng.choice([0.0, 0.1, -0.25, None])
        geo.gdcy = rng.choice([0.0, 0.05, None])
        geo.permeability_angle = rng.choice([0.0, 30.0, -17.5, 90.0, 45.25])
        desc['tilt'] = [geo.gdcx, geo.gdcy, geo.permeability_angle]
    if rng.random() < 0.3:
        geo.atmosphere_volume = rng.choice([1e20, 1e25, 1.5e50, 0.0, 3.3e10])
        geo.atmosphere_connection = rng.choice([1e-6, 1e-3, 0.5])
        desc['atm'] = [geo.atmosphere_volume, geo.atmosphere_connection]
    return geo, desc


def rename_some_columns(rng, geo):
    """Gives some columns (never just the last ones) other names through rename_column(), as a user relabelling part of a
    model does.  Returns the list of (old, new) pairs."""
    w = geo.colname_length
    if geo.num_columns < 2:
        return []
    k = rng.randint(1, max(1, geo.num_columns // 2))
    idx = sorted(rng.sample(range(geo.num_columns - 1), min(k, geo.num_columns - 1)))
    olds = [geo.columnlist[i].name for i in idx]
    pool = []
    for a in 'yzxw':
        for b in ('0123456789abcdefghij' if w > 2 else ''):
            for c in '0123456789':
                pool.append((a + b + c)[:w].rjust(w) if w > 2 else (a + c))
        if w <= 2:
            pool += [a + c for c in '0123456789']
    pool = [n for n in dict.fromkeys(pool) if n not in geo.column and n not in geo.node]
    if len(pool) < len(olds):
        return []
    news = pool[:len(olds)]
    geo.rename_column(olds, news)
    return list(zip(olds, news))


def read_bytes(fn):
    with open(fn, 'rb') as f:
        return f.read()


def roundtrip(ctx, geo, case, tag):
    mg = R.mulgrids
    fn1, fn2 = os.path.join(ctx.tmp, 'c03_a.dat'), os.path.join(ctx.tmp, 'c03_b.dat')
    with ctx.guard(case, where='write') as g:
        exp = model_of(geo, projected=True)
        names0, cons0 = list(geo.block_name_list), list(geo.block_connection_name_list)
        geo.write(fn1)
        # writing is not an edit: the geometry in memory is what it was, and a second write gives the same file
        after = model_of(geo, projected=True)
        geo.write(fn2)
    if g.raised is not None:
        return False
    ctx.count('object_unchanged_by_write_checks')
    d = diff_models(exp, after)
    if d or list(geo.block_name_list) != names0 or list(geo.block_connection_name_list) != cons0:
        ctx.violation('%s:write-alters-geometry' % tag, 'the geometry differs after write(): %s' % (d[0][1] if d else 'derived name lists changed'), case)
        return False
    if read_bytes(fn1) != read_bytes(fn2):
        ctx.violation('%s:repeated-write-differs' % tag, 'writing the same geometry twice gives two different files', case)
        return False
    with ctx.guard(case, where='read') as g:
        g1 = mg.mulgrid(fn1)
    if g.raised is not None:
        return False
    ctx.evaluated()
    ctx.count('roundtrips')
    ctx.see('header_combination', 'conv=%d atm=%d unit=%s order=%s upper=%s' % (
        geo.convention, geo.atmosphere_type, geo.unit_type.strip() or 'm', geo.block_order, case.get('case') == 'u'))
    ctx.see('sections', 'surface=%s wells=%s' % (not geo.default_surface, geo.num_wells > 0))
    for kind, what in diff_models(exp, model_of(g1)):
        ctx.violation('%s:reread:%s' % (tag, kind) + (':feet' if geo.unit_type.strip() else ''), what, case)
        return False
    if list(g1.block_name_list) != names0:
        ctx.violation('%s:block-name-list' % tag, 'block name list differs after round trip (%d vs %d names)' % (len(g1.block_name_list), len(names0)), case)
        return False
    if list(g1.block_connection_name_list) != cons0:
        ctx.violation('%s:block-connection-name-list' % tag, 'block connection name list differs after round trip', case)
        return False
    with ctx.guard(case, where='rewrite') as g:
        g1.write(fn2)
    if g.raised is not None:
        return False
    ctx.count('byte_identity_checks')
    b1, b2 = read_bytes(fn1), read_bytes(fn2)
    if b1 != b2:
        l1, l2 = b1.split(b'\n'), b2.split(b'\n')
        k = next((i for i, (x, y) in enumerate(zip(l1, l2)) if x != y), min(len(l1), len(l2)))
        ctx.violation('%s:rewrite-not-byte-identical' % tag, 'line %d: %r vs %r' % (k + 1, l1[k] if k < len(l1) else None, l2[k] if k < len(l2) else None), case)
        return False
    if geo.unit_type.strip():
        check_feet_file(ctx, geo, fn1, case, tag)
    if geo.num_columns <= 1500:
        # the file read into an object that already holds a geometry (the same one, read a moment ago: same header,
        # so no blank header field can pick up anything else): what is read replaces what was there
        with ctx.guard(case, where='read-into-used-object') as g:
            g3 = mg.mulgrid(fn1)
            g3.read(fn1)
        if g.raised is None:
            ctx.count('reads_into_used_object')
            for kind, what in diff_models(model_of(g1), model_of(g3)):
                ctx.violation('%s:read-into-used-object:%s' % (tag, kind), 'read() into an object holding the written geometry: ' + what, case)
                return False
            if list(g3.block_name_list) != list(g1.block_name_list):
                ctx.violation('%s:read-into-used-object:block-name-list' % tag, 'block name list differs from that of a fresh reader', case)
                return False
    return True


def check_feet_file(ctx, geo, fn, case, tag):
    """Own re-parse of the file: header unit field and node records in feet."""
    with open(fn) as f:
        lines = f.read().split('\n')
    ctx.count('feet_files_reparsed')
    unit = lines[0][27:32]
    if unit.strip().upper() != 'FEET':
        ctx.violation('%s:feet:header-unit-field' % tag, 'geometry in feet, header unit field (columns 28-32) holds %r' % unit, case)
        return
    i = next(k for k, l in enumerate(lines) if l.startswith('VERTI')) + 1
    for n in geo.nodelist:
        l = lines[i]
        i += 1
        x, y = float(l[3:13]), float(l[13:23])
        if abs(x - n.pos[0] / FT) > 0.0051 or abs(y - n.pos[1] / FT) > 0.0051:
            ctx.violation('%s:feet:file-not-in-feet' % tag, 'node %r at (%r, %r) m is written as (%r, %r)' % (n.name, n.pos[0], n.pos[1], x, y), case)
            return


def run_gen(ctx, spec):
    mon = monitors.RecordMonitor(R.fixed_format_file, lambda key, what, c: ctx.violation('record:' + key, what, c, prop='C02'))
    base = ctx.shard * 1000
    for i in range(spec['n']):
        with ctx.guard({'gen': i}, where='generate') as g:
            geo, desc = gen_geo(ctx, base + i)
        if g.raised is not None:
            continue
        case = {'geo': desc, 'seed': ctx.seed, 'shard': ctx.shard, 'index': i}
        roundtrip(ctx, geo, case, 'gen')
        nontriv = geo.num_columns >= 4 and (not geo.default_surface or geo.num_wells > 0 or desc.get('feet') or desc.get('tilt') or
                                             geo.atmosphere_type != 2 or geo.convention != 0)
        ctx.case(repr(desc), nontrivial=bool(nontriv), sample=(i < 2))
    ctx.count('records_resliced_in_situ', mon.records)


def derive(rng, name, ops, allow_layers=True):
    geo = geos.load_shipped(name)
    for _ in range(rng.randint(1, 3)):
        r = rng.random()
        if not allow_layers and 0.75 <= r < 0.9:
            r = 0.6
        if r < 0.35:
            cols = rng.sample([c for c in geo.columnlist if c.num_nodes in (3, 4)], min(geo.num_columns, rng.randint(1, 6)))
            ops.append(['refine', [c.name for c in cols]])
            geo.refine(cols)
        elif r < 0.55:
            a = rng.choice([30.0, 90.0, -17.0, 123.4])
            ops.append(['rotate', a])
            geo.rotate(a)
        elif r < 0.75:
            s = [round(rng.uniform(-1000, 1000), 1), round(rng.uniform(-1000, 1000), 1), round(rng.uniform(-50, 50), 1)]
            ops.append(['translate', s])
            import numpy as np
            geo.translate(np.array(s))
        elif r < 0.9:
            lays = rng.sample(geo.layerlist[1:], min(2, geo.num_layers - 1))
            ops.append(['refine_layers', [l.name for l in lays]])
            geo.refine_layers(lays, factor=rng.randint(2, 3))
            # thirds of a layer are not two-decimal numbers, and the regenerated elevations carry rounding noise (a bottom
            # of -1.4e-14 under a column surface of 0.0 is a block 1.4e-14 thick in memory and none in the file): a
            # column surface within the file's rounding of a new layer boundary puts the geometry outside what two
            # decimals can carry - derived again without layer refinement
            if any(col.surface is not None and any(0.0 < abs(col.surface - lay.bottom) < 0.006 for lay in geo.layerlist) for col in geo.columnlist):
                del ops[:]
                return derive(rng, name, ops, allow_layers=False)
        else:
            cols = rng.sample(geo.columnlist, max(3, geo.num_columns // 2))
            ops.append(['reduce', len(cols)])
            geo.reduce(cols)
    if rng.random() < 0.7:
        import numpy as np
        n = 0
        for col in geo.columnlist:
            if rng.random() < 0.3:
                col.centre = np.array([round(float(col.centroid[0]), 2), round(float(col.centroid[1]), 2)])
                col.centre_specified = 1
                n += 1
        ops.append(['specify_centres', n])
    if rng.random() < 0.4:
        ops.append(['rename_columns', rename_some_columns(rng, geo)])
    return geo


def run_shipped(ctx, spec):
    mg = R.mulgrids
    mon = monitors.RecordMonitor(R.fixed_format_file, lambda key, what, c: ctx.violation('record:' + key, what, c, prop='C02'))
    rng = ctx.rng
    for name in spec['which']:
        case = {'geo': {'kind': 'shipped', 'name': name}}
        with ctx.guard(case, where='load') as g:
            geo = geos.load_shipped(name)
        if g.raised is not None:
            continue
        # the LAYERS records of the shipped file sliced by hand (name a3, bottom and centre f10): what the reader holds
        # must be what the file says (a comparison of two reads of the same reader cannot see what both of them drop)
        with open(geos.shipped_path(name)) as fh:
            flines = fh.read().split('\n')
        k0 = next(i for i, l in enumerate(flines) if l[:5].upper() == 'LAYER') + 1
        recs = []
        for l in flines[k0:]:
            if not l.strip():
                break
            recs.append((l[0:3], float(l[3:13]), float(l[13:23]) if l[13:23].strip() else None))
        ctx.count('shipped_layer_records_resliced', len(recs))
        if len(recs) == geo.num_layers:
            for (nm, bot, cen), lay in zip(recs, geo.layerlist):
                if abs(lay.bottom - bot) > 1e-9 or (cen is not None and abs(lay.centre - cen) > 1e-9):
                    ctx.violation('shipped:layer-record-misread', '%s: LAYERS record %r (bottom %r, centre %r) is held as bottom %r, centre %r' % (name, nm, bot, cen, lay.bottom, lay.centre), case)
                    break
        else:
            ctx.violation('shipped:layer-record-misread', '%s: %d LAYERS records in the file, %d layers read' % (name, len(recs), geo.num_layers), case)
        roundtrip(ctx, geo, case, 'shipped')
        ctx.count('shipped_or_derived')
        ctx.case(('shipped', name), nontrivial=True, sample=True)
    small = [n for n in spec['which'] if n in ('g5', 'g6', 'g7')] or ['g7']
    for k in range(spec['derived']):
        name = rng.choice(small)
        ops = []
        case = {'geo': {'kind': 'shipped', 'name': name}, 'derive': ops, 'seed': ctx.seed}
        try:
            geo = derive(rng, name, ops)
        except Exception as e:      # editing the geometry is C10/C11 matter, not a round-trip failure
            ctx.violation('derive:%s' % type(e).__name__, 'building a derived geometry failed: %r after %r' % (e, ops), case, prop='C10')
            ctx.count('derivations_failed')
            continue
        if False:
            geo = geos.load_shipped(name)
            pass
        roundtrip(ctx, geo, case, 'derived')
        ctx.count('shipped_or_derived')
        ctx.case(repr(case), nontrivial=True)
    ctx.count('records_resliced_in_situ', mon.records)


# -- Fortran-style geometry files ----------------------------------------------------------------------

def emit_geometry(m, variant):
    """Text of a geometry file from a model dict, laid out per doc/source/mulformat.rst."""
    L = []
    sc = 1.0 if not m['unit_type'].strip() else FT
    h = 'GENER' + FW.fI(m['convention'], 1) + FW.fI(m['atmosphere_type'], 1)
    h += FW.fE(m['atmosphere_volume'], 10, 2, variant['estyle']) if m['atmosphere_volume'] is not None else ' ' * 10
    h += FW.fE(m['atmosphere_connection'], 10, 2, variant['estyle']) if m['atmosphere_connection'] is not None else ' ' * 10
    h += FW.fA(m['unit_type'].strip(), 5)
    h += FW.fF(m['gdcx'], 10, 2) + FW.fF(m['gdcy'], 10, 2)
    h += ' ' if variant['blank_flags'] else '0'
    h += FW.fF(m['permeability_angle'], 10, 2) if (m['permeability_angle'] or not variant['blank_flags']) else ' ' * 10
    bo = {None: None, 'layer_column': 0, 'dmplex': 1}[m['block_order']]
    h += FW.fI(bo, 2)
    L.append(h.rstrip() if variant['strip'] else h)
    L.append(variant['verti'])
    for name, x, y in m['nodes']:
        L.append(FW.fA(name, 3) + FW.fF(x / sc, 10, 2) + FW.fF(y / sc, 10, 2))
    L.append('')
    L.append('GRID')
    for name, nodes, spec, centre in m['columns']:
        l = FW.fA(name, 3) + FW.fI(spec, 1) + FW.fI(len(nodes), 2)
        if spec:
            l += FW.fF(centre[0] / sc, 10, 2) + FW.fF(centre[1] / sc, 10, 2)
        L.append(l)
        for n in nodes:
            L.append(FW.fA(n, 3))
    L.append('')
    L.append(variant['conne'])
    for a, b in m['connections']:
        L.append(FW.fA(a, 3) + FW.fA(b, 3))
    L.append('')
    L.append(variant['layer'])
    for k, (name, bottom, centre) in enumerate(m['layers']):
        l = FW.fA(name, 3) + FW.fF(bottom / sc, 10, 2)
        if not (variant['blank_centres'] and centre is not None):
            l += FW.fF(centre / sc, 10, 2)
        L.append(l)
    L.append('')
    if m['surfaces']:
        L.append(variant['surf'])
        for name, _, _, _ in m['columns']:
            if name in m['surfaces']:
                L.append(FW.fA(name, 3) + FW.fF(m['surfaces'][name] / sc, 10, 2))
        L.append('')
    if m['wells']:
        L.append('WELLS')
        for name, pts in m['wells']:
            for p in pts:
                L.append(FW.fA(name, 5) + ''.join(FW.fF(x / sc, 10, 1) for x in p))
        L.append('')
    L.append('')
    return '\n'.join(L) + '\n'


def run_fortran(ctx, spec):
    mg = R.mulgrids
    rng = ctx.rng
    for i in range(spec['n']):
        with ctx.guard({'gen': i}, where='generate') as g:
            geo, desc = gen_geo(ctx, ctx.shard * 1000 + i * 7)
        if g.raised is not None:
            continue
        m = model_of(geo, projected=True)
        # layer centres midway between the boundaries so that a blank centre field means the same
        blank_centres = rng.random() < 0.4
        variant = {'estyle': rng.choice(['E', '1P', 'e']), 'blank_flags': rng.random() < 0.5, 'strip': rng.random() < 0.5,
                   'verti': rng.choice(['VERTICES', 'VERTI']), 'conne': rng.choice(['CONNECTIONS', 'CONNE']),
                   'layer': rng.choice(['LAYERS', 'LAYER']), 'surf': rng.choice(['SURFA', 'SURF', 'SURFACE']),
                   'blank_centres': blank_centres}
        if blank_centres:
            lays = m['layers']
            ok = all(abs(lays[k][2] - 0.5 * (lays[k][1] + lays[k - 1][1])) < 0.006 for k in range(1, len(lays)))
            if not ok:
                variant['blank_centres'] = False
        case = {'geo': desc, 'variant': variant, 'seed': ctx.seed, 'shard': ctx.shard, 'index': i}
        text = emit_geometry(m, variant)
        fn = os.path.join(ctx.tmp, 'c03_f.dat')
        with open(fn, 'w') as f:
            f.write(text)
        with ctx.guard(case, where='read-fortran-style') as g:
            g1 = mg.mulgrid(fn)
        if g.raised is not None:
            continue
        ctx.evaluated()
        ctx.count('fortran_style_files')
        ctx.case(('fortran', repr(desc), repr(variant)), nontrivial=geo.num_columns >= 4)
        got = model_of(g1)
        exp = dict(m)
        if variant['blank_centres']:
            # blank centre fields: midpoints computed by the reader
            got['layers'] = [(n, b, None) for n, b, c in got['layers']]
            exp['layers'] = [(n, b, None) for n, b, c in exp['layers']]
            mids_ok = all(abs(l.centre - (0.5 * (l.bottom + g1.layerlist[k].bottom))) < 1e-9 for k, l in enumerate(g1.layerlist[1:]))
            if not mids_ok:
                ctx.violation('fortran-style:blank-layer-centre', 'blank layer centre not read as the mid-point of the layer', case)
        for kind, what in diff_models(exp, got):
            ctx.violation('fortran-style:%s' % kind + (':feet' if m['unit_type'].strip() else ''), what, case)
            break
        if list(g1.block_name_list) != list(geo.block_name_list):
            ctx.violation('fortran-style:block-name-list', 'block names differ from the geometry the file was emitted from', case)


def run_shard(ctx, spec):
    {'gen': run_gen, 'fortran': run_fortran, 'shipped': run_shipped}[spec['kind']](ctx, spec)


def replay(ctx, case):
    ctx.rng.seed(case.get('seed', 0) * 1000003 + case.get('shard', 0))
    if 'variant' in case:
        run_fortran(ctx, {'n': case['index'] + 1})
    elif case['geo'].get('kind') == 'shipped':
        run_shipped(ctx, {'which': [case['geo']['name']], 'derived': 0})
    else:
        ctx.shard = case.get('shard', 0)
        run_gen(ctx, {'n': case['index'] + 1})
