"""C01 -- TOUGH2 data file write/read round trip preserves the whole model.

Monitor shape: round-trip history + model.  A generated case descriptor is turned
into a t2data object through the public API (build), written with the real writer,
re-read with the real reader and projected (model_of); the result must equal the
descriptor projected through the formats of the carrying fields (expected).  Then
w2 = write(read(w1)) must equal w1 up to trailing blanks, and w3, w4 must be
byte-identical to w2 (main file, MESH, MESHA/MESHB, .pdat each).  A second oracle
feeds the reader with files rendered by an own Fortran-style emitter in arbitrary
legal section order.  Real files under tests/data go through the same cycle.
"""
import glob
import os
import shutil

from vf.core import HarnessError, REPO
from vf.gen import datacase
from vf.oracle import fortran_writer as FW
from vf.repo import R
from vf import monitors, probes

XP_SECTIONS = ['ROCKS', 'ELEME', 'CONNE', 'RPCAP', 'GENER']

INFO = {
    'rule': ('cases = data-object descriptors: flavour x any subset of the 23 section kinds x list lengths from {0,1,3,4,5,7,8,9,12,13} x '
             'table generators with 1..12 times with/without enthalpy x 0..13 default incons x None in optional fields x mesh in file / '
             'MESH / MESHA+MESHB x extra precision off / on (any subset of the five sections) / echoed; Fortran-style renderings of the '
             'same descriptors in arbitrary section order; the real files under tests/data. Distinct = distinct descriptor; '
             'non-trivial = >= 3 sections and >= 1 list section with >= 2 entries.'),
    'require': {
        'quick': {'counters': {'cycles': 300, 'models_compared': 300, 'byte_identity_checks': 600, 'fortran_style_files': 50,
                               'real_files': 2, 'records_resliced_in_situ': 5000},
                  'seen': {'configuration': 8}, 'nontrivial': 200},
        'thorough': {'counters': {'cycles': 21000, 'models_compared': 21000, 'byte_identity_checks': 42000, 'fortran_style_files': 3000,
                                  'real_files': 6, 'records_resliced_in_situ': 600000},
                     'seen': {'configuration': 10}, 'nontrivial': 15000},
    },
    'watchdog_s': {'quick': 1200, 'thorough': 5400},
    'assumptions': ['values are generated to fit their fields (C02 decides the others)',
                    'the format tables (column positions) are taken as given; the Fortran-style emitter is independent in rendering, '
                    'record structure and section order',
                    'domain: <= 4 variables per in-file INCON entry / INDOM entry, DIFFU only with MULTI, selection integer[0] = number of '
                    'float lines, distinct block and connection keys (generators may share block and name: 15% of decks), ITAB non-blank iff an enthalpy table is given, short output and history requests only with an in-file mesh'],
}


def plan(tier, seed):
    if tier == 'quick':
        return [{'kind': 'gen', 'n': 350} for _ in range(5)] + [{'kind': 'fortran', 'n': 300} for _ in range(2)] + [{'kind': 'real', 'which': 'small'}]
    return [{'kind': 'gen', 'n': 2400} for _ in range(13)] + [{'kind': 'fortran', 'n': 1800} for _ in range(2)] + [{'kind': 'real', 'which': 'all'}]


# ---------------------------------------------------------------------------------------------------
# build: descriptor -> t2data through the public API
# ---------------------------------------------------------------------------------------------------

def build(c):
    import numpy as np
    t2d, t2g = R.t2data, R.t2grids
    dat = t2d.t2data()
    dat.title = c['title']
    dat.simulator = c['simulator']
    for rk in c['rocks']:
        rt = t2g.rocktype(rk['name'], rk['nad'], rk['density'], rk['porosity'], list(rk['permeability']), rk['conductivity'], rk['specific_heat'])
        if rk['extra']:
            for k, v in rk['extra'].items():
                setattr(rt, k, v)
        if rk['relative_permeability']:
            rt.relative_permeability = {'type': rk['relative_permeability']['type'], 'parameters': list(rk['relative_permeability']['parameters'])}
            rt.capillarity = {'type': rk['capillarity']['type'], 'parameters': list(rk['capillarity']['parameters'])}
        dat.grid.add_rocktype(rt)
    for b in c['blocks']:
        dat.grid.add_block(t2g.t2block(b['name'], b['volume'], dat.grid.rocktype[b['rock']],
                                       centre=None if b['centre'] is None else np.array(b['centre']),
                                       ahtx=b['ahtx'], pmx=b['pmx'], nseq=b['nseq'], nadd=b['nadd']))
    for k in c['connections']:
        dat.grid.add_connection(t2g.t2connection([dat.grid.block[k['block1']], dat.grid.block[k['block2']]], k['direction'],
                                                 list(k['distance']), k['area'], k['dircos'], k['sigma'], k['nseq'], k['nad1'], k['nad2']))
    p = c['param']
    for key, v in p.items():
        if key == 'option':
            dat.parameter['option'] = np.array([0] + list(v), np.int8)
        elif key in ('timestep', 'default_incons'):
            dat.parameter[key] = list(v)
        else:
            dat.parameter[key] = v
    if c['more_option']:
        dat.more_option = np.array([0] + list(c['more_option']), np.int8)
    dat.start, dat.noversion = c['start'], c['noversion']
    if c['rpcap']:
        dat.relative_permeability = {'type': c['rpcap']['relative_permeability']['type'], 'parameters': list(c['rpcap']['relative_permeability']['parameters'])}
        dat.capillarity = {'type': c['rpcap']['capillarity']['type'], 'parameters': list(c['rpcap']['capillarity']['parameters'])}
    if c['lineq']:
        dat.lineq = dict(c['lineq'])
    if c['solver']:
        dat.solver = dict(c['solver'])
    if c['multi']:
        dat.multi = dict(c['multi'])
    if c['times']:
        dat.output_times = dict(c['times'], time=list(c['times']['time']))
    if c['selection']:
        dat.selection = {'integer': list(c['selection']['integer']), 'float': list(c['selection']['float'])}
    if c['diffusion']:
        dat.diffusion = [list(r) for r in c['diffusion']]
    mm = []
    for kind, body in c['meshmaker']:
        if kind == 'rz2d':
            mm.append(('rz2d', [(s, dict((k, list(v) if isinstance(v, list) else v) for k, v in d.items())) for s, d in body]))
        elif kind == 'xyz':
            mm.append(('xyz', [body[0]] + [dict((k, list(v) if isinstance(v, list) else v) for k, v in d.items()) for d in body[1:]]))
        else:
            mm.append(('minc', dict((k, list(v) if isinstance(v, list) else v) for k, v in body.items())))
    dat.meshmaker = mm
    for g in c['generators']:
        dat.add_generator(t2d.t2generator(name=g['name'], block=g['block'], nseq=g['nseq'], nadd=g['nadd'], nads=g['nads'], type=g['type'],
                                          ltab=g['ltab'], itab=g['itab'], gx=g['gx'], ex=g['ex'], hg=g['hg'], fg=g['fg'],
                                          time=list(g['time']), rate=list(g['rate']), enthalpy=list(g['enthalpy'])))
    if c['short']:
        sh = {}
        s = c['short']
        if 'frequency' in s:
            sh['frequency'] = s['frequency']
        if 'block' in s:
            sh['block'] = [dat.grid.block[n] for n in s['block']]
        if 'connection' in s:
            sh['connection'] = [dat.grid.connection[tuple(n)] for n in s['connection']]
        if 'generator' in s:
            sh['generator'] = [dat.generator[tuple(n)] for n in s['generator']]
        dat.short_output = sh
    dat.history_block = [dat.grid.block[n] for n in c['history_block']]
    dat.history_connection = [dat.grid.connection[tuple(n)] for n in c['history_connection']]
    dat.history_generator = [dat.grid.block[n] for n in c['history_generator']]
    dat.incon = dict((k, [v[0], list(v[1])] + list(v[2:])) for k, v in c['incon'].items())
    dat.indom = dict((k, list(v)) for k, v in c['indom'].items())
    dat.end_keyword = c['end_keyword']
    return dat


# ---------------------------------------------------------------------------------------------------
# model_of: t2data -> flat {path: value}
# ---------------------------------------------------------------------------------------------------

def num(v):
    if v is None:
        return None
    if isinstance(v, str):
        return v
    try:
        import numpy as np
        if isinstance(v, (np.integer,)):
            return int(v)
        if isinstance(v, (bool,)):
            return bool(v)
        if isinstance(v, int):
            return v
        return float(v)
    except Exception:
        return v


def trim(lst):
    lst = [num(x) for x in lst]
    while lst and lst[-1] is None:
        lst.pop()
    return lst


def fixn(n):
    return None if n is None else datacase.own_fix(n) if len(n) == 5 else n


def model_of(dat):
    m = {}
    m['title'] = dat.title.strip()
    m['simulator'] = (dat.simulator or '').strip()
    m['flavour'] = dat.type
    for i, rt in enumerate(dat.grid.rocktypelist):
        pre = 'rock[%d].' % i
        m[pre + 'name'] = rt.name
        m[pre + 'nad'] = num(rt.nad)
        for k in ('density', 'porosity', 'conductivity', 'specific_heat'):
            m[pre + k] = num(getattr(rt, k))
        m[pre + 'permeability'] = [num(x) for x in rt.permeability]
        if rt.nad is not None and rt.nad >= 1:
            for k in ('compressibility', 'expansivity', 'dry_conductivity', 'tortuosity', 'klinkenberg', 'xkd3', 'xkd4'):
                m[pre + k] = num(getattr(rt, k, None))
            if rt.nad >= 2:
                m[pre + 'rp.type'] = num(rt.relative_permeability.get('type'))
                m[pre + 'rp.parameters'] = trim(rt.relative_permeability.get('parameters', []))
                m[pre + 'cp.type'] = num(rt.capillarity.get('type'))
                m[pre + 'cp.parameters'] = trim(rt.capillarity.get('parameters', []))
    m['rock.count'] = len(dat.grid.rocktypelist)
    p = dat.parameter
    for k in ('max_iterations', 'print_level', 'max_timesteps', 'max_duration', 'print_interval', 'texp', 'be', 'diff0', 'tstart', 'tstop',
              'const_timestep', 'max_timestep', 'gravity', 'timestep_reduction', 'scale', 'relative_error', 'absolute_error', 'pivot',
              'upstream_weight', 'newton_weight', 'derivative_increment'):
        m['param.' + k] = num(p.get(k))
    pb = p.get('print_block')
    m['param.print_block'] = fixn(pb) if (pb is not None and pb.strip()) else None
    m['param.option'] = [int(x) for x in p['option'][1:25]]
    m['param.timestep'] = [num(x) for x in p['timestep']]
    m['param.default_incons'] = trim(p['default_incons'])
    m['more_option'] = [int(x) for x in dat.more_option[1:22]]
    m['start'], m['noversion'] = bool(dat.start), bool(dat.noversion)
    if dat.relative_permeability:
        m['rpcap.rp.type'] = num(dat.relative_permeability.get('type'))
        m['rpcap.rp.parameters'] = trim(dat.relative_permeability.get('parameters', []))
        m['rpcap.cp.type'] = num(dat.capillarity.get('type'))
        m['rpcap.cp.parameters'] = trim(dat.capillarity.get('parameters', []))
    for name, d in (('lineq', dat.lineq), ('solver', dat.solver), ('multi', dat.multi)):
        for k, v in (d or {}).items():
            if v is not None:
                m['%s.%s' % (name, k)] = v.strip() if isinstance(v, str) else num(v)
    if dat.output_times:
        for k, v in dat.output_times.items():
            m['times.' + k] = [num(x) for x in v] if k == 'time' else num(v)
    if dat.selection:
        m['selection.integer'] = trim(dat.selection['integer'])
        m['selection.float'] = trim(dat.selection['float'])
    if dat.diffusion:
        m['diffusion'] = [[num(x) for x in row] for row in dat.diffusion]
    m['block.names'] = [b.name for b in dat.grid.blocklist]
    for b in dat.grid.blocklist:
        pre = 'block[%s].' % b.name
        m[pre + 'nseq'], m[pre + 'nadd'] = num(b.nseq), num(b.nadd)
        m[pre + 'rock'] = b.rocktype.name
        m[pre + 'volume'], m[pre + 'ahtx'], m[pre + 'pmx'] = num(b.volume), num(b.ahtx), num(b.pmx)
        m[pre + 'centre'] = None if b.centre is None else [num(x) for x in b.centre]
    m['connection.names'] = [[k.block[0].name, k.block[1].name] for k in dat.grid.connectionlist]
    for k in dat.grid.connectionlist:
        pre = 'connection[%s,%s].' % (k.block[0].name, k.block[1].name)
        m[pre + 'nseq'], m[pre + 'nad1'], m[pre + 'nad2'] = num(k.nseq), num(k.nad1), num(k.nad2)
        m[pre + 'direction'] = num(k.direction)
        m[pre + 'distance'] = [num(x) for x in k.distance]
        m[pre + 'area'], m[pre + 'dircos'], m[pre + 'sigma'] = num(k.area), num(k.dircos), num(k.sigma)
    mm = []
    for kind, body in dat.meshmaker:
        if kind == 'rz2d':
            mm.append(['rz2d', [[s, dict((k, trim(v) if isinstance(v, list) else num(v)) for k, v in d.items() if v is not None)] for s, d in body]])
        elif kind == 'xyz':
            mm.append(['xyz', [num(body[0])] + [dict((k, trim(v) if isinstance(v, list) else (v.strip() if isinstance(v, str) else num(v)))
                                                     for k, v in d.items() if v is not None) for d in body[1:]]])
        else:
            mm.append(['minc', dict((k, trim(v) if isinstance(v, list) else (v.strip() if isinstance(v, str) else num(v))) for k, v in body.items())])
    m['meshmaker'] = mm
    m['generator.keys'] = [[g.block, g.name] for g in dat.generatorlist]
    occ = {}
    for g in dat.generatorlist:
        n = occ[(g.block, g.name)] = occ.get((g.block, g.name), 0) + 1
        pre = 'generator[%s,%s]%s.' % (g.block, g.name, '' if n == 1 else '#%d' % n)
        for k in ('nseq', 'nadd', 'nads', 'ltab', 'gx', 'ex', 'hg', 'fg'):
            m[pre + k] = num(getattr(g, k))
        m[pre + 'type'] = g.type
        m[pre + 'itab'] = (g.itab or '').strip()
        m[pre + 'time'], m[pre + 'rate'], m[pre + 'enthalpy'] = [num(x) for x in g.time], [num(x) for x in g.rate], [num(x) for x in g.enthalpy]
    if set((g.block, g.name) for g in dat.generatorlist) != set(dat.generator.keys()):
        m['generator.lookup'] = 'keys differ from list'
    if dat.short_output:
        s = dat.short_output
        if s.get('frequency'):
            m['short.frequency'] = num(s['frequency'])
        if 'block' in s:
            m['short.block'] = [b.name for b in s['block']]
        if 'connection' in s:
            m['short.connection'] = [[k.block[0].name, k.block[1].name] for k in s['connection']]
        if 'generator' in s:
            m['short.generator'] = [[g.block, g.name] for g in s['generator']]
    m['history_block'] = [b if isinstance(b, str) else b.name for b in dat.history_block]
    m['history_connection'] = [list(k) if isinstance(k, tuple) else [k.block[0].name, k.block[1].name] for k in dat.history_connection]
    m['history_generator'] = [b if isinstance(b, str) else b.name for b in dat.history_generator]
    for k, v in dat.incon.items():
        m['incon[%s]' % k] = [num(v[0]), trim(v[1])] + [num(x) for x in v[2:]]
    for k, v in dat.indom.items():
        m['indom[%s]' % k] = trim(v)
    m['end_keyword'] = dat.end_keyword
    return m


# ---------------------------------------------------------------------------------------------------
# expected: descriptor -> the flat model a correct round trip gives back
# ---------------------------------------------------------------------------------------------------

class Fmt(object):
    def __init__(self, xp, binary):
        self.xp, self.binary = xp, binary

    def spec(self, section, spec):
        if section in self.xp:
            return '15.8' + spec[-1]
        return spec

    def r(self, v, spec, section=None):
        if v is None:
            return None
        if section in ('ELEME', 'CONNE') and self.binary:
            return float(v)
        sp = self.spec(section, spec) if section else spec
        s = ('%' + sp) % v
        if len(s) > int(sp.split('.')[0]):
            raise HarnessError('generated value %r does not fit %s' % (v, sp))
        return float(s)

    def rl(self, lst, spec, section=None):
        return [self.r(v, spec, section) for v in lst]


def zero_none(v):
    return None if v in (0, None) else v


def expected(c, config=None):
    cfg = config or c['config']
    aut = c['flavour'] == 'AUTOUGH2'
    xp = cfg['extra_precision']
    xp = list(XP_SECTIONS) if xp is True else list(xp or [])
    if not aut:
        xp = []
    # the extra-precision file is read first (when SIMUL is met), so its ELEME / CONNE win over an
    # external mesh file
    binary = cfg['mesh'] == 'binary' and 'ELEME' not in xp
    F = Fmt(xp, binary)
    m = {}
    m['title'] = c['title'].strip()
    m['simulator'] = c['simulator'].strip()
    m['flavour'] = c['flavour']
    for i, rk in enumerate(c['rocks']):
        pre = 'rock[%d].' % i
        m[pre + 'name'] = rk['name']
        m[pre + 'nad'] = rk['nad']
        for k in ('density', 'porosity', 'conductivity', 'specific_heat'):
            m[pre + k] = F.r(rk[k], '10.4e', 'ROCKS')
        m[pre + 'permeability'] = F.rl(rk['permeability'], '10.4e', 'ROCKS')
        if rk['nad'] is not None and rk['nad'] >= 1:
            for k, v in rk['extra'].items():
                m[pre + k] = F.r(v, '10.4e', 'ROCKS')
            if rk['nad'] >= 2:
                m[pre + 'rp.type'] = rk['relative_permeability']['type']
                m[pre + 'rp.parameters'] = trim(F.rl(rk['relative_permeability']['parameters'], '10.3e', 'ROCKS'))
                m[pre + 'cp.type'] = rk['capillarity']['type']
                m[pre + 'cp.parameters'] = trim(F.rl(rk['capillarity']['parameters'], '10.3e', 'ROCKS'))
    m['rock.count'] = len(c['rocks'])
    p = c['param']
    for k in ('max_iterations', 'print_level', 'max_timesteps', 'max_duration', 'print_interval'):
        m['param.' + k] = p[k]
    for k in ('texp', 'be', 'tstart', 'tstop', 'const_timestep', 'max_timestep'):
        m['param.' + k] = F.r(p.get(k), '10.3e')
    m['param.diff0'] = F.r(p.get('diff0'), '10.3e') if aut else None
    for k in ('gravity', 'timestep_reduction', 'scale', 'relative_error', 'absolute_error', 'pivot', 'upstream_weight', 'newton_weight',
              'derivative_increment'):
        m['param.' + k] = F.r(p[k], '10.4e')
    m['param.print_block'] = fixn(p['print_block'])
    m['param.option'] = list(p['option'])
    if p['const_timestep'] >= 0:
        m['param.timestep'] = [F.r(p['const_timestep'], '10.3e')]
    else:
        m['param.timestep'] = F.rl(p['timestep'], '10.4e')
    m['param.default_incons'] = trim(F.rl(p['default_incons'], '20.14e'))
    m['more_option'] = list(c['more_option']) if c['more_option'] else [0] * 21
    m['start'], m['noversion'] = c['start'], c['noversion']
    if c['rpcap']:
        m['rpcap.rp.type'] = c['rpcap']['relative_permeability']['type']
        m['rpcap.rp.parameters'] = trim(F.rl(c['rpcap']['relative_permeability']['parameters'], '10.3e', 'RPCAP'))
        m['rpcap.cp.type'] = c['rpcap']['capillarity']['type']
        m['rpcap.cp.parameters'] = trim(F.rl(c['rpcap']['capillarity']['parameters'], '10.3e', 'RPCAP'))
    if c['lineq']:
        for k, v in c['lineq'].items():
            m['lineq.' + k] = F.r(v, '10.4e') if k == 'epsilon' else v
    if c['solver']:
        for k, v in c['solver'].items():
            m['solver.' + k] = F.r(v, '10.4e') if k in ('relative_max_iterations', 'closure') else v
    if c['multi']:
        for k, v in c['multi'].items():
            m['multi.' + k] = v
    if c['times']:
        t = c['times']
        m['times.num_times_specified'] = t['num_times_specified']
        if t['num_times'] is not None:
            m['times.num_times'] = t['num_times']
        for k in ('max_timestep', 'time_increment'):
            if t[k] is not None:
                m['times.' + k] = F.r(t[k], '10.4e')
        m['times.time'] = F.rl(t['time'], '10.4e')
    if c['selection']:
        m['selection.integer'] = trim(c['selection']['integer'])
        m['selection.float'] = trim(F.rl(c['selection']['float'], '10.3e'))
    if c['diffusion']:
        m['diffusion'] = [F.rl(r, '10.3e') for r in c['diffusion']]
    m['block.names'] = [b['name'] for b in c['blocks']]
    for b in c['blocks']:
        pre = 'block[%s].' % b['name']
        m[pre + 'nseq'], m[pre + 'nadd'] = (None, None) if binary else (zero_none(b['nseq']), zero_none(b['nadd']))
        m[pre + 'rock'] = b['rock']
        m[pre + 'volume'] = F.r(b['volume'], '10.4e', 'ELEME')
        m[pre + 'ahtx'], m[pre + 'pmx'] = F.r(b['ahtx'], '10.4e', 'ELEME'), F.r(b['pmx'], '10.4e', 'ELEME')
        m[pre + 'centre'] = None if b['centre'] is None else F.rl(b['centre'], '10.3e', 'ELEME')
    m['connection.names'] = [[k['block1'], k['block2']] for k in c['connections']]
    for k in c['connections']:
        pre = 'connection[%s,%s].' % (k['block1'], k['block2'])
        m[pre + 'nseq'], m[pre + 'nad1'], m[pre + 'nad2'] = (None, None, None) if binary else (zero_none(k['nseq']), zero_none(k['nad1']), zero_none(k['nad2']))
        m[pre + 'direction'] = k['direction']
        m[pre + 'distance'] = F.rl(k['distance'], '10.4e', 'CONNE')
        m[pre + 'area'] = F.r(k['area'], '10.4e', 'CONNE')
        m[pre + 'dircos'] = F.r(k['dircos'], '10.7f', 'CONNE')
        m[pre + 'sigma'] = F.r(k['sigma'], '10.3e', 'CONNE')
    mm = []
    for kind, body in c['meshmaker']:
        if kind == 'rz2d':
            subs = []
            for s, d in body:
                dd = {}
                for k, v in d.items():
                    dd[k] = trim(F.rl(v, '10.4e')) if isinstance(v, list) else (F.r(v, '10.4e') if isinstance(v, float) else v)
                subs.append([s, dd])
            mm.append(['rz2d', subs])
        elif kind == 'xyz':
            subs = []
            for d in body[1:]:
                dd = {'ntype': d['ntype'].strip(), 'no': d['no'], 'del': F.r(d['del'], '10.4e')}
                if d['del'] == 0:
                    dd['deli'] = trim(F.rl(d['deli'], '10.4e'))
                subs.append(dd)
            mm.append(['xyz', [F.r(body[0], '10.4e')] + subs])
        else:
            mm.append(['minc', {'type': body['type'].strip(), 'dual': body['dual'].strip(), 'num_continua': body['num_continua'],
                                'where': body['where'].strip(), 'spacing': trim(F.rl(body['spacing'], '10.4e')),
                                'vol': trim(F.rl(body['vol'], '10.4e'))}])
    m['meshmaker'] = mm
    m['generator.keys'] = [[g['block'], g['name']] for g in c['generators']]
    occ = {}
    for g in c['generators']:
        n = occ[(g['block'], g['name'])] = occ.get((g['block'], g['name']), 0) + 1
        pre = 'generator[%s,%s]%s.' % (g['block'], g['name'], '' if n == 1 else '#%d' % n)
        for k in ('nseq', 'nadd', 'nads', 'ltab'):
            m[pre + k] = g[k]
        for k in ('gx', 'ex', 'hg', 'fg'):
            m[pre + k] = F.r(g[k], '10.3e', 'GENER')
        m[pre + 'type'] = g['type']
        m[pre + 'itab'] = g['itab'].strip()
        for k in ('time', 'rate', 'enthalpy'):
            m[pre + k] = F.rl(g[k], '14.7e', 'GENER')
    if c['short']:
        s = c['short']
        if s.get('frequency'):
            m['short.frequency'] = s['frequency']
        for k in ('block', 'connection', 'generator'):
            if k in s:
                m['short.' + k] = [list(x) if isinstance(x, (list, tuple)) else x for x in s[k]]
    m['history_block'] = list(c['history_block'])
    m['history_connection'] = [list(x) for x in c['history_connection']]
    m['history_generator'] = list(c['history_generator'])
    order = [b['name'] for b in c['blocks']]
    for k, v in c['incon'].items():
        e = [F.r(v[0], '15.9e'), trim(F.rl(v[1], '20.14e'))]
        if len(v) > 2 and zero_none(v[2]) is not None:
            e += [v[2], zero_none(v[3])]
        m['incon[%s]' % k] = e
    for k, v in c['indom'].items():
        m['indom[%s]' % k] = trim(F.rl(v, '20.13e'))
    m['end_keyword'] = c['end_keyword']
    return m


def section_of(path):
    head = path.split('[')[0].split('.')[0]
    return {'rock': 'ROCKS', 'param': 'PARAM', 'more_option': 'MOMOP', 'rpcap': 'RPCAP', 'lineq': 'LINEQ', 'solver': 'SOLVR', 'multi': 'MULTI',
            'times': 'TIMES', 'selection': 'SELEC', 'diffusion': 'DIFFU', 'block': 'ELEME', 'connection': 'CONNE', 'meshmaker': 'MESHM',
            'generator': 'GENER', 'short': 'SHORT', 'history_block': 'FOFT', 'history_connection': 'COFT', 'history_generator': 'GOFT',
            'incon': 'INCON', 'indom': 'INDOM'}.get(head, head)


def same(a, b):
    if isinstance(a, float) and isinstance(b, (float, int)) and not isinstance(b, bool):
        return a == b or (a != a and b != b)
    if isinstance(a, (list, tuple)) and isinstance(b, (list, tuple)):
        return len(a) == len(b) and all(same(x, y) for x, y in zip(a, b))
    if isinstance(a, dict) and isinstance(b, dict):
        return set(a) == set(b) and all(same(a[k], b[k]) for k in a)
    if isinstance(a, str) and isinstance(b, str):
        return a == b or (len(a) == 5 and len(b) == 5 and datacase.own_fix(a) == datacase.own_fix(b))
    if isinstance(a, int) and isinstance(b, float) and not isinstance(a, bool):
        return float(a) == b
    return a == b


def diff(exp, got):
    out = []
    for k in sorted(set(exp) | set(got)):
        e, g = exp.get(k), got.get(k)
        if not same(e, g):
            detail = k.split('.')[-1] if '[' in k else k
            out.append((section_of(k), detail.split('[')[0], '%s: read back %r, written %r' % (k, g, e)))
    return out


# ---------------------------------------------------------------------------------------------------
# the cycle
# ---------------------------------------------------------------------------------------------------

def files_of(base, cfg, aut):
    fs = [base + '.dat']
    if cfg['mesh'] == 'MESH':
        fs.append(base + '.MESH')
    elif cfg['mesh'] == 'binary':
        fs += [base + '.MESHA', base + '.MESHB']
    if aut and cfg['extra_precision']:
        fs.append(base + '.pdat')
    return fs


def meshname(base, cfg):
    if cfg['mesh'] == 'MESH':
        return base + '.MESH'
    if cfg['mesh'] == 'binary':
        return [base + '.MESHA', base + '.MESHB']
    return ''


def read_all(files):
    out = {}
    for f in files:
        if os.path.exists(f):
            with open(f, 'rb') as fh:
                out[os.path.splitext(f)[1] or f] = fh.read()
        else:
            out[os.path.splitext(f)[1] or f] = None
    return out


def strip_trailing(b):
    if b is None:
        return None
    return b'\n'.join(l.rstrip() for l in b.split(b'\n'))


SECTION_KEYS = ('SIMUL', 'ROCKS', 'PARAM', 'MOMOP', 'START', 'NOVER', 'RPCAP', 'LINEQ', 'SOLVR', 'MULTI', 'TIMES', 'SELEC', 'DIFFU', 'ELEME',
                'CONNE', 'MESHM', 'GENER', 'SHORT', 'FOFT', 'COFT', 'GOFT', 'INCON', 'INDOM', 'ENDCY', 'ENDFI')


def without_echo(b, sections):
    """Main-file bytes with the bodies of the echoed extra-precision sections blanked: the echo is a
    lower-precision copy of what the companion file carries, so a second rounding may legitimately
    change its last digit between the first and the second write."""
    if b is None:
        return None
    out, skipping, short = [], False, False
    for line in b.split(b'\n'):
        key = line[:5].decode('ascii', 'replace').strip()
        if short and not line.strip():
            short = False
        if line[:5] == b'SHORT':
            short = True
        if key in SECTION_KEYS and not short and (len(line.strip()) <= 11 or key == 'SHORT'):
            skipping = key in sections
            out.append(line)
            continue
        out.append(b'' if skipping else line)
    return b'\n'.join(out)


def first_diff(a, b):
    la, lb = (a or b'').split(b'\n'), (b or b'').split(b'\n')
    k = next((i for i, (x, y) in enumerate(zip(la, lb)) if x != y), min(len(la), len(lb)))
    return 'line %d: %r vs %r' % (k + 1, la[k] if k < len(la) else None, lb[k] if k < len(lb) else None)


def label(c):
    cfg = c['config']
    xp = cfg['extra_precision']
    return '%s/%s/%s' % (c['flavour'], cfg['mesh'], 'xp-off' if not (xp and c['flavour'] == 'AUTOUGH2') else ('xp-echo' if cfg['echo'] else 'xp-on'))


def cycle(ctx, dat, case, exp, tag, cfg, aut, lab='real'):
    """w1 = write(D); D1 = read(w1) must equal exp; w2 ~ w1; w3 == w2; w4 == w3."""
    t2d = R.t2data
    bases = [os.path.join(ctx.tmp, 'c01_%s%d' % (tag, i)) for i in range(1, 5)]
    for b in bases:      # no companion file of an earlier case may be picked up
        for f in glob.glob(b + '.*'):
            os.remove(f)
    kw = {}
    if aut and cfg['extra_precision']:
        kw = {'extra_precision': True if cfg.get('extra_precision_as_true') else cfg['extra_precision'], 'echo_extra_precision': cfg['echo']}
        if cfg.get('extra_precision_as_true'):
            ctx.count('extra_precision_requested_with_true')
    with ctx.guard(case, where='write:' + lab) as g:
        m_before = model_of(dat)
        dat.write(bases[0] + '.dat', meshfilename=meshname(bases[0], cfg), **kw)
        sections0 = list(dat._sections)
        m_after = model_of(dat)
    if g.raised is not None:
        return
    # writing is not an edit: the content of the object in memory is what it was (the list of sections and the
    # extra-precision settings are what write() is documented to update: they are not part of the comparison)
    ctx.count('object_unchanged_by_write_checks')
    dw = [x for x in diff(m_before, m_after) if x[0] not in ('sections',)]
    if dw:
        ctx.violation('write-alters-object:%s:%s' % (dw[0][0], dw[0][1]), 'the data object differs after write(): %s' % dw[0][2], case)
        return
    w = [read_all(files_of(bases[0], cfg, aut))]
    cur = None
    for i in range(1, 4):
        with ctx.guard(case, where='read:' + lab) as g:
            cur = t2d.t2data(bases[i - 1] + '.dat', meshfilename=meshname(bases[i - 1], cfg))
        if g.raised is not None:
            return
        if i == 1:
            ctx.evaluated()
            ctx.count('cycles')
            ctx.see('configuration', lab)
            if exp is not None:
                ctx.count('models_compared')
                d = diff(exp, model_of(cur))
                for sec, field, what in d[:1]:
                    ctx.violation('reread:%s:%s' % (sec, field) + (':' + lab.split('/', 1)[1] if lab != 'real' and ('xp' in lab and 'xp-off' not in lab or 'infile' not in lab) else ''), what + (' (+%d more)' % (len(d) - 1) if len(d) > 1 else ''), case)
                if d:
                    return
            got_sections = list(cur._sections)
            es, gs = sections0, got_sections
            if cfg['mesh'] != 'infile':
                es = [s for s in es if s not in ('ELEME', 'CONNE')]
                gs = [s for s in gs if s not in ('ELEME', 'CONNE')]
            if es != gs:
                ctx.violation('section-order:' + lab, 'sections after re-read %r, written %r' % (gs, es), case)
                return
        with ctx.guard(case, where='rewrite:' + lab) as g:
            cur.write(bases[i] + '.dat', meshfilename=meshname(bases[i], cfg))
        if g.raised is not None:
            return
        w.append(read_all(files_of(bases[i], cfg, aut)))
        ctx.count('byte_identity_checks')
        for ext in w[i]:
            a, b = w[i - 1][ext], w[i][ext]
            if i == 1 and ext not in ('.MESHA', '.MESHB'):
                a, b = strip_trailing(a), strip_trailing(b)
            if i == 1 and ext == '.dat' and aut and cfg['extra_precision'] and cfg['echo']:
                xs = XP_SECTIONS if cfg['extra_precision'] is True else cfg['extra_precision']
                a, b = without_echo(a, xs), without_echo(b, xs)
            if a != b:
                what = 'file %s of write #%d differs from write #%d' % (ext, i + 1, i)
                if ext not in ('.MESHA', '.MESHB'):
                    what += ': ' + first_diff(a, b)
                ctx.violation('rewrite-%d-differs:%s:%s' % (i + 1, ext.strip('.'), lab), what, case)
                return
    for b in bases:
        for f in files_of(b, cfg, True):
            if os.path.exists(f):
                os.remove(f)


def first_write_digest(ctx, c):
    """sha1 per file of what a freshly built object of the descriptor is written as (None when it cannot be built / written)."""
    import hashlib
    cfg, aut = c['config'], c['flavour'] == 'AUTOUGH2'
    base = os.path.join(ctx.tmp, 'c01_h')
    for f in glob.glob(base + '.*'):
        os.remove(f)
    kw = {}
    if aut and cfg['extra_precision']:
        kw = {'extra_precision': True if cfg.get('extra_precision_as_true') else cfg['extra_precision'], 'echo_extra_precision': cfg['echo']}
    try:
        build(c).write(base + '.dat', meshfilename=meshname(base, cfg), **kw)
        files = read_all(files_of(base, cfg, aut))
    except Exception:
        return None
    out = dict((ext, hashlib.sha1(b if isinstance(b, bytes) else b.encode('latin-1')).hexdigest()) for ext, b in files.items())
    for f in glob.glob(base + '.*'):
        os.remove(f)
    return out


def nontrivial(c):
    nsec = sum(1 for k in ('rpcap', 'lineq', 'solver', 'multi', 'times', 'selection', 'diffusion', 'short') if c[k]) + 3
    lists = max(len(c['blocks']), len(c['connections']), len(c['generators']), len(c['rocks']))
    return nsec >= 3 and lists >= 2


def run_gen(ctx, spec):
    mon = monitors.RecordMonitor(R.fixed_format_file, lambda key, what, cc: ctx.violation('record:' + key, what, cc, prop='C02'))
    calls = probes.CallCounter()
    t2d = R.t2data.t2data
    for n in dir(t2d):
        if n.startswith('read_') or n.startswith('write_'):
            calls.watch(getattr(t2d, n), n)
    history = []
    for i in range(spec['n']):
        c = datacase.gen_case(ctx.rng)
        case = {'case': c}
        try:
            exp = expected(c)
        except HarnessError:
            ctx.count('generated_value_did_not_fit')
            continue
        with ctx.guard(case, where='build') as g:
            dat = build(c)
        if g.raised is not None:
            continue
        cycle(ctx, dat, case, exp, 'g', c['config'], c['flavour'] == 'AUTOUGH2', label(c))
        ctx.case(repr(c), nontrivial=nontrivial(c))
        if i % 4 == 0 and len(history) < 40:
            history.append((c, first_write_digest(ctx, c)))
        if c.get('duplicate_generator_keys'):
            ctx.count('decks_with_generators_sharing_block_and_name')
        if i < 1:
            ctx.samples.append({'flavour': c['flavour'], 'config': c['config'], 'blocks': len(c['blocks']), 'generators': len(c['generators']),
                                'sections': [k for k in ('rpcap', 'lineq', 'solver', 'multi', 'times', 'selection', 'diffusion', 'short') if c[k]],
                                'first_generator': c['generators'][0] if c['generators'] else None})
    # the same deck written again at the END of the shard, after everything else that happened in this process (in
    # reverse order): the files must be the same bytes - what a model is written as does not depend on what was written before
    for c, d0 in reversed(history):
        if d0 is None:
            continue
        d1 = first_write_digest(ctx, c)
        ctx.count('history_independence_checks')
        if d1 is not None and d1 != d0:
            k = next((e for e in sorted(d0) if d0[e] != d1.get(e)), '?')
            ctx.violation('write-depends-on-process-history:%s' % k.strip('.'), 'the same deck (%s) written early and late in one process gives different %s files' % (label(c), k), {'case': c})
            break
    ctx.count('records_resliced_in_situ', mon.records)
    for k, v in calls.counts.items():
        ctx.see('read_write_methods_called', k, v) if v else None


# ---------------------------------------------------------------------------------------------------
# real files
# ---------------------------------------------------------------------------------------------------

REAL = [('AUTOUGH2/1/case1.dat', None, 'big'), ('AUTOUGH2/2/case2.dat', None, 'big'), ('AUTOUGH2/3/a1.dat', None, 'big'),
        ('TOUGH2/1/r1q', 'TOUGH2/1/MESH', 'small'), ('TOUGH2/2/eos7c.dat', None, 'small'),
        ('TOUGH2-MP/1/rfp_nomesh', ['TOUGH2-MP/1/MESHA', 'TOUGH2-MP/1/MESHB'], 'small')]


def run_real(ctx, spec):
    t2d = R.t2data
    d = os.path.join(REPO, 'tests', 'data')
    for main, mesh, size in REAL:
        if spec['which'] == 'small' and size != 'small':
            continue
        case = {'file': main}
        # private copies (the .pdat companion is looked up next to the main file)
        src = os.path.join(d, main)
        work = os.path.join(ctx.tmp, 'real')
        os.makedirs(work, exist_ok=True)
        local = os.path.join(work, os.path.basename(main))
        shutil.copy(src, local)
        pd = os.path.splitext(src)[0] + '.pdat'
        if os.path.exists(pd):
            shutil.copy(pd, os.path.splitext(local)[0] + '.pdat')
        if mesh is None:
            mf, cfg = '', {'mesh': 'infile', 'extra_precision': [], 'echo': False}
        elif isinstance(mesh, str):
            mf, cfg = os.path.join(d, mesh), {'mesh': 'MESH', 'extra_precision': [], 'echo': False}
        else:
            mf, cfg = [os.path.join(d, x) for x in mesh], {'mesh': 'binary', 'extra_precision': [], 'echo': False}
        with ctx.guard(case, where='read-real') as g:
            dat = t2d.t2data(local, meshfilename=mf)
        if g.raised is not None:
            continue
        aut = dat.type == 'AUTOUGH2'
        cfg['extra_precision'] = list(dat.extra_precision)
        cfg['echo'] = dat.echo_extra_precision
        m0 = model_of(dat)
        ctx.see('real_file_sections', '%s: %s' % (main, ' '.join(dat._sections)))
        # the first write of a foreign file is the library's normal form; from there on the cycle must be exact
        case2 = dict(case, config=cfg, flavour=dat.type)
        cycle_real(ctx, dat, case2, m0, cfg, aut)
        ctx.count('real_files')
        ctx.case(('real', main), nontrivial=True, sample=True)


def cycle_real(ctx, dat, case, m0, cfg, aut):
    t2d = R.t2data
    bases = [os.path.join(ctx.tmp, 'c01_r%d' % i) for i in range(1, 4)]
    for b in bases:
        for f in glob.glob(b + '.*'):
            os.remove(f)
    prev = None
    cur = dat
    for i in range(3):
        with ctx.guard(case, where='write-real') as g:
            cur.write(bases[i] + '.dat', meshfilename=meshname(bases[i], cfg))
        if g.raised is not None:
            return
        w = read_all(files_of(bases[i], cfg, aut))
        if prev is not None:
            ctx.count('byte_identity_checks')
            for ext in w:
                a, b = prev[ext], w[ext]
                if i == 1 and ext not in ('.MESHA', '.MESHB'):
                    a, b = strip_trailing(a), strip_trailing(b)
                if a != b:
                    ctx.violation('real:rewrite-%d-differs:%s' % (i + 1, ext.strip('.')), '%s: %s' % (case['file'], first_diff(a, b) if ext not in ('.MESHA', '.MESHB') else 'binary differs'), case)
                    return
        prev = w
        with ctx.guard(case, where='reread-real') as g:
            cur = t2d.t2data(bases[i] + '.dat', meshfilename=meshname(bases[i], cfg))
        if g.raised is not None:
            return
        ctx.evaluated()
        ctx.count('cycles')
        if i == 0:
            ctx.count('models_compared')
            m1 = model_of(cur)
            d = diff_real(m0, m1)
            for sec, field, what in d[:1]:
                ctx.violation('real:reread:%s:%s' % (sec, field), '%s: %s (+%d more)' % (case['file'], what, len(d) - 1), case)
            if d:
                return


def diff_real(m0, m1):
    """Model of the object read from the original file vs the object after write+read:
    reals agree to the precision of the carrying field (4 significant digits at least)."""
    out = []
    for k in sorted(set(m0) | set(m1)):
        a, b = m0.get(k), m1.get(k)
        if not close_enough(a, b):
            out.append((section_of(k), k.split('.')[-1].split('[')[0], '%s: %r -> %r' % (k, a, b)))
    return out


def close_enough(a, b):
    if isinstance(a, float) and isinstance(b, (float, int)):
        return a == b or abs(a - b) <= 6e-4 * max(abs(a), abs(b)) or (a != a and b != b)
    if isinstance(a, (list, tuple)) and isinstance(b, (list, tuple)):
        return len(a) == len(b) and all(close_enough(x, y) for x, y in zip(a, b))
    if isinstance(a, dict) and isinstance(b, dict):
        return set(a) == set(b) and all(close_enough(a[k], b[k]) for k in a)
    return same(a, b)


# ---------------------------------------------------------------------------------------------------
# Fortran-style emitter (own record structure and rendering; column widths from the given tables)
# ---------------------------------------------------------------------------------------------------

def cell(v, spec, style):
    typ = spec[-1]
    w, _, rest = spec[:-1].partition('.')
    w = abs(int(w))
    rest = rest + typ
    if typ == 'x' or v is None:
        return ' ' * w
    if typ == 's':
        return FW.fA(v, w) if spec.startswith('-') else str(v).rjust(w) if len(str(v)) <= w else str(v)[:w]
    if typ == 'd':
        return FW.fI(v, w)
    d = int(rest[:-1])
    if typ == 'f':
        return FW.fF(v, w, d)
    s = FW.fE(v, w, d, style)
    if s is None:
        s = FW.fE(v, w, d, 'e')
    if s is None:
        raise HarnessError('cannot render %r in %s' % (v, spec))
    return s


def rec(table, kind, vals, style):
    names, specs = table[kind]
    vals = list(vals) + [None] * (len(specs) - len(vals))
    return ''.join(cell(v, s, style) for v, s in zip(vals, specs)).rstrip()


def chunks(lst, n):
    return [lst[i:i + n] for i in range(0, len(lst), n)]


def emit_fortran(c, rng, style=None, split_mesh=False):
    """Main-file text for an in-file-mesh, no-extra-precision case, sections in a random legal order.  With
    split_mesh the ELEME and CONNE sections go into a separate MESH text (returned as 4th item)."""
    T = R.t2data.t2data_format_specification
    st = style or rng.choice(['E', '1P', 'e'])
    aut = c['flavour'] == 'AUTOUGH2'
    S = {}
    nm = FW.block_name
    if aut:
        S['SIMUL'] = ['SIMUL', c['simulator']]
    L = ['ROCKS']
    for rk in c['rocks']:
        L.append(rec(T, 'rocks1', [rk['name'], rk['nad'], rk['density'], rk['porosity']] + rk['permeability'] + [rk['conductivity'], rk['specific_heat']], st))
        if rk['nad'] is not None and rk['nad'] >= 1:
            e = rk['extra']
            L.append(rec(T, 'rocks1.1', [e[k] for k in ('compressibility', 'expansivity', 'dry_conductivity', 'tortuosity', 'klinkenberg', 'xkd3', 'xkd4')], st))
            if rk['nad'] >= 2:
                L.append(rec(T, 'rocks1.2', [rk['relative_permeability']['type'], None] + rk['relative_permeability']['parameters'], st))
                L.append(rec(T, 'rocks1.3', [rk['capillarity']['type'], None] + rk['capillarity']['parameters'], st))
    L.append('')
    S['ROCKS'] = L
    p = c['param']
    opt = ''.join(str(x) for x in p['option'])
    if aut:
        l1 = rec(T, 'param1_autough2', [p['max_iterations'], p['print_level'], p['max_timesteps'], p['max_duration'], p['print_interval'], opt, p.get('diff0'), p['texp'], p['be']], st)
    else:
        l1 = rec(T, 'param1', [p['max_iterations'], p['print_level'], p['max_timesteps'], p['max_duration'], p['print_interval'], opt, p['texp'], p['be']], st)
    L = ['PARAM', l1]
    L.append(rec(T, 'param2', [p['tstart'], p['tstop'], p['const_timestep'], p['max_timestep'], nm(p['print_block']) if p['print_block'] else None, None,
                               p['gravity'], p['timestep_reduction'], p['scale']], st))
    if p['const_timestep'] < 0:
        for ch in chunks(p['timestep'], 8):
            L.append(rec(T, 'timestep', ch, st))
    L.append(rec(T, 'param3', [p[k] for k in ('relative_error', 'absolute_error', 'pivot', 'upstream_weight', 'newton_weight', 'derivative_increment')], st))
    di = p['default_incons']
    if di:
        for ch in chunks(di, 4):
            L.append(rec(T, 'default_incons', ch, st))
    else:
        L.append('')
    S['PARAM'] = L
    if c['more_option'] and any(c['more_option']):
        S['MOMOP'] = ['MOMOP', ''.join(str(x) for x in c['more_option'])]
    if c['start']:
        S['START'] = ['START']
    if c['noversion']:
        S['NOVER'] = ['NOVER']
    if c['rpcap']:
        S['RPCAP'] = ['RPCAP', rec(T, 'relative_permeability', [c['rpcap']['relative_permeability']['type'], None] + c['rpcap']['relative_permeability']['parameters'], st),
                      rec(T, 'capillarity', [c['rpcap']['capillarity']['type'], None] + c['rpcap']['capillarity']['parameters'], st)]
    if c['lineq']:
        q = c['lineq']
        S['LINEQ'] = ['LINEQ', rec(T, 'lineq', [q['type'], q['epsilon'], q['max_iterations'], q['gauss'], q['num_orthog']], st)]
    if c['solver']:
        q = c['solver']
        S['SOLVR'] = ['SOLVR', rec(T, 'solver', [q['type'], None, q['z_precond'], None, q['o_precond'], q['relative_max_iterations'], q['closure']], st)]
    if c['multi']:
        q = c['multi']
        if aut:
            S['MULTI'] = ['MULTI', rec(T, 'multi_autough2', [q['num_components'], q['num_equations'], q['num_phases'], q['num_secondary_parameters'], q.get('eos')], st)]
        else:
            S['MULTI'] = ['MULTI', rec(T, 'multi', [q['num_components'], q['num_equations'], q['num_phases'], q['num_secondary_parameters'], q.get('num_inc')], st)]
    if c['times']:
        t = c['times']
        L = ['TIMES', rec(T, 'output_times1', [t['num_times_specified'], t['num_times'], t['max_timestep'], t['time_increment']], st)]
        for ch in chunks(t['time'], 8):
            L.append(rec(T, 'output_times2', ch, st))
        S['TIMES'] = L
    if c['selection']:
        s = c['selection']
        L = ['SELEC', rec(T, 'selec1', s['integer'], st)]
        for ch in chunks(s['float'], 8):
            L.append(rec(T, 'selec2', ch, st))
        S['SELEC'] = L
    if c['diffusion']:
        S['DIFFU'] = ['DIFFU'] + [rec(T, 'diffusion', r, st) for r in c['diffusion']]
    L = ['ELEME']
    # the material field of a block record as TOUGH2 input may spell it: the rock name, the rock's number in ROCKS
    # (an integer in the last columns), or nothing at all for the first rock
    rocknames = [rk['name'] for rk in c['rocks']]
    spell = rng.choice(['name', 'name', 'number', 'blank-for-first', 'mixed'])
    for k, b in enumerate(c['blocks']):
        field = b['rock']
        how = spell if spell != 'mixed' else ['name', 'number', 'blank-for-first'][k % 3]
        if b['rock'] in rocknames and not any(r.strip().isdigit() for r in rocknames):
            if how == 'number':
                field = '%5d' % (rocknames.index(b['rock']) + 1)
            elif how == 'blank-for-first' and rocknames.index(b['rock']) == 0:
                field = '     '
        L.append(rec(T, 'blocks', [nm(b['name']), b['nseq'], b['nadd'], field, b['volume'], b['ahtx'], b['pmx']] + (b['centre'] or []), st))
    L.append('')
    S['ELEME'] = L
    L = ['CONNE']
    for k in c['connections']:
        L.append(rec(T, 'connections', [nm(k['block1']), nm(k['block2']), k['nseq'], k['nad1'], k['nad2'], k['direction']] + k['distance'] +
                     [k['area'], k['dircos'], k['sigma']], st))
    L.append('')
    S['CONNE'] = L
    if c['meshmaker']:
        L = ['MESHMAKER']
        for kind, body in c['meshmaker']:
            if kind == 'rz2d':
                L.append('RZ2D')
                for s, d in body:
                    L.append(s.upper())
                    if s == 'radii':
                        L.append(rec(T, 'radii1', [len(d['radii'])], st))
                        L += [rec(T, 'radii2', ch, st) for ch in chunks(d['radii'], 8)]
                    elif s == 'equid':
                        L.append(rec(T, 'equid', [d['nequ'], None, d['dr']], st))
                    elif s == 'logar':
                        L.append(rec(T, 'logar', [d['nlog'], None, d['rlog'], d['dr']], st))
                    else:
                        L.append(rec(T, 'layer1', [len(d['layer'])], st))
                        L += [rec(T, 'layer2', ch, st) for ch in chunks(d['layer'], 8)]
            elif kind == 'xyz':
                L.append('XYZ')
                L.append(rec(T, 'xyz1', [body[0]], st))
                for d in body[1:]:
                    L.append(rec(T, 'xyz2', [d['ntype'], None, d['no'], d['del']], st))
                    if d['del'] == 0:
                        L += [rec(T, 'xyz3', ch, st) for ch in chunks(d['deli'], 8)]
                L.append('')
            else:
                L.append('MINC')
                L.append(rec(T, 'minc', ['PART ', body['type'], None, body['dual']], st))
                L.append(rec(T, 'part1', [body['num_continua'], len(body['vol']), body['where']] + body['spacing'], st))
                L += [rec(T, 'part2', ch, st) for ch in chunks(body['vol'], 8)]
        L.append('')
        S['MESHM'] = L
    if c['generators']:
        L = ['GENER']
        for g in c['generators']:
            L.append(rec(T, 'generator', [nm(g['block']), nm(g['name']), g['nseq'], g['nadd'], g['nads'], g['ltab'], None, g['type'], g['itab'] or None,
                                          g['gx'], g['ex'], g['hg'], g['fg']], st))
            if g['time']:
                L += [rec(T, 'generation_times', ch, st) for ch in chunks(g['time'], 4)]
                L += [rec(T, 'generation_rates', ch, st) for ch in chunks(g['rate'], 4)]
                if g['enthalpy']:
                    L += [rec(T, 'generation_enthalpy', ch, st) for ch in chunks(g['enthalpy'], 4)]
        L.append('')
        S['GENER'] = L
    if c['short']:
        s = c['short']
        L = ['SHORT' + ('%2d' % s['frequency'] if s.get('frequency') else '')]
        if 'block' in s:
            L += ['ELEME'] + [nm(n) for n in s['block']]
        if 'connection' in s:
            L += ['CONNE'] + [nm(a) + nm(b) for a, b in s['connection']]
        if 'generator' in s:
            L += ['GENER'] + [nm(a) + nm(b) for a, b in s['generator']]
        L.append('')
        S['SHORT'] = L
    if c['history_block']:
        S['FOFT'] = ['FOFT'] + [nm(n) for n in c['history_block']] + ['']
    if c['history_connection']:
        S['COFT'] = ['COFT'] + [nm(a) + nm(b) for a, b in c['history_connection']] + ['']
    if c['history_generator']:
        S['GOFT'] = ['GOFT'] + [nm(n) for n in c['history_generator']] + ['']
    if c['incon']:
        L = ['INCON']
        for b in c['blocks']:
            if b['name'] in c['incon']:
                v = c['incon'][b['name']]
                L.append(rec(T, 'incon1', [nm(b['name'])] + (list(v[2:4]) if len(v) > 2 else [None, None]) + [v[0]], st))
                L.append(rec(T, 'incon2', v[1], st))
        L.append('')
        S['INCON'] = L
    if c['indom']:
        L = ['INDOM']
        for k, v in c['indom'].items():
            L += [k, rec(T, 'indom2', v, st)]
        L.append('')
        S['INDOM'] = L
    # legal order: SIMUL first; everything resolved against the grid after ELEME/CONNE/GENER; DIFFU after MULTI
    keys = [k for k in S if k != 'SIMUL']
    rng.shuffle(keys)

    def before(a, b):
        if a in keys and b in keys and keys.index(a) > keys.index(b):
            keys.remove(a)
            keys.insert(keys.index(b), a)
    for _ in range(3):
        before('ROCKS', 'ELEME')
        before('ELEME', 'CONNE')
        for dep in ('SHORT', 'FOFT', 'COFT', 'GOFT'):
            before('CONNE', dep)
            before('ELEME', dep)
            before('GENER', dep)
        before('MULTI', 'DIFFU')
        before('ROCKS', 'INDOM')
    order = (['SIMUL'] if aut else []) + keys
    mesh = None
    if split_mesh and 'ELEME' in S:
        mesh = '\n'.join(S['ELEME'] + S.get('CONNE', [])) + '\n'
        order = [k for k in order if k not in ('ELEME', 'CONNE')]
    lines = [c['title']]
    for k in order:
        lines += S[k]
    lines.append(c['end_keyword'])
    if split_mesh:
        return '\n'.join(lines) + '\n', order, st, mesh
    return '\n'.join(lines) + '\n', order, st


def run_fortran(ctx, spec):
    t2d = R.t2data
    for i in range(spec['n']):
        c = datacase.gen_case(ctx.rng, force={'mesh': 'infile', 'extra_precision': []})
        case = {'case': c, 'fortran': True, 'seed': ctx.seed, 'shard': ctx.shard, 'index': i}
        # one case in four: D exponents (which only the Fortran reading functions understand), the mesh in a separate
        # MESH file, and the documented way to read such files: read_function = fortran_read_function
        fonly = i % 4 == 3 and bool(c['blocks']) and not (c['short'] or c['history_block'] or c['history_connection'] or c['history_generator'])
        mesh = None
        try:
            if fonly:
                text, order, st, mesh = emit_fortran(c, ctx.rng, style='D', split_mesh=True)
            else:
                text, order, st = emit_fortran(c, ctx.rng)
        except HarnessError:
            ctx.count('generated_value_did_not_fit')
            continue
        case['order'], case['style'] = order, st
        fn = os.path.join(ctx.tmp, 'c01_f.dat')
        mfn = os.path.join(ctx.tmp, 'c01_f.MESH')
        with open(fn, 'w') as f:
            f.write(text)
        if mesh is not None:
            with open(mfn, 'w') as f:
                f.write(mesh)
            case['mesh_file'] = True
        with ctx.guard(case, where='read-fortran-style' + (':D-exponents+MESH' if fonly else '')) as g:
            if fonly:
                dat = t2d.t2data(fn, meshfilename=mfn if mesh is not None else '', read_function=R.fixed_format_file.fortran_read_function)
                ctx.count('fortran_only_syntax_files')
            else:
                dat = t2d.t2data(fn)
        if g.raised is not None:
            continue
        ctx.evaluated()
        ctx.count('fortran_style_files')
        ctx.case(('fortran', repr(c), tuple(order)), nontrivial=nontrivial(c))
        exp = expected_fortran(c, st)
        d = diff(exp, model_of(dat))
        for sec, field, what in d[:1]:
            ctx.violation('fortran-style:%s:%s' % (sec, field), what + ' (Fortran-style file, sections %s, %s reals; +%d more)' % (' '.join(order), st, len(d) - 1), case)
        got_order = [k for k in dat._sections if not (mesh is not None and k in ('ELEME', 'CONNE'))]     # (an external mesh is listed last)
        if not d and got_order != order:
            ctx.violation('fortran-style:section-order', 'sections read %r, file has %r' % (got_order, order), case)


def expected_fortran(c, st):
    """The emitted text carries d significant digits in E fields just as '%w.de' does when
    d counts mantissa digits after the point: 0.ddddE+xx has one digit less than d.dddde+xx."""
    exp = expected(c, {'mesh': 'infile', 'extra_precision': [], 'echo': False})
    if st == 'e':
        return exp
    # re-project every real through the Fortran rendering instead of the C rendering
    T = R.t2data.t2data_format_specification

    def refloat(v, spec):
        if v is None or not isinstance(v, float):
            return v
        w, _, rest = spec.partition('.')
        if spec[-1] == 'f':
            return v
        s = FW.fE(v, abs(int(w)), int(rest[:-1]), st)
        if s is None:
            return v
        return FW.value_of(s)
    return ReprojectFortran(c, st, refloat).model()


class ReprojectFortran(object):
    """expected() with reals rounded the way the Fortran rendering rounds them."""
    def __init__(self, c, st, refloat):
        self.c, self.st, self.refloat = c, st, refloat

    def model(self):
        orig_r = Fmt.r
        refloat = self.refloat

        def r(self_, v, spec, section=None):
            if v is None:
                return None
            return refloat(float(v), spec)
        Fmt.r = r
        try:
            return expected(self.c, {'mesh': 'infile', 'extra_precision': [], 'echo': False})
        finally:
            Fmt.r = orig_r


def run_shard(ctx, spec):
    {'gen': run_gen, 'fortran': run_fortran, 'real': run_real}[spec['kind']](ctx, spec)


def replay(ctx, case):
    import random
    if 'file' in case:
        run_real(ctx, {'which': 'all'})
    elif case.get('fortran'):
        c = case['case']
        rng = random.Random(1)
        for attempt in range(200):
            text, order, st = emit_fortran(c, rng)
            if order == case['order'] and st == case['style']:
                break
        fn = os.path.join(ctx.tmp, 'c01_f.dat')
        with open(fn, 'w') as f:
            f.write(text)
        dat = R.t2data.t2data(fn)
        ctx.evaluated()
        for sec, field, what in diff(expected_fortran(c, st), model_of(dat))[:3]:
            ctx.violation('fortran-style:%s:%s' % (sec, field), what, case)
    else:
        c = case['case']
        dat = build(c)
        cycle(ctx, dat, case, expected(c), 'g', c['config'], c['flavour'] == 'AUTOUGH2', label(c))
