"""C06 -- time-history extraction equals stepping through the listing, and terminates.

Monitor shape: differential + logical clock.  history(selection) on a live listing is
compared with the series obtained by visiting every result time through `index` and
reading the cell from the table; termination is decided on a logical clock (a proxy
file object counting readline calls against a budget derived from the file's size),
never on wall time; the reader's state before and after the call must be identical.
"""
import itertools
import os

import numpy as np

from vf.core import HarnessError, REPO, StepBudgetExceeded
from vf.props.c07 import listing_files, snapshot, same_state
from vf.repo import R

INFO = {
    'rule': ('cases = (listing file, selection, short flag, starting index): every non-empty subset of the file\'s tables in every order (all '
             'orders up to 3 tables, 6 seeded orders beyond), per table rows given by name, by reversed name (connections) and by integer '
             'index, first / interior / last rows, 3 columns (quick) or every column (thorough), list form and single-tuple form, upper and '
             'lower case table letters, short output on / off for AUTOUGH2 files that have it, starting index in {0, middle, last}. '
             'Distinct = distinct descriptor; non-trivial = selection touching >= 2 tables or >= 2 rows.'),
    'require': {
        'quick': {'counters': {'history_calls': 1200, 'series_compared': 8000, 'state_preserved_checks': 1200, 'reversed_keys': 100,
                               'short_output_calls': 20, 'files': 37},
                  'seen': {'simulators': 6, 'table_subset': 12}, 'nontrivial': 800},
        'thorough': {'counters': {'history_calls': 8000, 'series_compared': 150000, 'state_preserved_checks': 8000, 'reversed_keys': 2000,
                                  'short_output_calls': 150, 'files': 37},
                     'seen': {'simulators': 6, 'table_subset': 12}, 'nontrivial': 6000},
    },
    'watchdog_s': {'quick': 1500, 'thorough': 7200},
    'assumptions': ['termination is restated as bounded progress: a history call may perform at most 64 + 4 x (lines in the file) readline calls and '
                    'at most 1000 consecutive reads at end of file',
                    'for AUTOUGH2 short output the values at short-output times are read from the raw text by an own scan'],
}


def plan(tier, seed):
    files = [os.path.relpath(f, REPO) for f in listing_files()]
    n = 8 if tier == 'quick' else 16
    return [{'files': files[i::n]} for i in range(n)]


from vf.clock import CountingFile, count_lines          # noqa: E402  (the logical clock is shared with C07)


SPEC = {'element': 'e', 'connection': 'c', 'generation': 'g', 'primary': 'p', 'element1': 'e1', 'element2': 'e2'}




def own_fix(n):
    if len(n) == 5 and n[2].isdigit() and n[3] == ' ' and n[4].isdigit():
        return n[:3] + '0' + n[4]
    return n


def short_blocks(path):
    """Own scan of an AUTOUGH2 listing: [(kind 'E'/'C'/'G' + 'SHORT' or full marker, header columns, rows)] in file order,
    only for the short-output blocks: list of dicts {'kind', 'rows': {key: [values]}}."""
    out = []
    with open(path, 'rb') as f:
        lines = [l.decode('latin-1').rstrip('\n') for l in f]
    i = 0
    while i < len(lines):
        s = lines[i]
        if s[1:7] in ('ESHORT', 'CSHORT', 'GSHORT'):
            kind = s[1:7]
            # marker, title/time lines, marker, table title, header, rows, marker
            j = i + 1
            while j < len(lines) and lines[j][1:7] != kind:
                j += 1
            k = j + 1
            while k < len(lines) and lines[k][1:7] != kind:
                k += 1
            body = lines[j + 1:k]
            rows = {}
            for b in body:
                toks = b.split()
                if len(toks) >= 3 and '.' in toks[-1] and ('E' in toks[-1].upper() or toks[-1].replace('.', '').replace('-', '').isdigit()):
                    nkeys = 2 if kind == 'GSHORT' or kind == 'CSHORT' else 1
                    # keys are 5-character fields ending where the first integer-looking INDEX token begins
                    idx = None
                    for t, tok in enumerate(toks):
                        if tok.isdigit() and all('.' in x for x in toks[t + 1:]):
                            idx = t
                    if idx is None:
                        continue
                    vals = [float(x) for x in toks[idx + 1:]]
                    import re
                    spans = [m.span() for m in re.finditer(r'\S+', b)]
                    keytext = b[:spans[idx][0]]              # everything in front of the index token (by position, not by search)
                    rows[keytext] = vals
            out.append({'kind': kind, 'rows': rows})
            i = k + 1
        else:
            i += 1
    return out


class Case(object):
    def __init__(self, ctx, path, label):
        T = R.t2listing
        self.ctx, self.path, self.label = ctx, path, label
        self.lst = T.t2listing(path)
        self.N = self.lst.num_fulltimes
        self.tables = list(self.lst._tablenames)
        self.nlines = count_lines(path)
        self.budget = 64 + 4 * self.nlines
        self.proxy = CountingFile(self.lst._file, self.budget)
        self.lst._file = self.proxy
        # the slow oracle: every table at every full time, by stepping through index on a second object
        self.step = []
        o = T.t2listing(path)
        for i in range(self.N):
            o.index = i
            self.step.append(dict((n, o._table[n]._data.copy()) for n in o._tablenames))
        self.rows = dict((n, list(o._table[n].row_name)) for n in o._tablenames)
        self.cols = dict((n, list(o._table[n].column_name)) for n in o._tablenames)
        self.fulltimes = np.array(o.fulltimes)
        self.times = np.array(o.times)
        self.short_types = list(o.short_types)
        self.is_short = list(o._short)
        o.close()
        self.short = short_blocks(path) if self.short_types else []

    def expected_series(self, table, rowspec, col):
        rows = self.rows[table]
        sgn = 1.0
        if isinstance(rowspec, int):
            r = rowspec
        elif rowspec in rows:
            r = rows.index(rowspec)
        else:
            r = rows.index(tuple(rowspec[::-1]))
            sgn = -1.0
        c = self.cols[table].index(col)
        return np.array([sgn * self.step[i][table][r, c] for i in range(self.N)]), r

    def run(self, selection, short, start, form):
        ctx, lst = self.ctx, self.lst
        case = {'file': self.label, 'selection': [list(s) if isinstance(s, tuple) else s for s in selection], 'short': short, 'start_index': start, 'form': form}
        tabs = []
        for s in selection:
            t = [k for k, v in SPEC.items() if v == s[0].lower()][0]
            if t not in tabs:
                tabs.append(t)
        subset = '+'.join(tabs)
        with ctx.guard(case, where='set-start-index') as g:
            if isinstance(start, str):
                # a rewound reader: positioned before the first result set, its tables still showing what was read last
                lst.index = int(start.split('-')[-1])
                lst.rewind()
                ctx.count('history_calls_on_rewound_reader')
            else:
                lst.index = start
        if g.raised is not None:
            return
        before = snapshot(lst)
        self.proxy.reset()
        arg = selection[0] if form == 'tuple' else list(selection)
        try:
            res = lst.history(arg, short=short)
        except StepBudgetExceeded as e:
            ctx.evaluated()
            ctx.count('history_calls')
            ctx.violation('does-not-terminate:%s:%s' % (lst.simulator, subset), 'history(%r) on %s: %s (file has %d lines)' % (case['selection'], self.label, e, self.nlines), case)
            self.reopen()
            return
        except Exception as e:
            import traceback
            from vf.core import tb_origin
            origin, func, loc = tb_origin(e.__traceback__)
            if origin != 'repo':
                raise
            ctx.evaluated()
            ctx.violation('exception:%s@%s:%s:%s' % (type(e).__name__, func, lst.simulator, subset), '%s: %s at %s' % (type(e).__name__, e, loc), case)
            self.reopen()
            return
        ctx.evaluated()
        ctx.count('history_calls')
        ctx.maximum('readline calls / budget', self.proxy.reads / float(self.budget), {'file': self.label})
        ctx.see('table_subset', '%s:%s' % (lst.simulator, subset))
        ctx.see('simulators', lst.simulator)
        if short and self.short_types:
            ctx.count('short_output_calls')
        after = snapshot(lst)
        ctx.count('state_preserved_checks')
        d = same_state(after, before)
        if d:
            ctx.violation('state-changed-by-history:%s' % lst.simulator, 'after history(): %s' % d, case)
            self.reopen()
            return
        if res is None:
            ctx.violation('no-result:%s' % subset, 'history(%r) returned None' % (case['selection'],), case)
            return
        if form == 'tuple' or len(selection) == 1:
            res = [res]
        if len(res) != len(selection):
            ctx.violation('result-count', '%d series for %d selection items' % (len(res), len(selection)), case)
            return
        for (spec, row, col), (times, vals) in zip(selection, res):
            table = [k for k, v in SPEC.items() if v == spec.lower()][0]
            ctx.count('series_compared')
            exp, r = self.expected_series(table, row, col)
            if not isinstance(row, int) and row not in self.rows[table]:
                ctx.count('reversed_keys')
            times, vals = np.asarray(times), np.asarray(vals)
            if len(times) != len(vals):
                ctx.violation('times-values-length:%s' % ('short' if short and self.short_types else 'full'),
                              'item %r: %d times paired with %d values' % ((spec, row, col), len(times), len(vals)), case)
                return
            kind = spec[0].upper() + 'SHORT'
            in_short = short and kind in self.short_types and len(vals) != self.N
            if len(vals) == self.N and short and kind in self.short_types and len(self.times) != self.N and \
                    self.row_in_short_tables(table, kind, row):
                # the row is printed in every short-output table of its kind (own scan of the text): its history with
                # short output on must include those times
                ctx.violation('short-output-values-dropped', 'item %r: %d values (full result times only); the row is printed in the %s tables, the listing has %d times incl. short output' % (
                    (spec, row, col), len(vals), kind, len(self.times)), case)
                return
            if len(vals) == self.N:
                if not np.array_equal(times, self.fulltimes):
                    ctx.violation('times:full', 'item %r: times %r..., result times are %r...' % ((spec, row, col), list(times[:3]), list(self.fulltimes[:3])), case)
                    return
                if not np.array_equal(vals, exp, equal_nan=True):
                    k = int(np.argmax(~((vals == exp) | (np.isnan(vals) & np.isnan(exp)))))
                    mech = 'reversed-key' if (not isinstance(row, int) and row not in self.rows[table]) else ('integer-index' if isinstance(row, int) else 'by-name')
                    ctx.violation('series-differs:%s:%s' % (lst.simulator, mech), 'item %r: history gives %r at result %d, stepping gives %r (row %d of %r)' % (
                        (spec, row, col), vals[k], k, exp[k], r, table), case)
                    return
            elif in_short and len(vals) == len(self.times):
                if not np.array_equal(times, self.times):
                    ctx.violation('times:short', 'item %r: times differ from the listing\'s times incl. short output' % ((spec, row, col),), case)
                    return
                full_pos = [i for i, s in enumerate(self.is_short) if not s]
                sub = vals[full_pos]
                if not np.array_equal(sub, exp, equal_nan=True):
                    ctx.violation('series-differs:short:full-times', 'item %r: values at the full result times %r..., stepping gives %r...' % ((spec, row, col), list(sub[:3]), list(exp[:3])), case)
                    return
                self.check_short_values(case, table, kind, row, col, vals)
            else:
                ctx.violation('series-length', 'item %r: %d values; the listing has %d full result times and %d times incl. short output' % (
                    (spec, row, col), len(vals), self.N, len(self.times)), case)
                return

    def row_in_short_tables(self, table, kind, row):
        rows = self.rows[table]
        name = row if not isinstance(row, int) else rows[row]
        if name not in rows or (rows.count(name) > 1 and isinstance(row, int)):
            return False          # (which of two rows of one name the short table shows is not decidable for an index)
        blocks = [b for b in self.short if b['kind'] == kind]
        if not blocks:
            return False
        keys = name if isinstance(name, tuple) else (name,)
        for b in blocks:
            hit = False
            for keytext in b['rows']:
                cands = [keytext[a:a + 5] for a in range(0, max(1, len(keytext) - 4))]
                if all(any(own_fix(cand) == kname for cand in cands) for kname in keys):
                    hit = True
                    break
            if not hit:
                return False
        self.ctx.count('rows_found_in_short_tables_by_own_scan')
        return True

    def check_short_values(self, case, table, kind, row, col, vals):
        """Values at short-output times against the own scan of the raw text."""
        rows = self.rows[table]
        name = row if not isinstance(row, int) else rows[row]
        if name not in rows:
            return          # reversed key: sign handled at the full times
        c = self.cols[table].index(col)
        blocks = [b for b in self.short if b['kind'] == kind]
        short_pos = [i for i, s in enumerate(self.is_short) if s]
        if len(blocks) != len(short_pos):
            return
        for b, i in zip(blocks, short_pos):
            found = None
            for keytext, v in b['rows'].items():
                flat = keytext
                keys = name if isinstance(name, tuple) else (name,)
                ok = True
                for kname in keys:
                    cands = [flat[a:a + 5] for a in range(0, max(1, len(flat) - 4))]
                    if not any(own_fix(cand) == kname for cand in cands):
                        ok = False
                if ok:
                    found = v
                    break
            if found is None or c >= len(found):
                continue
            self.ctx.count('short_values_checked')
            if found[c] != vals[i]:
                self.ctx.violation('series-differs:short:short-times', 'item %r: value %r at short-output time %d, the file prints %r' % (
                    (table, row, col), vals[i], i, found[c]), case)
                return

    def reopen(self):
        T = R.t2listing
        try:
            self.lst.close()
        except Exception:
            pass
        self.lst = T.t2listing(self.path)
        self.proxy = CountingFile(self.lst._file, self.budget)
        self.lst._file = self.proxy


def gen_selections(ctx, case, tier):
    """Yield (selection, form) for every table subset / order."""
    rng = ctx.rng
    tabs = case.tables
    ncols = 3 if tier == 'quick' else None
    for k in range(1, len(tabs) + 1):
        for sub in itertools.combinations(tabs, k):
            if tier == 'thorough':
                orders = list(itertools.permutations(sub)) if k <= 4 else [tuple(rng.sample(sub, k)) for _ in range(24)] + [sub]
            else:
                orders = list(itertools.permutations(sub)) if k <= 3 else [tuple(rng.sample(sub, k)) for _ in range(6)] + [sub]
            if tier == 'quick' and k >= 3:
                orders = [sub] + rng.sample(orders, min(len(orders), 2))
            for order in orders:
                sel = []
                for t in order:
                    rows = case.rows[t]
                    cols = case.cols[t]
                    picks = sorted(set([0, len(rows) // 2, len(rows) - 1, min(len(rows) - 1, 60)]))
                    if tier == 'thorough':
                        picks = sorted(set(picks + [rng.randrange(len(rows)) for _ in range(5)]))
                    use_cols = cols if ncols is None else rng.sample(cols, min(len(cols), ncols))
                    items = []
                    for pi, r in enumerate(picks):
                        name = rows[r]
                        style = (pi + len(sel)) % 3
                        if style == 1:
                            key = r                                   # integer index
                        elif style == 2 and isinstance(name, tuple) and t == 'connection' and tuple(name[::-1]) not in rows:
                            key = tuple(name[::-1])                   # reversed connection name
                        else:
                            key = name
                        spec = SPEC[t]
                        if rng.random() < 0.3:
                            spec = spec.upper()
                        for c in (use_cols if pi == 0 else use_cols[:1]):
                            items.append((spec, key, c))
                    rng.shuffle(items)
                    sel += items
                yield sel, 'list'
    # rows that appear in the short-output tables, asked for in descending and shuffled order
    for kind, idx in getattr(case.lst, 'short_indices', {}).items():
        t = {'E': 'element', 'C': 'connection', 'G': 'generation'}[kind[0]]
        if t not in tabs or not idx:
            continue
        rows = sorted(idx.keys(), reverse=True)[:8]
        for variant in range(2):
            sel = [(SPEC[t], (case.rows[t][r] if (i + variant) % 2 else r), c) for i, r in enumerate(rows) for c in case.cols[t][:2]]
            if variant:
                rng.shuffle(sel)
            other = [x for x in tabs if x != t][:1]
            for o in other:
                sel = sel + [(SPEC[o], case.rows[o][0], case.cols[o][0])]
            yield sel, 'list'
    # row names that occur more than once in a table (AUTOUGH2 prints some blocks twice): asked for by name and by each
    # of their indices
    for t in tabs:
        rows = case.rows[t]
        seen, dups = {}, []
        for i, n in enumerate(rows):
            seen.setdefault(n, []).append(i)
        for n, idx in seen.items():
            if len(idx) > 1:
                dups.append((n, idx))
        for n, idx in dups[:3]:
            ctx.count('selections_of_repeated_row_names')
            cols = case.cols[t][:2]
            yield [(SPEC[t], n, c) for c in cols], 'list'
            yield [(SPEC[t], i, cols[0]) for i in idx] + [(SPEC[t], n, cols[-1])], 'list'
    for t in tabs:
        yield [(SPEC[t], case.rows[t][-1], case.cols[t][-1])], 'tuple'
        yield [(SPEC[t], 0, case.cols[t][0])], 'tuple'


def run_shard(ctx, spec):
    for rel in spec['files']:
        path = os.path.join(REPO, rel)
        with ctx.guard({'file': rel}, where='open') as g:
            case = Case(ctx, path, rel)
        if g.raised is not None:
            continue
        ctx.count('files')
        starts = sorted(set([0, case.N // 2, case.N - 1]))
        if case.N >= 2:
            starts.append('rewind-after-0')
        n = 0
        reps = 5 if ctx.tier == 'thorough' else 1        # fresh random rows / columns / orders each time
        for sel, form in itertools.chain.from_iterable(gen_selections(ctx, case, ctx.tier) for _ in range(reps)):
            shorts = [True, False] if case.short_types else [True]
            for short in shorts:
              for start in starts:
                n += 1
                case.run(sel, short, start, form)
                tabs = set(s[0].lower() for s in sel)
                ctx.case((rel, repr(sel), short, start, form), nontrivial=(len(tabs) >= 2 or len(set(repr(s[1]) for s in sel)) >= 2),
                         sample=(len(tabs) >= 2 and len(ctx.samples) < 2))
        ctx.maximum('largest readline count in one history call', case.proxy.max_reads, {'file': rel, 'budget': case.budget})
        case.lst.close()


def replay(ctx, c):
    path = os.path.join(REPO, c['file'])
    case = Case(ctx, path, c['file'])
    sel = [tuple(tuple(x) if isinstance(x, list) else x for x in s) for s in c['selection']]
    case.run(sel, c['short'], c['start_index'], c['form'])
