"""C12 -- point and line location agree with exhaustive search.

Monitor shape: differential against brute force.  Points: winding-number test over
every column (own code), compared with column_containing_point under every search
aid; 3-D points against the unique (column, layer) block.  Lines: own parametric
clipping of the segment against every column polygon, compared with column_track.
The geometry is also moved (translate / rotate) between query batches, so that any
state kept between queries is exercised.
"""
import math

import numpy as np

from vf.core import HarnessError
from vf.gen import geos
from vf.oracle import polygeo as PG
from vf.repo import R

INFO = {
    'rule': ('cases = (geometry, point, search-aid combination) and (geometry, line): rectangular, shipped g1/g3/g5/g7, locally refined up '
             'to three times (columns over 3 orders of magnitude in size), rotated and translated *between query batches on the same '
             'object*; points inside, outside the hull but inside the bounding box, outside the box, and points whose y (or x) is '
             'bit-equal to a node coordinate; elevations between layer boundaries incl. above the ground surface of cut columns; aids: '
             'none, guess (right / neighbour / far), bounds (rectangle / boundary polygon), column subset containing the answer, quadtree '
             '(whole grid / subset) and combinations. Points within 1e-6 L of an edge and lines through vertices / along edges are not '
             'generated. Distinct = distinct descriptor; non-trivial = points inside the domain, lines crossing >= 2 columns.'),
    'require': {
        'quick': {'counters': {'point_queries': 30000, 'points': 4000, 'points_3d': 2500, 'lines': 700, 'track_segments_checked': 3000,
                               'node_aligned_points': 500, 'batches_after_moving_geometry': 12, 'points_above_model_top_in_block': 100},
                  'seen': {'aid_combination': 8}, 'nontrivial': 3000},
        'thorough': {'counters': {'point_queries': 600000, 'points': 80000, 'points_3d': 40000, 'lines': 12000, 'track_segments_checked': 60000,
                                  'node_aligned_points': 5000, 'batches_after_moving_geometry': 60, 'points_above_model_top_in_block': 2000},
                     'seen': {'aid_combination': 8}, 'nontrivial': 60000},
    },
    'watchdog_s': {'quick': 1500, 'thorough': 7200},
    'assumptions': ['columns are convex (triangles and convex quadrilaterals / polygons of the generated and shipped geometries)',
                    'tolerance on track end points 1e-6 x local column size; clips shorter than 1e-3 x the longest side of the clipped column '
                    'may be dropped (documented), clips between 0.5x and 2x that allowance may go either way'],
}


def plan(tier, seed):
    if tier == 'quick':
        return [{'geos': ['rect', 'g7'], 'points': 600, 'lines': 120}, {'geos': ['rect-refined', 'g5'], 'points': 600, 'lines': 120},
                {'geos': ['rect-rotated', 'rect-rot90'], 'points': 600, 'lines': 120}, {'geos': ['g7-refined', 'rect-rot90'], 'points': 600, 'lines': 120},
                {'geos': ['rect+feetfile', 'rect-refined+feetfile', 'rect-rotated+file'], 'points': 600, 'lines': 120}]
    names = ['rect', 'rect-refined', 'rect-rotated', 'rect-rot90', 'g1', 'g3', 'g5', 'g7', 'g7-refined', 'rect+feetfile', 'rect-refined+feetfile', 'rect-rotated+feetfile',
             'g7+feetfile', 'rect-refined+file']
    return [{'geos': [names[i % len(names)], names[(i + 3) % len(names)]], 'points': 3000, 'lines': 450} for i in range(20)]


# -- geometry snapshot for the oracle -------------------------------------------------------------------

class Snap(object):
    def __init__(self, geo):
        self.cols = geo.columnlist
        self.polys = [[(float(n.pos[0]), float(n.pos[1])) for n in c.node] for c in geo.columnlist]
        self.bb = np.array([[min(p[0] for p in poly), min(p[1] for p in poly), max(p[0] for p in poly), max(p[1] for p in poly)] for poly in self.polys])
        A, B, owner = [], [], []
        for i, poly in enumerate(self.polys):
            for k in range(len(poly)):
                A.append(poly[k])
                B.append(poly[(k + 1) % len(poly)])
                owner.append(i)
        self.A, self.B = np.array(A), np.array(B)
        self.size = [max(PG.dist(poly[k], poly[(k + 1) % len(poly)]) for k in range(len(poly))) for poly in self.polys]
        self.nodes = np.array([[float(n.pos[0]), float(n.pos[1])] for n in geo.nodelist])
        # lower end points of sides that are nearly, but not exactly, level (or upright): the hostile
        # spots for a crossing-count test
        self.nearly_level = []
        for a, b in zip(A, B):
            for ax in (0, 1):
                d = abs(a[ax] - b[ax])
                if 0 < d < 1e-6:
                    self.nearly_level.append((a if a[ax] < b[ax] else b, ax))
        self.box = (self.bb[:, 0].min(), self.bb[:, 1].min(), self.bb[:, 2].max(), self.bb[:, 3].max())

    def edge_distance(self, p):
        d = self.B - self.A
        L2 = (d ** 2).sum(axis=1)
        t = (((p[0] - self.A[:, 0]) * d[:, 0] + (p[1] - self.A[:, 1]) * d[:, 1]) / L2).clip(0, 1)
        q = self.A + d * t[:, None]
        dist = np.hypot(q[:, 0] - p[0], q[:, 1] - p[1])
        k = int(dist.argmin())
        return float(dist[k]), math.sqrt(float(L2[k]))

    def containing(self, p):
        idx = np.nonzero((self.bb[:, 0] <= p[0]) & (p[0] <= self.bb[:, 2]) & (self.bb[:, 1] <= p[1]) & (p[1] <= self.bb[:, 3]))[0]
        return [int(i) for i in idx if PG.inside(p, self.polys[i])]

    def node_distance(self, p0, p1):
        """Smallest distance of any node from the segment p0-p1."""
        d = np.array([p1[0] - p0[0], p1[1] - p0[1]])
        L2 = float((d ** 2).sum())
        t = (((self.nodes[:, 0] - p0[0]) * d[0] + (self.nodes[:, 1] - p0[1]) * d[1]) / L2).clip(0, 1)
        q = np.array(p0) + t[:, None] * d
        return float(np.hypot(q[:, 0] - self.nodes[:, 0], q[:, 1] - self.nodes[:, 1]).min())


def make_geo(ctx, kind):
    rng = ctx.rng
    mg = R.mulgrids
    desc = {'kind': kind}
    via = None
    if kind.endswith('+feetfile') or kind.endswith('+file'):
        kind, via = kind.rsplit('+', 1)
    if kind.startswith('rect'):
        geo, d = geos.rectangular(rng, nx=rng.randint(2, 7), ny=rng.randint(2, 6), nz=rng.randint(2, 5), convention=0)
        desc.update(d)
        desc['kind'] = kind + ('+' + via if via else '')
        if geo.num_layers > 2 and rng.random() < 0.7:
            desc['surfaces'] = geos.set_surfaces(geo, rng, 'mixed', frac=0.5)
        if kind == 'rect-refined':
            for level in range(3):
                cols = rng.sample(geo.columnlist, max(1, geo.num_columns // 6))
                cols = [c for c in cols if c.num_nodes in (3, 4)]
                geo.refine(cols)
            desc['refined_levels'] = 3
        if kind == 'rect-rot90':
            # grid lines come out horizontal / vertical up to rounding: sides that are *nearly* level
            geo.rotate(rng.choice([90.0, 180.0, 270.0]))
            geo.translate(np.array([rng.uniform(-3000, 3000), rng.uniform(-3000, 3000), 0.0]))
            # and make sure of it: every other node one unit in the last place higher
            for i, n in enumerate(geo.nodelist):
                if i % 2:
                    n.pos[1] = np.nextafter(n.pos[1], np.inf)
                if i % 3 == 0:
                    n.pos[0] = np.nextafter(n.pos[0], np.inf)
            desc['rot90'] = True
        if kind == 'rect-rotated':
            a = rng.choice([17.0, 30.0, 45.0, 123.0])
            geo.rotate(a)
            desc['rotate'] = a
    else:
        name = kind.split('-')[0]
        geo = geos.load_shipped(name)
        if name == 'g3':
            # not a valid mesh as shipped; repaired, then derived data refreshed as a careful caller
            # would (that check(fix=True) leaves name lists and neighbour sets stale is C10 matter)
            geo.check(fix=True, silent=True)
            geo.identify_neighbours()
            geos.refresh(geo)
        if kind.endswith('refined'):
            cols = rng.sample([c for c in geo.columnlist if c.num_nodes in (3, 4)], 6)
            geo.refine(cols)
            cols = rng.sample([c for c in geo.columnlist if c.num_nodes in (3, 4)], 6)
            geo.refine(cols)
    if via is not None:
        # the geometry as a user gets it from a file, in metres or in FEET, with the column centres written out
        # explicitly (centre_specified): what is searched is then what the reader built
        import os
        feet = via == 'feetfile'
        for col in geo.columnlist:
            col.centre_specified = 1
        if feet:
            geo.unit_type = 'FEET '
        fn = os.path.join(ctx.tmp, 'c12_geo.dat')
        geo.write(fn)
        geo = mg.mulgrid(fn)
        os.remove(fn)
        desc['through_file'] = 'feet' if feet else 'metres'
        if kind.startswith('g3'):
            geo.identify_neighbours()
            geos.refresh(geo)
    return geo, desc


def gen_point(ctx, snap, mode):
    rng = ctx.rng
    x0, y0, x1, y1 = snap.box
    w, h = x1 - x0, y1 - y0
    for _ in range(50):
        if mode == 'inside':
            i = rng.randrange(len(snap.polys))
            poly = snap.polys[i]
            a, b, c = poly[0], poly[rng.randrange(1, len(poly) - 1)], poly[-1]
            u, v = rng.random(), rng.random()
            if u + v > 1:
                u, v = 1 - u, 1 - v
            p = (a[0] + u * (b[0] - a[0]) + v * (c[0] - a[0]), a[1] + u * (b[1] - a[1]) + v * (c[1] - a[1]))
        elif mode == 'box':
            p = (rng.uniform(x0, x1), rng.uniform(y0, y1))
        elif mode == 'outside':
            p = (rng.choice([x0 - rng.uniform(0.01, 0.5) * w, x1 + rng.uniform(0.01, 0.5) * w, rng.uniform(x0, x1)]),
                 rng.choice([y0 - rng.uniform(0.01, 0.5) * h, y1 + rng.uniform(0.01, 0.5) * h]))
        else:   # node-aligned: y (or x) bit-equal to a node coordinate
            if snap.nearly_level and rng.random() < 0.6:
                n, ax = snap.nearly_level[rng.randrange(len(snap.nearly_level))]
                if ax == 1:
                    r = rng.random()
                    # level with the vertex: inside the grid to its left, anywhere, or left of the whole grid
                    p = (rng.uniform(x0, n[0]) if r < 0.4 else (rng.uniform(x0, x1) if r < 0.6 else x0 - rng.uniform(0.05, 0.3) * w), float(n[1]))
                else:
                    p = (float(n[0]), rng.uniform(y0, y1))
                d, L = snap.edge_distance(p)
                if d > 1e-6 * max(L, 1e-12) and d > 1e-9 * max(w, h):
                    return p
                continue
            n = snap.nodes[rng.randrange(len(snap.nodes))]
            if rng.random() < 0.7:
                p = (rng.uniform(x0, x1), float(n[1]))
            else:
                p = (float(n[0]), rng.uniform(y0, y1))
        d, L = snap.edge_distance(p)
        if d > 1e-6 * max(L, 1e-12) and d > 1e-9 * max(w, h):
            return p
    return None


def check_point(ctx, geo, snap, p, mode, aids, case):
    inside = snap.containing(p)
    if len(inside) > 1:
        raise HarnessError('columns overlap at %r: %r' % (p, [snap.cols[i].name for i in inside]))
    exp = snap.cols[inside[0]] if inside else None
    pos = np.array(p)
    ctx.count('points')
    if mode == 'node-aligned':
        ctx.count('node_aligned_points')
    results = {}
    for aid_name, kwargs_fn in aids:
        kw = kwargs_fn(exp, pos)
        if kw is None:
            continue
        c2 = dict(case, point=[float(p[0]), float(p[1])], aid=aid_name, point_mode=mode)
        with ctx.guard(c2, where='column_containing_point:' + aid_name) as g:
            got = geo.column_containing_point(pos, **kw)
        if g.raised is not None:
            continue
        ctx.evaluated()
        ctx.count('point_queries')
        ctx.see('aid_combination', aid_name)
        results[aid_name] = got
        if got is not exp:
            if exp is None:
                ctx.violation('point:outside-point-gets-a-column:%s' % aid_name, 'point %r is outside every column, %s search returns %r' % (p, aid_name, got), c2)
            elif got is None:
                ctx.violation('point:inside-point-not-found:%s' % aid_name, 'point %r lies in column %r, %s search returns nothing' % (p, exp.name, aid_name), c2)
            else:
                gp = [(float(n.pos[0]), float(n.pos[1])) for n in got.node]
                ctx.violation('point:wrong-column:%s' % aid_name, 'point %r lies in column %r, %s search returns %r (polygon %r; own test says inside=%r, its contains_point says %r; distance to its edges %.3g; contains_point of the right column says %r)' % (
                    p, exp.name, aid_name, got.name, gp, PG.inside(p, gp), bool(got.contains_point(pos)), PG.distance_to_polygon_edges(p, gp), bool(exp.contains_point(pos))), c2)
            return exp
    return exp


def make_aids(ctx, geo, snap, structured=False):
    rng = ctx.rng
    qt_all = geo.column_quadtree()
    bounds_rect = geo.bounds
    try:
        bpoly = geo.boundary_polygon
    except Exception:
        bpoly = None
    convex_domain = False
    if bpoly is not None and len(bpoly) >= 3:
        poly = [(float(q[0]), float(q[1])) for q in bpoly]
        total = sum(PG.area(pl) for pl in snap.polys)
        convex_domain = abs(PG.area(poly) - total) <= 1e-9 * total
    cols = geo.columnlist

    def nbr_guess(exp, pos):
        if exp is None or not exp.neighbour:
            return None
        return {'guess': sorted(exp.neighbour, key=lambda c: c.name)[0]}

    def far_guess(exp, pos):
        # any column from the far third of the grid that is not a neighbour of the answer
        ranked = sorted(cols, key=lambda c: -((c.centre[0] - pos[0]) ** 2 + (c.centre[1] - pos[1]) ** 2))
        pool = [c for c in ranked[:max(1, len(ranked) // 3)] if exp is None or (c is not exp and c not in exp.neighbour)]
        return {'guess': rng.choice(pool or ranked[:1])}

    def subset(exp, pos):
        if exp is None:
            return None
        sub = rng.sample(cols, min(len(cols), 5))
        if exp not in sub:
            sub.append(exp)
        return {'columns': sub}

    def qt_subset(exp, pos):
        if exp is None:
            return None
        # a connected patch of columns around the answer (the quadtree search spreads through
        # neighbours inside its own column set, so a disconnected set is not a fair request)
        sub, frontier = {exp}, [exp]
        for _ in range(rng.randint(1, 3)):
            frontier = [n for c in frontier for n in c.neighbour if n not in sub]
            sub.update(frontier)
        return {'qtree': geo.column_quadtree(sorted(sub, key=lambda c: c.name))}

    def patch_with_own_quadtree(exp, pos):
        # a search area: a patch of columns (a ball of the neighbour graph around some column near the answer, so that the
        # answer is as often on its rim as inside) together with the quadtree built for exactly that patch
        if exp is None:
            return None
        r = rng.randint(1, 3)
        ball, frontier = {exp}, [exp]
        for _ in range(r):
            frontier = [n for c in frontier for n in c.neighbour if n not in ball]
            ball.update(frontier)
        mid = rng.choice(sorted(ball, key=lambda c: c.name))
        sub, frontier = {mid}, [mid]
        for _ in range(r):
            frontier = [n for c in frontier for n in c.neighbour if n not in sub]
            sub.update(frontier)
        if exp not in sub:
            return None
        cols_ = sorted(sub, key=lambda c: c.name)
        return {'columns': cols_, 'qtree': geo.column_quadtree(cols_)}

    aids = [('none', lambda e, p: {}),
            ('guess-right', lambda e, p: {'guess': e} if e is not None else None),
            ('guess-neighbour', nbr_guess),
            ('guess-far', far_guess),
            ('bounds-rectangle', lambda e, p: {'bounds': bounds_rect}),
            ('columns-subset', subset),
            ('quadtree', lambda e, p: {'qtree': qt_all}),
            # (a quadtree over a column subset is not used as an aid: its search spreads through
            #  neighbours that intersect the leaf rectangle *and* belong to the subset, which even for a
            #  connected patch need not connect the leaf's columns to the answer; the statement names
            #  the quadtree of the grid)
            ('guess-far+quadtree', lambda e, p: dict(far_guess(e, p), qtree=qt_all)),
            # a column subset together with a guess that is wrong (the search then goes through the guess's neighbours that are
            # in the subset): what this call leaves behind in the geometry is seen by the quadtree searches after it
            ('columns-subset+guess-neighbour', lambda e, p: dict(subset(e, p), **nbr_guess(e, p)) if (e is not None and nbr_guess(e, p)) else None),
            ('columns-subset+guess-far', lambda e, p: dict(subset(e, p), **far_guess(e, p)) if e is not None else None),
            ('quadtree-again', lambda e, p: {'qtree': geo.column_quadtree()}),
            ('guess-neighbour+bounds', lambda e, p: dict(nbr_guess(e, p) or {}, bounds=bounds_rect) if nbr_guess(e, p) else None)]
    if bpoly is not None and (convex_domain or structured):
        # (on a structured rectangular grid the domain is one rectangle: its boundary polygon is offered as an aid whatever
        #  it looks like, and a polygon that is not the domain shows as points found without it and not with it)
        aids.append(('bounds-polygon', lambda e, p: {'bounds': bpoly}))
    if structured:
        # (only on structured rectangular grids, where the columns whose boxes meet a leaf rectangle always form a connected
        #  part of such a patch: see the remark on subset quadtrees above)
        aids.append(('patch+its-quadtree', patch_with_own_quadtree))
    return aids


def check_point_3d(ctx, geo, snap, p, exp_col, case):
    rng = ctx.rng
    lays = geo.layerlist
    top = lays[0].bottom
    bottom = lays[-1].bottom
    zs = []
    for _ in range(2):
        k = rng.randint(1, len(lays) - 1)
        zs.append(lays[k].bottom + rng.uniform(0.05, 0.95) * (lays[k].top - lays[k].bottom))
    zs.append(top + rng.uniform(0.1, 50.0))
    zs.append(bottom - rng.uniform(0.1, 50.0))
    if exp_col is not None and exp_col.surface < top:
        zs.append(exp_col.surface + 0.3 * (top - exp_col.surface))          # above the ground of a cut column
        zs.append(exp_col.surface - 1e-3 * (exp_col.surface - bottom))
    if exp_col is not None and exp_col.surface > top:
        # ground raised above the top of the model: the top block reaches up to it
        zs.append(top + 0.5 * (exp_col.surface - top))
        zs.append(exp_col.surface - 1e-3 * (exp_col.surface - top))
        zs.append(exp_col.surface + 1e-3 * (exp_col.surface - top))
    qt = geo.column_quadtree() if rng.random() < 0.3 else None
    for z in zs:
        if any(abs(z - l.bottom) < 1e-9 * max(1.0, abs(l.bottom)) for l in lays):
            continue
        if exp_col is not None and abs(z - exp_col.surface) < 1e-9 * max(1.0, abs(exp_col.surface)):
            continue
        exp = None
        where = 'outside-column'
        if exp_col is not None:
            s = exp_col.surface
            if z > s:
                where = 'above-ground'
            elif z <= bottom:
                where = 'below-model'
            else:
                if z > top:
                    lay = lays[1]          # surface above the top of the model: the top block reaches up to it
                    ctx.count('points_above_model_top_in_block')
                else:
                    lay = next(l for l in lays[1:] if l.bottom < z <= l.top)
                exp = geo.block_name(lay.name, exp_col.name)
                where = 'in-block'
        c2 = dict(case, point=[float(p[0]), float(p[1]), float(z)], where=where)
        pos = np.array([p[0], p[1], z])
        # every third query with a block map (the names a model built from this geometry gave its blocks): the answer is
        # then the mapped name of the same block
        bm = None
        if int(abs(z) * 1000) % 3 == 0:
            bm = dict((n, 'Z' + n[1:]) for i, n in enumerate(geo.block_name_list) if i % 2 == 0)
            ctx.count('points_3d_with_block_map')
        with ctx.guard(c2, where='block_name_containing_point') as g:
            got = geo.block_name_containing_point(pos, qtree=qt) if bm is None else geo.block_name_containing_point(pos, qtree=qt, blockmap=bm)
        if g.raised is not None:
            continue
        if bm is not None:
            want = None if exp is None else bm.get(exp, exp)
            if got != want:
                ctx.violation('point3d:block-map:%s' % where, '3-D point %r (%s) with a block map: %r reported, the containing block %r is mapped to %r' % (list(pos), where, got, exp, want), c2)
                return
            got = exp
        ctx.evaluated()
        ctx.count('points_3d')
        ctx.see('point_3d_situation', where)
        if got != exp:
            ctx.violation('point3d:%s' % where, '3-D point %r (%s): block %r reported, the containing block is %r' % (list(pos), where, got, exp), c2)
            return
        if exp is not None and exp not in geo.block_name_index:
            raise HarnessError('oracle block %r not in the geometry' % exp)
        if exp is not None:
            with ctx.guard(c2, where='block_contains_point') as g:
                ok = geo.block_contains_point(exp, pos)
            if g.raised is None and not ok:
                ctx.violation('point3d:block_contains_point', 'block %r does not report containing %r' % (exp, list(pos)), c2)
                return


# -- lines -----------------------------------------------------------------------------------------------

def check_line(ctx, geo, snap, case):
    rng = ctx.rng
    x0, y0, x1, y1 = snap.box
    w, h = x1 - x0, y1 - y0
    for _ in range(30):
        def endpoint():
            r = rng.random()
            if r < 0.6:
                return gen_point(ctx, snap, 'inside')
            return (rng.uniform(x0 - 0.2 * w, x1 + 0.2 * w), rng.uniform(y0 - 0.2 * h, y1 + 0.2 * h))
        a, b = endpoint(), endpoint()
        if a is None or b is None or PG.dist(a, b) < 1e-3 * max(w, h):
            continue
        # not through a vertex, not along an edge
        if snap.node_distance(a, b) > 1e-4 * min(snap.size) and snap.edge_distance(a)[0] > 1e-6 * max(w, h) and snap.edge_distance(b)[0] > 1e-6 * max(w, h):
            break
    else:
        return
    c2 = dict(case, line=[[float(a[0]), float(a[1])], [float(b[0]), float(b[1])]])
    L = PG.dist(a, b)
    exp = []
    for i, poly in enumerate(snap.polys):
        if max(a[0], b[0]) < snap.bb[i, 0] or min(a[0], b[0]) > snap.bb[i, 2] or max(a[1], b[1]) < snap.bb[i, 1] or min(a[1], b[1]) > snap.bb[i, 3]:
            continue
        iv = PG.inside_intervals(a, b, poly)
        if iv:
            exp.append((iv[0][0], iv[-1][1], i))
    exp.sort()
    line = (np.array(a), np.array(b))
    with ctx.guard(c2, where='column_track') as g:
        track = geo.column_track(line)
    if g.raised is not None:
        return
    ctx.evaluated()
    ctx.count('lines')
    got = {}
    order = []
    for col, pin, pout in track:
        got[col.name] = (pin, pout)
        order.append(col.name)
    if len(order) != len(set(order)):
        ctx.violation('track:column-listed-twice', 'column track lists a column twice: %r' % order, c2)
        return
    names = {}
    kept = []
    for tin, tout, i in exp:
        name = snap.cols[i].name
        seg = (tout - tin) * L
        allowance = 1e-3 * snap.size[i]
        names[name] = (tin, tout, i)
        if name not in got:
            if seg < 2.0 * allowance:
                ctx.count('short_clips_dropped')
                continue
            din, dout = tin * L, tout * L
            merged = abs(dout - din) / max(din, dout, 1.0) < 1.6e-3
            key = 'track:clip-merged-by-intersection-dedup' if merged else 'track:crossed-column-missing'
            ctx.violation(key, 'line %r crosses column %r over %.6g (allowance %.3g) but the track does not list it' % (c2['line'], name, seg, allowance), c2)
            return
        kept.append((tin, tout, i, name))
    for name in order:
        if name not in names:
            ctx.violation('track:uncrossed-column-listed', 'track lists column %r which the line does not cross' % name, c2)
            return
    # order along the line
    exp_order = [k[3] for k in kept]
    got_order = [n for n in order if n in set(exp_order)]
    if got_order != exp_order:
        ctx.violation('track:order', 'track order %r, along the line %r' % (got_order[:8], exp_order[:8]), c2)
        return
    total = 0.0
    for tin, tout, i, name in kept:
        ctx.count('track_segments_checked')
        pin, pout = got[name]
        tol = 1e-6 * snap.size[i] + 1e-9 * L
        ein = (a[0] + tin * (b[0] - a[0]), a[1] + tin * (b[1] - a[1]))
        eout = (a[0] + tout * (b[0] - a[0]), a[1] + tout * (b[1] - a[1]))
        if PG.dist(pin, ein) > tol or PG.dist(pout, eout) > tol:
            ctx.violation('track:entry-exit-points', 'column %r: entry/exit %r / %r, clipping gives %r / %r' % (name, list(pin), list(pout), ein, eout), c2)
            return
        total += PG.dist(pin, pout)
    # consecutive segments abut where the line stays inside the domain
    for (t0, t1, i, n1), (u0, u1, j, n2) in zip(kept[:-1], kept[1:]):
        if abs(u0 - t1) * L < 1e-9 * L + 1e-6 * min(snap.size[i], snap.size[j]):
            if PG.dist(got[n1][1], got[n2][0]) > 1e-6 * max(snap.size[i], snap.size[j]) + 1e-9 * L:
                ctx.violation('track:segments-do-not-abut', 'exit of %r %r and entry of %r %r differ' % (n1, list(got[n1][1]), n2, list(got[n2][0])), c2)
                return
    inside_len = sum((k[1] - k[0]) * L for k in kept)
    if abs(total - inside_len) > 1e-6 * L + 1e-9:
        ctx.violation('track:length', 'track segments add up to %r, length of the line inside those columns %r' % (total, inside_len), c2)
        return
    ctx.see('columns_per_track', str(min(len(kept), 10)))
    ctx.case(('line', repr(c2['line'])), nontrivial=len(kept) >= 2)


def run_batch(ctx, geo, desc, npoints, nlines, batch):
    snap = Snap(geo)
    aids = make_aids(ctx, geo, snap, structured=(str(desc.get('kind', '')).split('+')[0] in ('rect',) and batch in ('fresh', 'after-translate')))
    case = {'geo': desc, 'batch': batch, 'seed': ctx.seed, 'shard': ctx.shard}
    modes = ['inside'] * 5 + ['box'] * 2 + ['outside'] + ['node-aligned'] * 2
    if desc.get('rot90'):
        modes = ['node-aligned'] * 7 + ['inside'] * 2 + ['box']
    for i in range(npoints):
        mode = modes[i % len(modes)]
        p = gen_point(ctx, snap, mode)
        if p is None:
            continue
        exp = check_point(ctx, geo, snap, p, mode, aids, case)
        ctx.case(('pt', batch, float(p[0]), float(p[1])), nontrivial=exp is not None)
        if i % 2 == 0:
            check_point_3d(ctx, geo, snap, p, exp, case)
    for i in range(nlines):
        check_line(ctx, geo, snap, case)
    sizes = snap.size
    ctx.maximum('column size ratio in one geometry', max(sizes) / min(sizes), desc.get('kind'))


def run_shard(ctx, spec):
    for kind in spec['geos']:
        with ctx.guard({'kind': kind}, where='make-geometry') as g:
            geo, desc = make_geo(ctx, kind)
        ctx.see('geometry_from', desc.get('through_file', 'memory'))
        if g.raised is not None:
            continue
        n, m = spec['points'] // 3, spec['lines'] // 3
        run_batch(ctx, geo, desc, n, m, 'fresh')
        # the same object, moved: anything remembered from the queries above is now stale
        sh = np.array([ctx.rng.uniform(-500, 500), ctx.rng.uniform(-500, 500), ctx.rng.uniform(-20, 20)])
        geo.translate(sh)
        desc = dict(desc, then_translate=[float(x) for x in sh])
        run_batch(ctx, geo, desc, n, m, 'after-translate')
        ctx.count('batches_after_moving_geometry')
        a = ctx.rng.choice([25.0, -40.0, 90.0])
        geo.rotate(a)
        desc = dict(desc, then_rotate=a)
        run_batch(ctx, geo, desc, n, m, 'after-rotate')
        ctx.count('batches_after_moving_geometry')
        if len(ctx.samples) < 2:
            ctx.samples.append({'geometry': desc.get('kind'), 'columns': geo.num_columns, 'points_per_batch': n, 'lines_per_batch': m})


def replay(ctx, case):
    ctx.rng.seed(case.get('seed', 0) * 1000003 + case.get('shard', 0))
    kind = case['geo']['kind']
    run_shard(ctx, {'geos': [kind], 'points': 600, 'lines': 150})
