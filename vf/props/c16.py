"""C16 -- Fortran number readers: Fortran's meaning, never raise.

Monitor shape: differential against vf/oracle/fortran_read.py on generated
renderings whose value is known by construction, on arbitrary strings, and on
every in-situ call made while the shipped listing / incon corpus is read
(sys.monitoring probe with a call stack: a call that never returns is an escaped
exception).
"""
import glob
import os
import string

from vf.core import HarnessError, REPO
from vf.oracle import fortran_read as FR
from vf.repo import R
from vf import probes

INFO = {
    'rule': ('cases = (reader, text, blank_value) triples: (a) reals sign x exponent -300..300 x 1..17 '
             'mantissa digits rendered in Fortran styles (E/D/e/d, leading point, explicit +, letter '
             'dropped, blank for +, 1P form, F form, leading/trailing/embedded blanks, asterisks), value '
             'known by construction; (b) integers with arbitrary blank padding; (c) arbitrary printable '
             'strings up to width 20, uniform and number-biased mutations; (d) every in-situ call made '
             'while shipped listing/incon files are read. Distinct = distinct (reader, text); '
             'non-trivial = texts that Python\'s own float()/int() rejects.'),
    'require': {
        'quick': {'counters': {'rendered_checked': 20000, 'random_checked': 20000, 'int_checked': 5000,
                               'insitu_calls_checked': 1000},
                  'seen': {'fallback_branch': ['python', 'blank', 'letter-or-blank', 'dropped-minus', 'dropped-plus', 'nan']},
                  'nontrivial': 1000},
        'thorough': {'counters': {'rendered_checked': 1000000, 'random_checked': 1000000, 'int_checked': 100000,
                                  'insitu_calls_checked': 100000},
                     'seen': {'fallback_branch': ['python', 'blank', 'letter-or-blank', 'dropped-minus', 'dropped-plus', 'nan']},
                     'nontrivial': 100000},
    },
    'watchdog_s': {'quick': 900, 'thorough': 3600},
    'assumptions': ['decimal->binary conversion of a canonical rendering is delegated to CPython float()',
                    'texts are str (what file reads produce)'],
}

N = {'quick': dict(rendered=60000, ints=20000, rand=60000, shards=4),
     'thorough': dict(rendered=450000, ints=60000, rand=450000, shards=16)}


def plan(tier, seed):
    n = N[tier]
    plan = [{'kind': 'gen', 'rendered': n['rendered'], 'ints': n['ints'], 'rand': n['rand']}
            for _ in range(n['shards'])]
    plan.append({'kind': 'insitu', 'files': 'small' if tier == 'quick' else 'all'})
    return plan


# ---------------------------------------------------------------------------
# renderings
# ---------------------------------------------------------------------------

STYLES = ['E', 'D', 'e', 'd', 'leading-point', 'explicit-plus', 'letter-dropped', 'blank-for-plus',
          '1P', 'F', 'embedded-blank', 'padded', 'D-letter-dropped-pad', 'asterisks']


def render(rng, style, neg, digits, exp):
    """Text of  (+/-) 0.<digits> x 10^exp  in the given style, plus the expected value.
    Returns (text, expected) with expected None when the text is not a number."""
    sign = '-' if neg else ''
    truth = float('%s0.%se%d' % (sign, digits, exp))
    es = '%+03d' % exp if abs(exp) < 100 else '%+04d' % exp
    if style in ('E', 'D', 'e', 'd'):
        t = '%s0.%s%s%s' % (sign, digits, style, es)
    elif style == 'leading-point':
        t = '%s.%s%s%s' % (sign, digits, rng.choice('EDed'), es)
    elif style == 'explicit-plus':
        t = '%s0.%s%s%s' % ('-' if neg else '+', digits, rng.choice('ED'), es)
    elif style == 'letter-dropped':
        # Fortran drops the letter when the exponent needs three digits; also legal for fewer
        t = '%s%s.%s%s' % (sign if not rng.random() < 0.2 else ('-' if neg else '+'),
                           rng.choice(['0', '']), digits, es)
    elif style == 'blank-for-plus':
        e2 = es.replace('+', ' ')
        t = '%s0.%s%s%s' % (sign, digits, rng.choice('ED'), e2)
    elif style == '1P':
        t = '%s%s.%s%s%s' % (sign, digits[0], digits[1:], rng.choice('ED'), '%+03d' % (exp - 1) if abs(exp - 1) < 100 else '%+04d' % (exp - 1))
    elif style == 'F':
        # plain decimal, only for moderate exponents
        e = max(-25, min(25, exp))
        truth = float('%s0.%se%d' % (sign, digits, e))
        if e <= 0:
            t = '%s%s.%s%s' % (sign, rng.choice(['0', '']), '0' * (-e), digits)
        elif e >= len(digits):
            t = '%s%s%s.' % (sign, digits, '0' * (e - len(digits)))
            if rng.random() < 0.5:
                t += '0'
        else:
            t = '%s%s.%s' % (sign, digits[:e], digits[e:])
    elif style == 'embedded-blank':
        t = '%s0.%s%s%s' % (sign, digits, rng.choice('EDed'), es)
        for _ in range(rng.randint(1, 3)):
            k = rng.randint(1, len(t) - 1)
            t = t[:k] + ' ' * rng.randint(1, 2) + t[k:]
    elif style == 'padded':
        t = '%s0.%s%s%s' % (sign, digits, rng.choice('EDed'), es)
    elif style == 'D-letter-dropped-pad':
        t = '%s.%s%s' % (sign, digits, es)
        k = rng.randint(0, len(t))
        t = t[:k] + ' ' + t[k:] if k not in (0,) else t
    elif style == 'asterisks':
        w = rng.randint(1, 24)
        return '*' * w, None
    else:
        raise HarnessError(style)
    # field padding: right-justified in a width 8..24 field, sometimes trailing blanks
    w = rng.randint(8, 24)
    if rng.random() < 0.7:
        t = t.rjust(w)
    if rng.random() < 0.2:
        t = t + ' ' * rng.randint(1, 3)
    return t, truth


def branch_of(s):
    """Which rewrite of the fallback cascade a text needs (from its own form, for
    the situation-coverage table; not used by the oracle)."""
    try:
        float(s)
        return 'python'
    except ValueError:
        pass
    t = s.strip()
    if not t:
        return 'blank'
    u = t.lower().replace('d', 'e').replace(' ', '')
    try:
        float(u)
        return 'letter-or-blank'
    except ValueError:
        pass
    p = FR.parse_fortran_real(u)
    if p is not None:
        body = u[1:]
        return 'dropped-minus' if ('-' in body) else 'dropped-plus'
    return 'nan'


def check_float(ctx, ff, text, blank, truth, style, where):
    case = {'reader': 'fortran_float', 'text': text, 'blank_value': blank, 'style': style}
    kind, exp = FR.ref_float(text, blank)
    if truth is not None:
        if kind != 'value' or not FR.same_float(exp, truth):
            raise HarnessError('oracle disagrees with construction: %r -> %s %r, truth %r' % (text, kind, exp, truth))
    try:
        got = ff.fortran_float(text, blank) if blank != 0.0 or ctx.rng.random() < 0.5 else ff.fortran_float(text)
    except BaseException as e:  # noqa: the property says *no text whatsoever* raises
        ctx.violation('raises:fortran_float:%s' % type(e).__name__, '%r raised %r' % (text, e), case)
        return
    ctx.evaluated()
    br = branch_of(text)
    ctx.see('fallback_branch', br)
    ctx.see('style_outcome', '%s/%s' % (style, kind if kind != 'value' else br))
    ctx.case(('f', text), nontrivial=(br != 'python'))
    if kind == 'value':
        if not FR.same_float(got, exp):
            ctx.violation('wrong-value:fortran_float:%s:%s' % (where, br),
                          'fortran_float(%r, %r) = %r, Fortran meaning %r' % (text, blank, got, exp), case)
    elif kind == 'nan':
        if not (isinstance(got, float) and got != got):
            ctx.violation('not-nan:fortran_float:%s' % where,
                          'fortran_float(%r) = %r but the text has a non-number character' % (text, got), case)
    else:
        ctx.count('unconstrained_texts')
        if not isinstance(got, float) and got is not blank:
            ctx.violation('non-float-result:fortran_float', 'fortran_float(%r) = %r' % (text, got), case)


def check_int(ctx, ff, text, blank, truth, where):
    case = {'reader': 'fortran_int', 'text': text, 'blank_value': blank}
    kind, exp = FR.ref_int(text, blank)
    if truth is not None and (kind != 'value' or exp != truth):
        raise HarnessError('int oracle disagrees with construction: %r -> %s %r, truth %r' % (text, kind, exp, truth))
    try:
        got = ff.fortran_int(text, blank)
    except BaseException as e:  # noqa
        ctx.violation('raises:fortran_int:%s' % type(e).__name__, '%r raised %r' % (text, e), case)
        return
    ctx.evaluated()
    try:
        int(text)
        py = True
    except ValueError:
        py = False
    ctx.case(('i', text), nontrivial=not py)
    ctx.see('int_outcome', kind if kind != 'value' else ('python' if py else ('blank' if not text.strip() else 'embedded-blank')))
    if kind == 'value':
        if got != exp or type(got) is not type(exp):
            ctx.violation('wrong-value:fortran_int:%s' % where,
                          'fortran_int(%r, %r) = %r, expected %r' % (text, blank, got, exp), case)
    elif kind == 'none':
        if got is not None:
            ctx.violation('not-none:fortran_int:%s' % where, 'fortran_int(%r) = %r' % (text, got), case)
    else:
        ctx.count('unconstrained_texts')
        if got is not None and not isinstance(got, int):
            ctx.violation('non-int-result:fortran_int', 'fortran_int(%r) = %r' % (text, got), case)


PRINTABLE = ''.join(chr(c) for c in range(32, 127))
NUMISH = '0123456789+-.eEdD '


def mutate(rng, t):
    ops = rng.randint(1, 3)
    for _ in range(ops):
        k = rng.randint(0, len(t))
        r = rng.random()
        if r < 0.3 and t:
            k = min(k, len(t) - 1)
            t = t[:k] + t[k + 1:]
        elif r < 0.65:
            t = t[:k] + rng.choice(NUMISH) + t[k:]
        elif r < 0.8:
            t = t[:k] + rng.choice(PRINTABLE) + t[k:]
        elif t:
            k = min(k, len(t) - 1)
            t = t[:k] + rng.choice(NUMISH) + t[k + 1:]
    return t[:24]


def random_digits(rng):
    n = rng.randint(1, 17)
    r = rng.random()
    if r < 0.1:
        return '9' * n
    if r < 0.2:
        return '1' + '0' * (n - 1)
    d = ''.join(rng.choice(FR.DIGITS) for _ in range(n))
    return d


BLANKS = [0.0, None, 0.0, -1.0, 7]


def check_read_function_entries(ctx, ff, text, style):
    """The dictionary handed to the parsers as read_function=fortran_read_function: every real kind ('f', 'e', 'g')
    must read a field exactly as fortran_float with blank_value None does, the integer kind as fortran_int."""
    want = ff.fortran_float(text, None)
    for kind in ('f', 'e', 'g'):
        case = {'reader': 'fortran_read_function[%s]' % kind, 'text': text, 'style': style}
        try:
            got = ff.fortran_read_function[kind](text)
        except BaseException as e:  # noqa
            ctx.violation('raises:fortran_read_function:%s' % kind, '%r raised %r' % (text, e), case)
            continue
        ctx.count('read_function_entries_checked')
        same = (got is None and want is None) or (got is not None and want is not None and (got == want or (got != got and want != want)))
        if not same:
            ctx.violation('wrong-value:fortran_read_function:%s' % kind, 'fortran_read_function[%r](%r) = %r, fortran_float gives %r' % (kind, text, got, want), case)


def run_gen(ctx, spec):
    ff = R.fixed_format_file
    rng = ctx.rng
    # (a) rendered reals; the exponent axis is walked systematically, the rest drawn
    n = spec['rendered']
    for i in range(n):
        exp = (i % 601) - 300
        style = STYLES[(i // 601) % len(STYLES)] if rng.random() < 0.5 else rng.choice(STYLES)
        neg = rng.random() < 0.5
        digits = random_digits(rng)
        if exp == 300 and int(digits[0]) > 1:
            digits = '1' + digits[1:]
        text, truth = render(rng, style, neg, digits, exp)
        blank = rng.choice(BLANKS[:3])
        check_float(ctx, ff, text, blank, truth, style, 'rendered')
        ctx.count('rendered_checked')
        if i % 7 == 0:
            check_read_function_entries(ctx, ff, text, style)
        if rng.random() < 0.1 and truth is not None:
            # number-biased mutation of a valid rendering
            check_float(ctx, ff, mutate(rng, text), blank, None, 'mutated', 'mutated')
            ctx.count('random_checked')
    # blank fields of every width with every blank value
    for w in range(0, 25):
        for blank in BLANKS:
            check_float(ctx, ff, ' ' * w, blank, None, 'blank', 'blank')
            check_int(ctx, ff, ' ' * w, blank, None, 'blank')
    # fields a line ends in: a short line leaves the line terminator (or nothing but it) in the last field it reaches, so a
    # field of white space other than blanks is a blank field too, and a number followed by the terminator is that number
    for ws in ['\n', '  \n', '\n    ', '\r\n', '  \r\n', '\t', ' \t ', '    \n     ', '\x0c', '\x0b']:
        for blank in BLANKS:
            check_float(ctx, ff, ws, blank, None, 'blank', 'line-end')
            check_int(ctx, ff, ws, blank, None, 'line-end')
            ctx.count('line_end_fields_checked', 2)
    for body, iv, fv in [('12', 12, 12.0), ('-7', -7, -7.0), ('1.5', None, 1.5), ('2.5E3', None, 2500.0), ('1.5-100', None, 1.5e-100)]:
        for tail in ['\n', '\r\n', ' \n', '\n  ']:
            for lead in ['', '  ']:
                check_float(ctx, ff, lead + body + tail, 0.0, fv, 'line-end', 'line-end')
                if iv is not None:
                    check_int(ctx, ff, lead + body + tail, 0, iv, 'line-end')
                ctx.count('line_end_fields_checked')
    # (b) integers
    for i in range(spec['ints']):
        r = rng.random()
        if r < 0.3:
            v = rng.randint(-99999, 99999)
        elif r < 0.6:
            v = rng.randint(-10 ** 12, 10 ** 12)
        else:
            v = rng.choice([0, 1, -1, 9, 10, 99, 100, 999, 10 ** 5 - 1, 10 ** 5, 2 ** 31 - 1, 2 ** 63, -2 ** 63])
        t = '%d' % v
        if rng.random() < 0.15 and v >= 0:
            t = '+' + t
        truth = v
        r = rng.random()
        if r < 0.4:
            t = t.rjust(rng.randint(1, 20))
        elif r < 0.6:
            t = t.ljust(rng.randint(1, 20))
        elif r < 0.85:
            for _ in range(rng.randint(1, 3)):
                k = rng.randint(0, len(t))
                t = t[:k] + ' ' * rng.randint(1, 2) + t[k:]
        elif r < 0.95:
            t = mutate(rng, t)
            truth = None
        else:
            t = '*' * rng.randint(1, 12)
            truth = None
        check_int(ctx, ff, t, rng.choice([0, None, 0, -1]), truth, 'generated')
        ctx.count('int_checked')
    # (c) arbitrary strings
    for i in range(spec['rand']):
        w = rng.randint(0, 20)
        r = rng.random()
        if r < 0.4:
            t = ''.join(rng.choice(PRINTABLE) for _ in range(w))
        elif r < 0.8:
            t = ''.join(rng.choice(NUMISH) for _ in range(w))
        else:
            t = ''.join(rng.choice('0123456789.-+E ') for _ in range(w))
        if rng.random() < 0.7:
            check_float(ctx, ff, t, rng.choice(BLANKS[:3]), None, 'arbitrary', 'arbitrary')
        else:
            check_int(ctx, ff, t, rng.choice([0, None]), None, 'arbitrary')
        ctx.count('random_checked')
    # a few hostile specials
    for t in ['1' * 5000, '9' * 400, '1e999', '-1e999', '1e-999', '\t1.5\n', '1.5\n', ' nan', 'INF', '-inf', '1_0',
              '1__0', '١٢', '0x10', '1e', 'e5', '.', '-', '+', '- 1', '1 e 5', '1.5d3', '1.5D-3', '1.5 -100',
              '-1.5-100', '-1.5+100', '+1.5+100', '+1.5-100', '\x00', '1.5\x00', '1,5', 'i n f', 'n a n']:
        check_float(ctx, ff, t, 0.0, None, 'special', 'special')
        check_int(ctx, ff, t, 0, None, 'special')


class InSitu(object):
    """Stack-disciplined probe: re-checks every call of the two readers made by
    the library itself, and notices calls that never return (escaped exception)."""
    def __init__(self, ctx, ff):
        self.ctx = ctx
        self.stackf, self.stacki = [], []
        self.escaped = 0
        self.nf = self.ni = 0
        probes.on_call(ff.fortran_float, self.start_f)
        probes.on_return(ff.fortran_float, self.ret_f)
        probes.on_call(ff.fortran_int, self.start_i)
        probes.on_return(ff.fortran_int, self.ret_i)
        self.bad = []
        self.current_file = None

    def start_f(self, loc):
        if self.stackf:
            self.escaped += 1
            self.bad.append(('escaped', self.stackf.pop()))
        self.stackf.append((loc.get('s'), loc.get('blank_value')))

    def ret_f(self, loc, ret):
        s, blank = self.stackf.pop()
        self.nf += 1
        if not isinstance(s, str):
            return
        kind, exp = FR.ref_float(s, blank)
        if kind == 'value' and not FR.same_float(ret, exp):
            self.bad.append(('f', s, blank, ret, exp))
        elif kind == 'nan' and not (isinstance(ret, float) and ret != ret):
            self.bad.append(('f', s, blank, ret, 'nan'))
        self.ctx.see('insitu_branch', branch_of(s))

    def start_i(self, loc):
        if self.stacki:
            self.escaped += 1
            self.bad.append(('escaped', self.stacki.pop()))
        self.stacki.append((loc.get('s'), loc.get('blank_value')))

    def ret_i(self, loc, ret):
        s, blank = self.stacki.pop()
        self.ni += 1
        if not isinstance(s, str):
            return
        kind, exp = FR.ref_int(s, blank)
        if kind == 'value' and ret != exp:
            self.bad.append(('i', s, blank, ret, exp))
        elif kind == 'none' and ret is not None:
            self.bad.append(('i', s, blank, ret, None))


def corpus(which):
    t = os.path.join(REPO, 'tests')
    listings = sorted(f for f in glob.glob(os.path.join(t, 'listing', '*', '*', '*'))
                      if not f.endswith('.npy') and not f.endswith('~'))
    incons = sorted(f for f in glob.glob(os.path.join(t, 'incon', '*', '*', '*')) if not f.endswith('.npy'))
    if which == 'small':
        listings = [f for f in listings if os.path.getsize(f) < 120000]
        incons = [f for f in incons if os.path.getsize(f) < 200000]
    return listings, incons


def run_insitu(ctx, spec):
    ff = R.fixed_format_file
    mon = InSitu(ctx, ff)
    listings, incons = corpus(spec['files'])
    for f in incons:
        case = {'file': os.path.relpath(f, REPO), 'kind': 'incon'}
        n0 = mon.nf + mon.ni
        with ctx.guard(case, where='insitu-incon'):
            R.t2incons.t2incon(f)
        report(ctx, mon, case)
        ctx.case(('insitu', case['file']), nontrivial=(mon.nf + mon.ni - n0) > 0, sample=True)
    # the timing record after '+++': its fields sliced by hand with the widths of the file's own flavour (TOUGHREACT
    # restart files - block records with three permeabilities after the porosity - write it as 2I6,I3,2E15.9, all others
    # as 3I5,2E15.9) must be what a FRESH object gives; shipped files and the same files with larger step counters
    for f in incons:
        with open(f, 'rb') as fh:
            lines = fh.read().decode('latin-1').split('\n')
        k = next((i for i, l in enumerate(lines) if l.startswith('+++')), None)
        if k is None or k + 1 >= len(lines) or not lines[k + 1].strip():
            continue
        react = any(len(l.rstrip()) > 50 and l[35:50].strip() for l in lines[1:k:2])
        widths = [6, 6, 3, 15, 15] if react else [5, 5, 5, 15, 15]
        variants = [('as-shipped', lines[k + 1])]
        big = [99999, 123456, 12] if react else [99999, 12345, 7]
        w = lines[k + 1].rstrip('\r').ljust(sum(widths))
        variants.append(('large-counters', ''.join(str(v).rjust(n) for v, n in zip(big, widths)) + w[sum(widths[:3]):]))
        for vname, tline in variants:
            case = {'file': os.path.relpath(f, REPO), 'kind': 'incon-timing-record', 'variant': vname, 'line': tline}
            fn = os.path.join(ctx.tmp, 'c16_timing_' + os.path.basename(f))
            with open(fn, 'wb') as fh:
                fh.write('\n'.join(lines[:k + 1] + [tline] + lines[k + 2:]).encode('latin-1'))
            t = tline.rstrip('\r').ljust(sum(widths))
            want, pos = [], 0
            for i, n in enumerate(widths):
                fld = t[pos:pos + n]
                pos += n
                want.append(FR.ref_int(fld, None)[1] if i < 3 else FR.ref_float(fld, None)[1])
            with ctx.guard(case, where='insitu-incon-timing'):
                inc = R.t2incons.t2incon(fn)
                ctx.count('timing_records_read')
                ctx.see('timing_flavour', 'toughreact' if react else 'tough2')
                got = inc.timing and [inc.timing[x] for x in ('kcyc', 'iter', 'nm', 'tstart', 'sumtim')]
                if got is None or any((a is None) != (b is None) or (a is not None and float(a) != float(b)) for a, b in zip(got, want)):
                    ctx.violation('wrong-value:timing-record:' + ('toughreact' if react else 'tough2'),
                                  '%s (%s): timing record %r read as %r, its fields (%s) read %r' % (
                                      case['file'], vname, tline, got, ','.join(map(str, widths)), want), case)
            os.remove(fn)
            report(ctx, mon, case)
    # the same numbers when the file simply ends after its last record (no final newline, as files cut or
    # produced by other tools do): the last field of the last line must read as it does in the full file
    for f in incons:
        case = {'file': os.path.relpath(f, REPO), 'kind': 'incon-without-final-newline'}
        with open(f, 'rb') as fh:
            lines = fh.read().decode('latin-1').split('\n')
        end = next((i for i, l in enumerate(lines) if i > 0 and (not l.strip() or l.startswith('+++'))), len(lines))
        if end < 3:
            continue
        cut = os.path.join(ctx.tmp, 'c16_cut_' + os.path.basename(f))
        with open(cut, 'wb') as fh:
            fh.write('\n'.join(lines[:end]).encode('latin-1'))           # no newline after the last record
        with ctx.guard(case, where='insitu-incon-cut'):
            a = R.t2incons.t2incon(f)
            b = R.t2incons.t2incon(cut)
            ctx.count('files_without_final_newline')
            va = [(x.block, [float(v) for v in x.variable]) for x in a]
            vb = [(x.block, [float(v) for v in x.variable]) for x in b]
            if va != vb:
                k = next((i for i, (p, q) in enumerate(zip(va, vb)) if p != q), min(len(va), len(vb)))
                ctx.violation('wrong-value:file-without-final-newline', '%s cut after its last record reads %r where the full file reads %r' % (
                    case['file'], vb[k] if k < len(vb) else None, va[k] if k < len(va) else None), case)
        os.remove(cut)
        report(ctx, mon, case)
    # a number the reader returns must also reach the object: TOUGHREACT restart files carry three permeabilities per
    # block; a Fortran-written ZERO there (in any rendering) is a value, only a blank field means "not given"
    zeros = [' 0.00000000E+00', ' 0.00000000D+00', '            0.0', '             0.', '             .0', '              0', '-0.00000000E+00']
    for zi, z in enumerate(zeros):
        case = {'kind': 'incon-with-zero-permeability', 'rendering': z}
        lines = ['INCON']
        want = {}
        for b in range(3):
            name = '  a%2d' % (b + 1)
            perm = [' 6.51000000E-14', ' 3.25500000E-14', ' 1.00000000E-15']
            perm[(zi + b) % 3] = z
            lines.append(name + ' ' * 10 + ' 1.00000000E-01' + ''.join(perm))
            lines.append(' 1.0130000000000E+05 2.0000000000000E+01')
            want[name] = [FR.ref_float(x, None)[1] for x in perm]
        lines += ['', '']
        fn = os.path.join(ctx.tmp, 'c16_zero_perm.incon')
        with open(fn, 'w') as fh:
            fh.write('\n'.join(lines))
        with ctx.guard(case, where='insitu-incon-zero-permeability'):
            inc = R.t2incons.t2incon(fn)
            ctx.count('zero_permeability_fields_read', 3)
            for name, exp in want.items():
                got = inc[name].permeability
                if got is None or [float(x) for x in got] != [float(x) for x in exp]:
                    ctx.violation('wrong-value:zero-read-as-absent', 'block %r permeability fields %r read as %r, Fortran reads %r' % (name, z, got, exp), case)
                    break
        report(ctx, mon, case)
    # a blank field is a value too (the blank value, here: absent) and keeps its place: restart files in which a primary
    # variable in the middle of a record is not filled in
    patterns = [[1, 0, 1], [1, 0, 0, 1], [0, 1, 1], [1, 1, 0, 1], [1, 0, 1, 0], [0, 0, 1]]
    for pi, pat in enumerate(patterns):
        case = {'kind': 'incon-with-blank-field-inside-record', 'pattern': pat}
        lines = ['INCON']
        want = {}
        for b in range(3):
            name = '  b%2d' % (b + 1)
            vals = [(1.0e5 + 10 * b + k) if on else None for k, on in enumerate(pat)]
            lines.append(name + ' ' * 10 + ' 1.00000000E-01')
            lines.append(''.join((' %19.13E' % v) if v is not None else ' ' * 20 for v in vals).rstrip())
            w = list(vals)
            while w and w[-1] is None:
                w.pop()
            want[name] = w
        lines += ['', '']
        fn = os.path.join(ctx.tmp, 'c16_blank_inside.incon')
        with open(fn, 'w') as fh:
            fh.write('\n'.join(lines))
        with ctx.guard(case, where='insitu-incon-blank-inside') as gb:
            inc = R.t2incons.t2incon(fn)
            ctx.count('records_with_blank_field_inside_read', 3)
            for name, exp in want.items():
                got = [None if v is None else float(v) for v in inc[name].variable]
                if got != exp:
                    ctx.violation('wrong-value:blank-field-inside-record', 'block %r record with fields %r read as %r, Fortran-style reading gives %r' % (name, pat, got, exp), case)
                    break
        report(ctx, mon, case)
    for f in listings:
        case = {'file': os.path.relpath(f, REPO), 'kind': 'listing'}
        n0 = mon.nf + mon.ni
        with ctx.guard(case, where='insitu-listing'):
            lst = R.t2listing.t2listing(f)
            if spec['files'] == 'all' or lst.num_fulltimes <= 12:
                while lst.next():
                    pass
            else:
                lst.last()
            lst.close()
        report(ctx, mon, case)
        ctx.case(('insitu', case['file']), nontrivial=(mon.nf + mon.ni - n0) > 0, sample=True)
    # the same readers reached through history() (which walks the file by another route than stepping does), on copies of
    # two small listings in which every number is re-printed with a three-digit exponent and no exponent letter
    from vf.props import c05 as C05
    from vf.oracle import listing_ref as LR
    import random
    small = sorted((os.path.getsize(f), f) for f in listings if os.path.getsize(f) < 3e6)
    picks = [f for _, f in small if '/AUTOUGH2/' in f][:1] + [f for _, f in small if '/TOUGH2/' in f][:1]
    for f in picks:
        case = {'file': os.path.relpath(f, REPO), 'kind': 'listing-variant-history', 'variant': 'exp3-no-letter'}
        try:
            ref = LR.parse_listing(f)
            lines = C05.read_lines(f)
            n = C05.make_variant(ctx, random.Random(16), lines, ref, 'exp3-no-letter', 1.0)
            fn = C05.write_variant(ctx, f, lines, 'c16hist')
        except Exception as e:
            import traceback
            raise HarnessError('building the listing variant failed: %s\n%s' % (e, traceback.format_exc()))
        if n == 0:
            continue
        with ctx.guard(case, where='insitu-history-variant'):
            lst = R.t2listing.t2listing(fn)
            N = lst.num_fulltimes
            for tname in lst._tablenames:
                tab = lst._table[tname]
                rows = sorted(set([0, tab.num_rows // 2, tab.num_rows - 1])) if tab.num_rows else []
                cols = list(tab.column_name)[:4]
                sel = [(tname[0] if not tname.startswith('element') or tname == 'element' else tname, tab.row_name[r], c) for r in rows for c in cols]
                if not sel or len(set(tab.row_name)) != len(tab.row_name) or tname not in ('element', 'connection', 'generation'):
                    continue
                hist = lst.history(sel, short=False)
                ctx.count('histories_read_from_listing_variants', len(sel))
                # against stepping
                for (spec, row, col), (times, vals) in zip(sel, hist):
                    step = []
                    for i in range(N):
                        lst.index = i
                        step.append(float(lst._table[tname][row][col]))
                    if len(vals) != N or any(not ((float(a) == b) or (a != a and b != b)) for a, b in zip(vals, step)):
                        ctx.violation('wrong-value:history-on-listing-variant', '%s table %s row %r column %r: history %r..., stepping %r...' % (
                            case['file'], tname, row, col, list(vals[:3]), step[:3]), case)
                        break
            lst.close()
        os.remove(fn)
        report(ctx, mon, case)
    # ... and on fields whose numbers are wider further down the column than in the first row (fixed-point columns of
    # right-justified numbers): every cell of the copy against the text (C05's comparison), so that a reader handed a
    # field cut short is seen even though it converts what it was handed correctly
    for f in [f for f in corpus('all')[0] if '/TOUGH2/10/' in f or '/TOUGH2/11/' in f][:2]:
        rel = os.path.relpath(f, REPO)
        case = {'file': rel, 'kind': 'listing-variant-cells', 'variant': 'wider-fixed'}
        try:
            ref = LR.parse_listing(f)
            lines = C05.read_lines(f)
            n = C05.make_variant(ctx, random.Random(17), lines, ref, 'wider-fixed', 1.0)
            fn = C05.write_variant(ctx, f, lines, 'c16wide')
            C05.selfcheck(ctx, fn, ref)
        except Exception as e:
            import traceback
            raise HarnessError('building the listing variant failed: %s\n%s' % (e, traceback.format_exc()))
        if n == 0:
            continue
        ctx.count('cells_widened_in_listing_variants', n)
        C05.check_listing(ctx, fn, rel, ref, 'wider-fixed', (), case)
        os.remove(fn)
        report(ctx, mon, case)
    if mon.stackf or mon.stacki:
        ctx.violation('raises:insitu:unreturned-call', 'calls that never returned: %r' % (mon.stackf + mon.stacki), {'files': 'corpus'})
    ctx.count('insitu_calls_checked', mon.nf + mon.ni)
    ctx.count('insitu_float_calls', mon.nf)
    ctx.count('insitu_int_calls', mon.ni)
    ctx.evaluated(mon.nf + mon.ni)


def report(ctx, mon, case):
    for b in mon.bad[:20]:
        if b[0] == 'escaped':
            ctx.violation('raises:insitu:escaped', 'call %r never returned' % (b[1],), dict(case, text=b[1][0]))
        else:
            ctx.violation('wrong-value:insitu:%s' % ('fortran_float' if b[0] == 'f' else 'fortran_int'),
                          'in situ %r (blank %r) -> %r, expected %r' % (b[1], b[2], b[3], b[4]),
                          {'reader': 'fortran_float' if b[0] == 'f' else 'fortran_int', 'text': b[1], 'blank_value': b[2]})
    del mon.bad[:]


def run_shard(ctx, spec):
    if spec['kind'] == 'gen':
        run_gen(ctx, spec)
    else:
        run_insitu(ctx, spec)


def replay(ctx, case):
    ff = R.fixed_format_file
    if case.get('reader') == 'fortran_int':
        check_int(ctx, ff, case['text'], case.get('blank_value', 0), None, 'replay')
    elif case.get('reader') == 'fortran_float':
        check_float(ctx, ff, case['text'], case.get('blank_value', 0.0), None, case.get('style', 'replay'), 'replay')
    else:
        run_insitu(ctx, {'files': 'small'})
