"""C17 -- names unique, well-formed and invertible.

Monitor shape: enumeration of the name generators against own capacity
arithmetic; construction of rectangular geometries at sizes straddling every
capacity limit with the outcome (geometry / NamingConventionError) predicted by
the oracle; class-complete enumeration of 5-character names for the
fix/unfix/cycle clauses against an own (A3,I2) formatter; icontract
post-conditions on fix_/unfix_blockname active throughout.
"""
import os
import itertools
from string import ascii_lowercase, ascii_uppercase

from vf.core import HarnessError
from vf.repo import R
from vf import contracts

INFO = {
    'rule': ('cases = (a) (function, convention, justification, character set, spaces, n) for n in the walked '
             'integer range; (b) rectangular(nx, ny, nz, convention, atmosphere, justify, case, spaces) at sizes '
             'straddling each capacity limit, outcome predicted from own capacity arithmetic; (c) 5-character '
             'names over the class-complete alphabet {a,Z,0,7,blank,-} (6^5, all of them) plus random names over '
             'the printable alphabet. Distinct = distinct descriptor; non-trivial = a name-function call at or '
             'beyond 2 characters / a geometry with >= 2 layers and >= 2 columns or an expected naming error / a '
             'name that fix or unfix changes.'),
    'require': {
        'quick': {'counters': {'name_function_calls': 100000, 'geometries_checked': 40, 'names_cycled': 7776,
                               'icontract_fix_evaluations': 1000},
                  'seen': {'capacity_limit_crossed': 6}, 'nontrivial': 1000},
        'thorough': {'counters': {'name_function_calls': 2000000, 'geometries_checked': 300, 'names_cycled': 100000,
                                  'icontract_fix_evaluations': 100000},
                     'seen': {'capacity_limit_crossed': 8}, 'nontrivial': 10000},
    },
    'exhaustive_note': {
        'quick': 'fix/unfix/cycle clauses: all 6^5 names over the class-complete alphabet',
        'thorough': 'name generators: every integer 0..20000 x 4 conventions x 2 justifications x 4 character sets x '
                    'spaces on/off; fix/unfix/cycle: all 6^5 names over the class-complete alphabet'},
    'watchdog_s': {'quick': 900, 'thorough': 3600},
    'assumptions': ['name spaces: bijective base-n numeration with spaces, plain base-n padded with the first '
                    'character without (own arithmetic in capacity())'],
}

CHARSETS = {'lower': ascii_lowercase, 'upper': ascii_uppercase, 'custom5': 'qwxyz',
            'long30': 'abcdefghijklmnopqrstuvwxyzABCD'}


def configs():
    for conv in range(4):
        for just in ('r', 'l'):
            for cs in CHARSETS:
                for spaces in (True, False):
                    yield conv, just, cs, spaces


def plan(tier, seed):
    cfgs = list(configs())
    nsh = 4 if tier == 'quick' else 16
    shards = [{'kind': 'names', 'configs': cfgs[i::nsh]} for i in range(nsh)]
    shards.append({'kind': 'fixunfix'})
    rect = rect_cases(tier)
    nr = 3 if tier == 'quick' else 14
    shards.extend({'kind': 'rect', 'cases': rect[i::nr]} for i in range(nr))
    shards.append({'kind': 'split', 'cases': split_cases(tier)})
    shards.append({'kind': 'derived'})
    return shards


# -- own capacity arithmetic ------------------------------------------------------

def letters_capacity(n, length, spaces):
    """Number of names for numbers 1.. that fit `length` characters."""
    if spaces:
        return sum(n ** k for k in range(1, length + 1))
    return n ** length - 1


def capacity(kind, conv, nchars, spaces):
    """(name length, largest number that has a name) for 'col'/'node'/'layer'."""
    if kind in ('col', 'node'):
        length = [3, 2, 3, 3][conv]
        if conv in (0, 3):
            return length, letters_capacity(nchars, length, spaces)
        return length, 10 ** length - 1
    length = [2, 3, 2, 2][conv]
    if conv == 0:
        return length, 10 ** length - 1
    return length, letters_capacity(nchars, length, spaces)


def windows(cap, top):
    s = set(range(0, min(top, 1300) + 1))
    for c in (cap, 99, 100, 702, 999, 1000, 18278, 17575, 155, 124):
        s.update(x for x in range(c - 3, c + 4) if 0 <= x <= top)
    s.update(range(0, top + 1, 37))
    return sorted(s)


def run_names(ctx, spec):
    mg = R.mulgrids
    top = 20000
    for conv, just, csname, spaces in spec['configs']:
        chars = CHARSETS[csname]
        justfn = str.rjust if just == 'r' else str.ljust
        g = mg.mulgrid(convention=conv)
        for kind, fn in (('col', g.column_name_from_number), ('node', g.node_name_from_number),
                         ('layer', g.layer_name_from_number)):
            length, cap = capacity(kind, conv, len(chars), spaces)
            seen = {}
            rng_ = range(1, top + 1) if ctx.tier == 'thorough' else [x for x in windows(cap, top) if x >= 1]
            for n in rng_:
                case = {'function': kind + '_name_from_number', 'convention': conv, 'justify': just,
                        'chars': csname, 'spaces': spaces, 'n': n}
                name = None
                err = False
                with ctx.guard(case, expected=(mg.NamingConventionError,)) as gd:
                    name = fn(n, justfn, chars, spaces)
                if gd.raised is not None:
                    if not isinstance(gd.raised, mg.NamingConventionError):
                        continue
                    err = True
                ctx.evaluated()
                ctx.count('name_function_calls')
                ctx.case(case, nontrivial=(n > len(chars)) and (n % 11 == 0 or abs(n - cap) < 4), sample=False)
                if err:
                    if n <= cap:
                        ctx.violation('premature-naming-error:%s' % kind,
                                      '%s raised NamingConventionError at %d, name space holds %d' % (kind, n, cap), case)
                    else:
                        ctx.see('capacity_limit_crossed', '%s conv=%d spaces=%s chars=%d cap=%d' % (kind, conv, spaces, len(chars), cap))
                    continue
                if n > cap:
                    ctx.violation('no-naming-error:%s' % kind,
                                  '%s(%d) returned %r beyond capacity %d' % (kind, n, name, cap), case)
                    continue
                if not isinstance(name, str) or len(name) != length:
                    ctx.violation('wrong-length:%s' % kind, '%s(%d) = %r, convention length %d' % (kind, n, name, length), case)
                    continue
                if name in seen:
                    ctx.violation('duplicate-name:%s' % kind, '%s(%d) = %s(%d) = %r' % (kind, n, kind, seen[name], name), case)
                seen[name] = n
                body = name.strip()
                if conv in (0, 3) and kind != 'layer' or (kind == 'layer' and conv != 0):
                    if any(c not in chars for c in body) or (not spaces and ' ' in name):
                        ctx.violation('foreign-character:%s' % kind, '%s(%d) = %r' % (kind, n, name), case)
                    if (just == 'r' and name != body.rjust(length)) or (just == 'l' and name != body.ljust(length)):
                        ctx.violation('justification:%s' % kind, '%s(%d) = %r with justify=%s' % (kind, n, name, just), case)
        # int_to_chars: distinct, only characters of the set
        seen = {}
        for n in (range(0, top + 1) if ctx.tier == 'thorough' else windows(0, top)):
            case = {'function': 'int_to_chars', 'chars': csname, 'spaces': spaces, 'n': n, 'length': 3}
            with ctx.guard(case) as gd:
                s = mg.int_to_chars(n, chars=chars, spaces=spaces, length=3)
            if gd.raised is not None:
                continue
            ctx.evaluated()
            ctx.count('name_function_calls')
            if s in seen:
                ctx.violation('duplicate-name:int_to_chars', 'int_to_chars(%d) = int_to_chars(%d) = %r' % (n, seen[s], s), case)
            seen[s] = n
            if any(c not in chars for c in s):
                ctx.violation('foreign-character:int_to_chars', 'int_to_chars(%d) = %r' % (n, s), case)
            # own numeration
            if s != own_int_to_chars(n, chars, spaces, 3):
                ctx.violation('numeration:int_to_chars', 'int_to_chars(%d) = %r, own numeration %r' % (n, s, own_int_to_chars(n, chars, spaces, 3)), case)
        # new_dict_key: never returns a used key
        d = {}
        istart = 0
        for k in range(60):
            case = {'function': 'new_dict_key', 'chars': csname, 'spaces': spaces, 'k': k}
            with ctx.guard(case) as gd:
                name, istart2 = mg.new_dict_key(d, istart if k % 3 else 0, str.rjust if just == 'r' else str.ljust, 3, chars, spaces)
            if gd.raised is not None:
                break
            ctx.evaluated()
            if name in d:
                ctx.violation('duplicate-name:new_dict_key', 'new_dict_key returned used key %r' % name, case)
            d[name] = 1
            istart = istart2


def own_int_to_chars(i, chars, spaces, length):
    n = len(chars)
    if spaces:
        s = ''
        while i > 0:
            i -= 1
            s = chars[i % n] + s
            i //= n
        return s
    s = ''
    while i > 0:
        s = chars[i % n] + s
        i //= n
    return chars[0] * (length - len(s)) + s


# -- rectangular geometries ---------------------------------------------------------

def rect_cases(tier):
    cases = []
    col_shapes = [(1, 1), (5, 5), (2, 13), (9, 3), (7, 4), (14, 7), (9, 11), (10, 10), (101, 1), (1, 99), (26, 27), (27, 26),
                  (37, 19), (27, 37), (999, 1), (32, 31), (8, 9), (9, 9), (10, 9), (11, 8), (6, 13)]
    lay_counts = [1, 2, 45, 46, 47, 98, 99, 100, 101, 120, 26, 27, 702, 703, 675, 676]
    if tier == 'quick':
        col_shapes = [(1, 1), (5, 5), (2, 13), (8, 9), (9, 9), (10, 10), (26, 27), (32, 31)]
        lay_counts = [1, 46, 47, 99, 100, 120]
    k = 0
    for (nx, ny) in col_shapes:
        for nz in lay_counts:
            big = nx * ny * nz
            if big > (60000 if tier == 'quick' else 400000):
                continue
            for conv in range(4):
                # rotate the remaining options so that all appear without a full product
                atm = k % 3
                just = 'rl'[(k // 3) % 2]
                case_ = [None, 'u', 'l'][(k // 6) % 3]
                spaces = [True, False][(k // 2) % 2]
                cases.append({'nx': nx, 'ny': ny, 'nz': nz, 'convention': conv, 'atmos_type': atm,
                              'justify': just, 'case': case_, 'spaces': spaces})
                k += 1
    # custom character sets (single case, mixed case, repeats) x the case option: the set is folded to one case
    # first and repeated characters are dropped afterwards, so 'bcBC' with case='u' is the two-character set 'BC'
    k = 0
    for chars in ('bcde', 'bcBC', 'bBcCdD', 'qwertyQWERTY', 'bcdbce'):
        for (nx, ny) in [(1, 1), (2, 2), (3, 4), (5, 5), (8, 9), (12, 12)][:(4 if tier == 'quick' else 6)]:
            for nz in (1, 3, 8, 30):
                for case_ in (None, 'u', 'l'):
                    conv = k % 4
                    cases.append({'nx': nx, 'ny': ny, 'nz': nz, 'convention': conv, 'atmos_type': k % 3, 'justify': 'rl'[k % 2],
                                  'case': case_, 'spaces': [True, False][(k // 2) % 2], 'chars': chars})
                    k += 1
    return cases


def effective_chars(c):
    chars = c.get('chars')
    if chars is None:
        return None
    if c['case'] == 'u':
        chars = chars.upper()
    elif c['case'] == 'l':
        chars = chars.lower()
    out = ''
    for ch in chars:
        if ch not in out:
            out += ch
    return out


def expected_rect_error(c):
    eff = effective_chars(c)
    nchars = 26 if eff is None else len(eff)
    nodes = (c['nx'] + 1) * (c['ny'] + 1)
    cols = c['nx'] * c['ny']
    _, ncap = capacity('node', c['convention'], nchars, c['spaces'])
    _, ccap = capacity('col', c['convention'], nchars, c['spaces'])
    _, lcap = capacity('layer', c['convention'], nchars, c['spaces'])
    # one generated layer name is skipped when it equals the surface layer name
    skip = 0
    lower = c['case'] in (None, 'l') and eff is None        # (the custom sets used here cannot spell 'at' / 'atm')
    if c['convention'] == 2 and lower and c['spaces'] and c['nz'] >= 46:
        skip = 1            # 'at' is name number 46
    if c['convention'] == 1 and lower and c['spaces'] and c['nz'] >= 1 * 676 + 20 * 26 + 13:
        skip = 1            # 'atm'
    if c['convention'] == 2 and lower and not c['spaces'] and c['nz'] >= 0 * 26 + 19:
        skip = 1            # without spaces 'at' is number 19 ('a'=0,'t'=19)
    return nodes > ncap or cols > ccap or c['nz'] + skip > lcap


def run_rect(ctx, spec):
    mg = R.mulgrids
    for c in spec['cases']:
        geo = None
        with ctx.guard(c, expected=(mg.NamingConventionError,)) as gd:
            kw = {}
            if c.get('chars') is not None:
                kw['chars'] = c['chars']
                ctx.count('custom_character_sets')
            geo = mg.mulgrid().rectangular([10.] * c['nx'], [10.] * c['ny'], [1.] * c['nz'], convention=c['convention'],
                                           atmos_type=c['atmos_type'], justify=c['justify'], case=c['case'],
                                           spaces=c['spaces'], **kw)
        if gd.raised is not None and not isinstance(gd.raised, mg.NamingConventionError):
            continue
        ctx.evaluated()
        ctx.count('geometries_checked')
        exp_err = expected_rect_error(c)
        ctx.case(c, nontrivial=exp_err or (c['nz'] >= 2 and c['nx'] * c['ny'] >= 2), sample=True)
        if gd.raised is not None:
            ctx.see('rect_outcome', 'naming-error conv=%d' % c['convention'])
            if not exp_err:
                ctx.violation('premature-naming-error:rectangular', 'rectangular raised %s but all names fit' % gd.raised, c)
            else:
                ctx.see('capacity_limit_crossed', 'rectangular conv=%d' % c['convention'])
            continue
        ctx.see('rect_outcome', 'built conv=%d atm=%d' % (c['convention'], c['atmos_type']))
        if exp_err:
            ctx.violation('no-naming-error:rectangular', 'rectangular built a geometry beyond the name space', c)
            continue
        if (geo.num_columns, geo.num_nodes, geo.num_layers) != (c['nx'] * c['ny'], (c['nx'] + 1) * (c['ny'] + 1), c['nz'] + 1):
            ctx.violation('rectangular-lost-items', 'asked for %d columns, %d nodes, %d layers; the geometry has %d, %d, %d' % (
                c['nx'] * c['ny'], (c['nx'] + 1) * (c['ny'] + 1), c['nz'] + 1, geo.num_columns, geo.num_nodes, geo.num_layers), c)
            continue
        check_geometry_names(ctx, geo, c)
        if 3 <= c['nx'] <= 12 and 3 <= c['ny'] <= 12 and c['nz'] <= 30:
            # a sub-model: the same geometry without one interior column / one column in the middle of a side / a corner
            # column (the first two orphan no node): its block names are those of the columns that are left
            for which, (ix, iy) in (('interior', (c['nx'] // 2, c['ny'] // 2)), ('mid-side', (c['nx'] // 2, 0)), ('corner', (0, 0))):
                sub = mg.mulgrid().rectangular([10.] * c['nx'], [10.] * c['ny'], [1.] * c['nz'], convention=c['convention'], atmos_type=c['atmos_type'],
                                               justify=c['justify'], case=c['case'], spaces=c['spaces'], **kw)
                out = sub.columnlist[iy + ix * c['ny']] if len(sub.columnlist) == c['nx'] * c['ny'] else sub.columnlist[0]
                keep = [col for col in sub.columnlist if col is not out]
                with ctx.guard(c, where='reduce:' + which) as g1:
                    sub.reduce(keep)
                if g1.raised is None:
                    ctx.count('reduced_geometries_checked')
                    if sub.num_columns != len(keep):
                        ctx.violation('reduce-column-count', 'reduce() to %d columns leaves %d' % (len(keep), sub.num_columns), c)
                    else:
                        check_geometry_names(ctx, sub, c, prefix='reduced[%s]:' % which)
        if geo.num_blocks <= 1500 and c['justify'] == 'r':
            # the same names must come back from a geometry file (the reader sets the name lengths of the file's
            # convention before it builds names), and be well-formed there too; right-justified names only: the
            # format documentation says left-justified ones are not safe in files (they come back right-justified)
            fn = os.path.join(ctx.tmp, 'c17.dat')
            with ctx.guard(c, where='file-round-trip') as g2:
                geo.write(fn)
                back = mg.mulgrid(fn)
            if g2.raised is None:
                ctx.count('geometries_reread_from_file')
                if list(back.block_name_list) != list(geo.block_name_list):
                    k = next((i for i, (a, b) in enumerate(zip(geo.block_name_list, back.block_name_list)) if a != b), min(len(geo.block_name_list), len(back.block_name_list)))
                    ctx.violation('names-change-in-file-round-trip', 'block names written %r..., read back %r... (%d vs %d names)' % (
                        geo.block_name_list[k:k + 3], back.block_name_list[k:k + 3], len(geo.block_name_list), len(back.block_name_list)), c)
                else:
                    check_geometry_names(ctx, back, c, prefix='reread:')
                # the same file as other programs (and hand editing) spell it: every node / column / layer name at the
                # RIGHT of its 3-column field instead of at the left - the names are the same names
                with open(fn) as fh:
                    lines = fh.read().split('\n')
                sec, out = None, []
                for k, l in enumerate(lines):
                    if k == 0:
                        out.append(l)
                        continue
                    if sec is None:
                        sec = l[:5].upper() if l.strip() else None
                        out.append(l)
                        continue
                    if not l.strip():
                        sec = None
                        out.append(l)
                        continue
                    if sec in ('VERTI', 'GRID', 'GRID ', 'LAYER', 'SURFA'):
                        l = l[:3].strip().rjust(3) + l[3:]
                    elif sec == 'CONNE':
                        l = l[:3].strip().rjust(3) + l[3:6].strip().rjust(3) + l[6:]
                    out.append(l)
                fn2 = os.path.join(ctx.tmp, 'c17_right.dat')
                with open(fn2, 'w') as fh:
                    fh.write('\n'.join(out))
                with ctx.guard(c, where='file-right-aligned-names') as g3:
                    back2 = mg.mulgrid(fn2)
                if g3.raised is None:
                    ctx.count('geometries_reread_with_right_aligned_names')
                    if list(back2.block_name_list) != list(geo.block_name_list) or [x.name for x in back2.columnlist] != [x.name for x in geo.columnlist] or \
                            [x.name for x in back2.nodelist] != [x.name for x in geo.nodelist]:
                        bad = next(((a, b) for a, b in zip([x.name for x in geo.columnlist] + list(geo.block_name_list), [x.name for x in back2.columnlist] + list(back2.block_name_list)) if a != b), None)
                        ctx.violation('names-change-with-alignment-in-file', 'names right-aligned in their file fields read back differently: %r (convention %d; %d vs %d block names)' % (
                            bad, c['convention'], len(geo.block_name_list), len(back2.block_name_list)), c)
                    else:
                        check_geometry_names(ctx, back2, c, prefix='reread-right-aligned:')


def check_geometry_names(ctx, geo, c, prefix=''):
    names = geo.block_name_list
    if len(set(names)) != len(names):
        dup = [n for n in set(names) if names.count(n) > 1][:3] if len(names) < 20000 else '?'
        ctx.violation(prefix + 'duplicate-block-name', 'duplicate block names %r' % (dup,), c)
    bad = [n for n in names if not isinstance(n, str) or len(n) != 5]
    if bad:
        ctx.violation(prefix + 'block-name-length', 'block names not 5 characters: %r' % bad[:3], c)
    for kind, lst, length in (('column', geo.columnlist, geo.colname_length), ('layer', geo.layerlist, geo.layername_length),
                              ('node', geo.nodelist, geo.colname_length)):
        ns = [o.name for o in lst]
        if len(set(ns)) != len(ns):
            ctx.violation(prefix + 'duplicate-name:%s' % kind, 'duplicate %s names' % kind, c)
        if kind == 'layer':
            ns = ns[1:]   # the surface layer has a fixed name of its own ('atm' in a 3-character convention)
        wrong = [n for n in ns if len(n) != length]
        if wrong:
            ctx.violation(prefix + 'wrong-length:%s' % kind, '%s names %r, convention length %d' % (kind, wrong[:3], length), c)
    # the nodes the columns are made of are nodes of the geometry, each under a name of its own (a generated name that
    # is already some other node's leaves a column corner the geometry does not know, or knows as a different point)
    used = {}
    for col in geo.columnlist:
        for n in col.node:
            used[id(n)] = n
    ctx.count('column_corner_nodes_looked_up', len(used))
    stray = [n.name for n in used.values() if geo.node.get(n.name) is not n]
    if stray:
        ctx.violation(prefix + 'corner-node-name-taken-or-unknown', 'column corners %r are not the nodes the geometry holds under those names (%d node names, %d distinct among the corners)' % (
            stray[:3], geo.num_nodes, len(set(n.name for n in used.values()))), c)
    # invertibility: expected (column, layer) per block from the documented order
    natm = [1, len(geo.columnlist), 0][geo.atmosphere_type]
    exp = []
    if geo.atmosphere_type == 1:
        exp += [(col.name, geo.layerlist[0].name) for col in geo.columnlist]
    elif geo.atmosphere_type == 0:
        exp += [(None, geo.layerlist[0].name)]
    exp += [(col.name, lay.name) for lay in geo.layerlist[1:] for col in geo.columnlist]
    if len(exp) != len(names):
        ctx.violation(prefix + 'block-count', '%d block names for %d (column, layer) pairs' % (len(names), len(exp)), c)
        return
    nbad = 0
    for b, (cn, ln) in zip(names, exp):
        gc, gl = geo.column_name(b), geo.layer_name(b)
        ok = (gl == ln[:geo.layername_length] if len(ln) > geo.layername_length else gl == ln) and (cn is None or gc == cn)
        if not ok:
            nbad += 1
            if nbad <= 1:
                ctx.violation(prefix + 'not-invertible', 'block %r built from column %r layer %r splits into %r / %r' % (b, cn, ln, gc, gl), c)
    ctx.count('blocks_inverted', len(names))


# -- fix / unfix / cycle ---------------------------------------------------------------

def printed_form(n):
    """Own (A3,I2) formatter: how the simulator prints a name it holds as a3 + i2."""
    tail = n[3:5]
    return '%3s%2d' % (n[0:3], int(tail))


def simulator_can_hold(n):
    return (n[3] in '0123456789 ') and (n[4] in '0123456789')


def check_name(ctx, mg, n, where):
    case = {'name': n}
    fix, unfix = mg.fix_blockname, mg.unfix_blockname
    with ctx.guard(case) as gd:
        f = fix(n)
        ff_ = fix(f)
        u = unfix(f)
        cyc = fix(unfix(n))
        cyc2 = fix(unfix(cyc))
    if gd.raised is not None:
        return
    ctx.evaluated()
    ctx.count('names_cycled')
    ctx.case(('name', n), nontrivial=(f != n or unfix(n) != n))
    if len(f) != 5 or len(u) != 5:
        ctx.violation('fix-unfix-length', 'fix(%r)=%r unfix=%r' % (n, f, u), case)
    if ff_ != f:
        ctx.violation('fix-not-idempotent', 'fix(fix(%r)) = %r != fix = %r' % (n, ff_, f), case)
    if cyc2 != cyc:
        ctx.violation('cycle-not-stable', 'write/read cycle of %r: %r then %r' % (n, cyc, cyc2), case)
    if simulator_can_hold(n):
        ctx.see('name_class', 'simulator-form')
        if u != printed_form(n):
            ctx.violation('unfix-not-printed-form', 'unfix(fix(%r)) = %r, simulator prints %r' % (n, u, printed_form(n)), case)
        # reading what the simulator prints gives the repaired name again
        if fix(printed_form(n)) != cyc:
            ctx.violation('read-of-printed-form', 'fix(printed %r) = %r != cycle %r' % (printed_form(n), fix(printed_form(n)), cyc), case)
    else:
        ctx.see('name_class', 'other')


def run_fixunfix(ctx, spec):
    mg = R.mulgrids
    contracts.install_name_contracts(R)
    alphabet = 'aZ07 -'
    for t in itertools.product(alphabet, repeat=5):
        check_name(ctx, mg, ''.join(t), 'class-complete')
    printable = ''.join(chr(c) for c in range(32, 127))
    n = 20000 if ctx.tier == 'quick' else 200000
    for i in range(n):
        r = ctx.rng.random()
        if r < 0.5:
            s = ''.join(ctx.rng.choice(printable) for _ in range(5))
        else:
            s = ''.join(ctx.rng.choice('abAB 0123456789 ') for _ in range(5))
        check_name(ctx, mg, s, 'random')
    # fix_block_mapping keeps a one-to-one map one-to-one
    for i in range(300 if ctx.tier == 'quick' else 3000):
        keys = set()
        while len(keys) < 6:
            keys.add(''.join(ctx.rng.choice('ab 0123456789') for _ in range(3)) + ctx.rng.choice(' 0123456789') + ctx.rng.choice('0123456789'))
        keys = sorted(keys)
        vals = list(keys)
        ctx.rng.shuffle(vals)
        bm = dict(zip(keys, vals))
        case = {'blockmap': dict(bm)}
        fixed_keys = set(mg.fix_blockname(k) for k in keys)
        with ctx.guard(case) as gd:
            mg.fix_block_mapping(bm)
        if gd.raised is not None:
            continue
        ctx.evaluated()
        if len(fixed_keys) == len(keys):
            exp = dict((mg.fix_blockname(k), mg.fix_blockname(v)) for k, v in zip(keys, vals))
            if bm != exp:
                ctx.violation('fix_block_mapping', 'fix_block_mapping gives %r, expected %r' % (bm, exp), case)
    ctx.count('icontract_fix_evaluations', contracts.REC.evaluations.get('fix_blockname', 0))
    ctx.count('icontract_unfix_evaluations', contracts.REC.evaluations.get('unfix_blockname', 0))
    for name, what, args in contracts.REC.broken[:5]:
        ctx.violation('contract:%s' % name, what, {'name': args[0]})


# -- operations that need NEW names on a finished geometry, up to and beyond the end of the name space ----------------

def split_cases(tier):
    cases = []
    for chars in ('bc', 'bcd', 'BCD', 'qz'):
        n = len(chars)
        for conv in range(4):
            length = [3, 2, 3, 3][conv]
            cap = letters_capacity(n, length, True)
            shapes = [(2, 2), (3, 3), (3, 4), (2, 5), (4, 4), (5, 5), (6, 6)] if tier != 'quick' else [(2, 2), (3, 3), (3, 4), (5, 5)]
            for (nx, ny) in shapes:
                if conv in (0, 3) and (nx + 1) * (ny + 1) > cap:
                    continue
                cases.append({'kind': 'split', 'chars': chars, 'convention': conv, 'nx': nx, 'ny': ny,
                              'case': 'u' if chars.isupper() else None})
    return cases


def run_split(ctx, spec):
    mg = R.mulgrids
    for c in spec['cases']:
        n, conv = len(c['chars']), c['convention']
        length = [3, 2, 3, 3][conv]
        cap = letters_capacity(n, length, True)
        try:
            geo = mg.mulgrid().rectangular([10.] * c['nx'], [10.] * c['ny'], [1.] * 2, convention=conv, chars=c['chars'], case=c['case'])
        except Exception as e:
            raise HarnessError('building %r failed: %r' % (c, e))
        ncols = c['nx'] * c['ny']
        # names of the convention's length over the character set that are still unused: rectangular() names columns with
        # these letters under conventions 0 and 3 (numbers 1..ncols) and with digits under 1 and 2
        free = cap - ncols if conv in (0, 3) else cap
        quads = [col.name for col in geo.columnlist]
        done = 0
        outcome = None
        for k, name in enumerate(quads):
            before = set(geo.column)
            with ctx.guard(c, where='split_column', expected=(mg.NamingConventionError,)) as gd:
                ok = geo.split_column(name, geo.column[name].node[0].name, chars=c['chars'])
            ctx.count('splits_attempted')
            if gd.raised is not None:
                if isinstance(gd.raised, mg.NamingConventionError):
                    outcome = 'naming-error'
                else:
                    outcome = 'other-error'
                break
            if done >= free:
                # no name is left: anything but the naming error is wrong (a quiet False, a made-up longer name, a reused one)
                newn = sorted(set(geo.column) - before)
                ctx.violation('no-naming-error:split_column', 'split number %d of column %r returned %r (new columns %r) with all %d names over %r of length %d in use' % (
                    k + 1, name, ok, newn, cap, c['chars'], length), c)
                outcome = 'violation'
                break
            if ok is not True:
                ctx.violation('split-refused-with-names-left', 'split number %d of quadrilateral column %r returned %r with %d of %d names free' % (k + 1, name, ok, free - done, cap), c)
                outcome = 'violation'
                break
            done += 1
            newn = sorted(set(geo.column) - before)
            if len(newn) != 1 or len(newn[0]) != length or any(ch not in c['chars'] + ' ' for ch in newn[0]):
                ctx.violation('split-new-name-malformed', 'split gave new column names %r (length %d, characters %r)' % (newn, length, c['chars']), c)
                outcome = 'violation'
                break
        ctx.evaluated()
        reach = free < len(quads)
        ctx.case(('split', repr(sorted(c.items()))), nontrivial=True, sample=reach)
        if outcome == 'naming-error':
            if done < free:
                ctx.violation('premature-naming-error:split_column', 'naming error after %d splits with %d names free' % (done, free - done), c)
            else:
                ctx.see('capacity_limit_crossed', 'split_column conv=%d' % conv)
                ctx.count('splits_refused_by_naming_error')
        elif outcome is None:
            ctx.see('split_outcome', 'all quadrilaterals split conv=%d' % conv)
            if len(set(geo.block_name_list)) != len(geo.block_name_list):
                ctx.violation('duplicate-block-name:after-split', 'duplicate block names after splitting', c)
        # refinement of the whole (fresh) geometry: needs a new node on every side and three more columns per column
        try:
            geo = mg.mulgrid().rectangular([10.] * c['nx'], [10.] * c['ny'], [1.] * 2, convention=conv, chars=c['chars'], case=c['case'])
        except Exception as e:
            raise HarnessError('building %r failed: %r' % (c, e))
        nx, ny = c['nx'], c['ny']
        nodes_after = (2 * nx + 1) * (2 * ny + 1)
        cols_after = 4 * ncols
        nodes_free = cap - (nx + 1) * (ny + 1) if conv in (0, 3) else cap
        new_nodes = nodes_after - (nx + 1) * (ny + 1)
        # (column names are taken while the old ones are still in use, so 4 per column must be free at some moment:
        #  judged only where the outcome does not depend on that order)
        surely_fails = new_nodes > nodes_free
        surely_fits = new_nodes <= nodes_free and cols_after + ncols <= (cap if conv in (0, 3) else cap)
        with ctx.guard(c, where='refine', expected=(mg.NamingConventionError,)) as gd:
            geo.refine(chars=c['chars'])
        ctx.count('refinements_attempted')
        # the same with new names that are filled up instead of padded with blanks (spaces=False): where it completes, the
        # names are of the convention's length, distinct, and the new ones hold no blank
        g2 = mg.mulgrid().rectangular([10.] * c['nx'], [10.] * c['ny'], [1.] * 2, convention=conv, chars=c['chars'], case=c['case'])
        old_names = set(x.name for x in g2.columnlist) | set(x.name for x in g2.nodelist)
        with ctx.guard(c, where='refine:spaces=False', expected=(mg.NamingConventionError,)) as gd2:
            g2.refine(chars=c['chars'], spaces=False)
        if gd2.raised is None:
            ctx.count('refinements_without_spaces')
            names2 = [x.name for x in g2.columnlist] + [x.name for x in g2.nodelist]
            fresh = [x for x in names2 if x not in old_names]
            if any(len(x) != length for x in names2) or len(set(x.name for x in g2.columnlist)) != g2.num_columns or len(set(x.name for x in g2.nodelist)) != g2.num_nodes or \
                    any(' ' in x for x in fresh) or len(set(g2.block_name_list)) != len(g2.block_name_list):
                ctx.violation('refine-names-malformed:spaces=False', 'after refine(spaces=False): names %r' % ([x for x in names2 if len(x) != length or (x in fresh and ' ' in x)][:4],), c)
        if gd.raised is None:
            if surely_fails:
                ctx.violation('no-naming-error:refine', 'refine() completed though %d new nodes were needed and %d names were free' % (new_nodes, nodes_free), c)
            else:
                ctx.see('refine_outcome', 'completed conv=%d' % conv)
                names = [col.name for col in geo.columnlist] + [nd.name for nd in geo.nodelist]
                if any(len(x) != length for x in names) or len(set(geo.column)) != geo.num_columns or geo.num_columns != cols_after or geo.num_nodes != nodes_after:
                    ctx.violation('refine-names-malformed', 'after refine(): %d columns (want %d), %d nodes (want %d), names not of length %d: %r' % (
                        geo.num_columns, cols_after, geo.num_nodes, nodes_after, length, [x for x in names if len(x) != length][:3]), c)
        elif isinstance(gd.raised, mg.NamingConventionError):
            if surely_fits:
                ctx.violation('premature-naming-error:refine', 'refine() raised %s with %d names, %d nodes and %d columns needed' % (gd.raised, cap, nodes_after, cols_after), c)
            else:
                ctx.see('capacity_limit_crossed', 'refine conv=%d' % conv)
                ctx.count('refinements_refused_by_naming_error')


def file_names_roundtrip(ctx, geo, c, tag):
    """Names of nodes, columns and blocks after a write / read of the geometry, and after a read of the same file with the
    names re-spelt at the right of their fields."""
    mg = R.mulgrids
    fn = os.path.join(ctx.tmp, 'c17_d.dat')
    with ctx.guard(c, where='file-round-trip:' + tag) as g2:
        geo.write(fn)
        back = mg.mulgrid(fn)
    if g2.raised is not None:
        return
    ctx.count('geometries_reread_from_file')

    def same(a, b):
        return list(a.block_name_list) == list(b.block_name_list) and [x.name for x in a.columnlist] == [x.name for x in b.columnlist] and \
            [x.name for x in a.nodelist] == [x.name for x in b.nodelist]
    if not same(geo, back):
        ctx.violation('names-change-in-file-round-trip:' + tag, '%d columns, %d nodes, %d blocks written; %d, %d, %d read back; first column names %r vs %r' % (
            geo.num_columns, geo.num_nodes, len(geo.block_name_list), back.num_columns, back.num_nodes, len(back.block_name_list),
            [x.name for x in geo.columnlist][-4:], [x.name for x in back.columnlist][-4:]), c)
        return
    with open(fn) as fh:
        lines = fh.read().split('\n')
    sec, out = None, []
    for k, l in enumerate(lines):
        if k == 0 or sec is None or not l.strip():
            if k and sec is None:
                sec = l[:5].upper() if l.strip() else None
            elif not l.strip():
                sec = None
            out.append(l)
            continue
        if sec in ('VERTI', 'GRID', 'GRID ', 'LAYER', 'SURFA'):
            l = l[:3].strip().rjust(3) + l[3:]
        elif sec == 'CONNE':
            l = l[:3].strip().rjust(3) + l[3:6].strip().rjust(3) + l[6:]
        out.append(l)
    with open(fn, 'w') as fh:
        fh.write('\n'.join(out))
    with ctx.guard(c, where='file-right-aligned-names:' + tag) as g3:
        back2 = mg.mulgrid(fn)
    if g3.raised is None:
        ctx.count('geometries_reread_with_right_aligned_names')
        if not same(geo, back2):
            ctx.violation('names-change-with-alignment-in-file:' + tag, 'names right-aligned in their file fields read back differently (%d vs %d columns, %d vs %d blocks)' % (
                geo.num_columns, back2.num_columns, len(geo.block_name_list), len(back2.block_name_list)), c)


def left_justified_roundtrip(ctx, geo, c, tag):
    """A geometry whose names are written at the left of their fields reads back with them at the right (the documented
    form a write / read cycle reaches): nothing else changes - as many columns, nodes and blocks as were written, under the
    same names apart from where the blanks are."""
    mg = R.mulgrids
    fn = os.path.join(ctx.tmp, 'c17_l.dat')
    with ctx.guard(c, where='file-round-trip:' + tag) as g2:
        geo.write(fn)
        back = mg.mulgrid(fn)
    if g2.raised is not None:
        return
    ctx.count('left_justified_geometries_reread_from_file')
    for kind, a, b in (('column', geo.columnlist, back.columnlist), ('node', geo.nodelist, back.nodelist)):
        na, nb = [x.name.strip() for x in a], [x.name.strip() for x in b]
        if na != nb:
            lost = [x for x in na if na.count(x) > 1][:4]
            ctx.violation('left-justified:names-merge-in-file-round-trip:%s:%s' % (kind, tag), '%d %ss written, %d read back; names that differ only in where their blanks are: %r' % (
                len(na), kind, len(nb), sorted(set(lost))), c)
            return
    if [n.replace(' ', '') for n in geo.block_name_list] != [n.replace(' ', '') for n in back.block_name_list]:
        ctx.violation('left-justified:block-names-change-in-file-round-trip:' + tag, '%d blocks written, %d read back' % (len(geo.block_name_list), len(back.block_name_list)), c)


def check_names_invert(ctx, geo, c, prefix):
    """For geometries with surfaces (not every column has a block in every layer): every block name is five characters,
    distinct, and splits into a layer and a column of the geometry that give the same name back."""
    names = list(geo.block_name_list)
    if len(set(names)) != len(names) or any(not isinstance(n, str) or len(n) != 5 for n in names):
        ctx.violation(prefix + 'duplicate-or-malformed-block-names', '%d block names, %d distinct; not 5 characters: %r' % (
            len(names), len(set(names)), [n for n in names if not isinstance(n, str) or len(n) != 5][:3]), c)
        return
    natm = [1, geo.num_columns, 0][geo.atmosphere_type]
    bad = 0
    for k, b in enumerate(names):
        ln, cn = geo.layer_name(b), geo.column_name(b)
        single_atm = geo.atmosphere_type == 0 and k == 0
        ok = ln in geo.layer and (single_atm or cn in geo.column) and (single_atm or geo.block_name(ln, cn) == b)
        if k < natm and ln != geo.layerlist[0].name[:len(ln)] and ln != geo.layerlist[0].name:
            ok = False
        if not ok:
            bad += 1
            if bad == 1:
                ctx.violation(prefix + 'not-invertible', 'block %r splits into layer %r / column %r (layer known: %s, column known: %s)' % (
                    b, ln, cn, ln in geo.layer, cn in geo.column), c)
    ctx.count('blocks_inverted', len(names))


def run_derived(ctx, spec):
    """Geometries whose newest names were invented by the editing methods (decompose / triangulate / split / refine): the
    same demands as on a freshly built one, in memory and through a file."""
    from vf.gen import geoops
    mg = R.mulgrids
    cases = []
    for base in ('mixed-pentagon', 'mixed-hexagon'):
        for atm in (0, 1, 2):
            cases.append(('base', base, 0, atm, 'decompose'))
            cases.append(('base', base, 0, atm, 'triangulate-polygon'))
    for conv in range(4):
        for op in ('triangulate', 'split', 'refine', 'refine-bisect'):
            cases.append(('rect', (3, 3, 3), conv, conv % 3, op))
    # names written at the left of their fields (justify='l'), then edited: the invented names must not be names the
    # geometry already has once the blanks have moved
    for conv in range(4):
        for op in ('triangulate', 'split', 'refine', 'refine_layers'):
            cases.append(('rect-left', (6, 6, 3), conv, (conv + 1) % 3, op))
    # geometries as they come from files, whose layers and columns are called whatever their author liked ('01', 'AA',
    # 'GS'): every block name still splits into the column and the layer it was built from
    from vf.gen import geos
    for name in geos.SHIPPED:
        c = {'kind': 'derived', 'from': name, 'operation': 'shipped'}
        with ctx.guard(c, where='load-shipped') as g:
            geo = geos.load_shipped(name)
        if g.raised is not None:
            continue
        ctx.evaluated()
        ctx.count('derived_geometries_checked')
        ctx.see('derived_by', 'shipped')
        ctx.case(('shipped', name), nontrivial=True)
        check_names_invert(ctx, geo, c, 'shipped[%s]:' % name)
    # ... and layers renamed by the user to two-digit names with a leading zero, under convention 0
    for atm in (0, 1, 2):
        c = {'kind': 'derived', 'from': (3, 2, 12), 'convention': 0, 'atmos_type': atm, 'operation': 'rename_layer'}
        geo = mg.mulgrid().rectangular([10.] * 3, [12.] * 2, [2.] * 12, convention=0, atmos_type=atm)
        with ctx.guard(c, where='rename_layer') as g:
            for k, lay in enumerate(list(geo.layerlist[1:])):
                geo.rename_layer(lay.name, '%02d' % (k + 1))
        if g.raised is None:
            ctx.evaluated()
            ctx.count('derived_geometries_checked')
            ctx.see('derived_by', 'rename_layer')
            check_geometry_names(ctx, geo, c, prefix='renamed-layers:')
            file_names_roundtrip(ctx, geo, c, 'rename_layer')
    # the layer stack built directly (add_layers() is what every constructor ends in, and from_amesh() / from_layermesh()
    # hand it the caller's character set as given): a set that repeats a letter still gives distinct names
    for conv in range(4):
        for chars in ('aabc', 'abca', 'abcdefghijklmnopqrstuvwxyzaeiou', 'xyzzy'):
            for n in (3, 7, 30):
                for justify, spaces in (('r', True), ('l', False)):
                    c = {'kind': 'derived', 'operation': 'add_layers', 'convention': conv, 'chars': chars, 'layers': n, 'justify': justify, 'spaces': spaces}
                    geo = mg.mulgrid(convention=conv, atmos_type=2)
                    with ctx.guard(c, where='add_layers', expected=(mg.NamingConventionError,)) as g:
                        geo.add_layers([2.0] * n, 10.0, justify, chars, spaces)
                    ctx.evaluated()
                    ctx.count('layer_stacks_built_directly')
                    nuniq = len(set(chars))
                    length, cap = capacity('layer', conv, nuniq, spaces)
                    # (the surface layer's own name is skipped by the generator: one number more may be needed)
                    if g.raised is not None:
                        if isinstance(g.raised, mg.NamingConventionError) and n + 1 <= cap:
                            ctx.violation('premature-naming-error:add_layers', 'add_layers() raised %s for %d layers, %d names fit' % (g.raised, n, cap), c)
                        continue
                    names = [l.name for l in geo.layerlist]
                    if len(names) != n + 1 or len(set(names)) != len(names) or any(len(x) != length for x in names[1:]):
                        ctx.violation('add_layers:names', '%d thicknesses gave layers %r' % (n, names[:8]), c)
    for kind, what, conv, atm, op in cases:
        c = {'kind': 'derived', 'from': what, 'convention': conv, 'atmos_type': atm, 'operation': op}
        try:
            if kind == 'base':
                geo = geoops.base(what, atmos_type=atm, convention=conv, surfaces=False)
            elif kind == 'rect-left':
                geo = mg.mulgrid().rectangular([10.] * what[0], [12.] * what[1], [2.] * what[2], convention=conv, atmos_type=atm, justify='l')
            else:
                geo = mg.mulgrid().rectangular([10.] * what[0], [12.] * what[1], [2.] * what[2], convention=conv, atmos_type=atm)
        except Exception as e:
            raise HarnessError('building %r failed: %r' % (c, e))
        with ctx.guard(c, where='derive:' + op) as g:
            if op == 'decompose':
                geo.decompose_columns([col for col in geo.columnlist if col.num_nodes > 4])
            elif op == 'triangulate-polygon':
                geo.triangulate_column([col for col in geo.columnlist if col.num_nodes > 4][0].name)
                geoops.careful_refresh(geo)
            elif op == 'triangulate':
                geo.triangulate_column(geo.columnlist[4].name)
                geoops.careful_refresh(geo)
            elif op == 'split':
                col = geo.columnlist[4]
                geo.split_column(col.name, col.node[0].name)
            elif op == 'refine':
                geo.refine([geo.columnlist[4]])
            elif op == 'refine_layers':
                geo.refine_layers([geo.layerlist[1]], factor=3)
            else:
                geo.refine([geo.columnlist[4], geo.columnlist[5]], bisect=True)
        if g.raised is not None:
            continue
        ctx.evaluated()
        ctx.count('derived_geometries_checked')
        ctx.see('derived_by', op)
        ctx.case(('derived', repr(sorted(c.items()))), nontrivial=True)
        check_geometry_names(ctx, geo, c, prefix='derived[%s]:' % op)
        if kind == 'rect-left':
            left_justified_roundtrip(ctx, geo, c, op)
        else:
            file_names_roundtrip(ctx, geo, c, op)


def run_shard(ctx, spec):
    {'names': run_names, 'rect': run_rect, 'fixunfix': run_fixunfix, 'split': run_split, 'derived': run_derived}[spec['kind']](ctx, spec)


def replay(ctx, case):
    mg = R.mulgrids
    if 'name' in case:
        check_name(ctx, mg, case['name'], 'replay')
    elif case.get('kind') == 'split':
        run_split(ctx, {'cases': [case]})
    elif case.get('kind') == 'derived':
        run_derived(ctx, {})
    elif 'nx' in case:
        run_rect(ctx, {'cases': [case]})
    elif 'function' in case and case['function'].endswith('_from_number'):
        ctx.tier = 'thorough'
        inv = {v: k for k, v in CHARSETS.items()}
        run_names(ctx, {'configs': [(case['convention'], case['justify'], case['chars'], case['spaces'])]})
    else:
        raise HarnessError('cannot replay %r' % (case,))
