"""C14 -- IAPWS-97 thermodynamic consistency.

Monitor shape: identities evaluated on *returned* values (no coefficient is read):
inverse pairs, single-potential identities by central differences, monotonicity,
positivity, jumps across region boundaries (IF97 consistency tolerances),
Clausius-Clapeyron across saturation, region classifier against an own
transcription of the region definition; every answer compared with that of a
pristine copy of the module after call sequences whose reduced variables collide
(history independence, seed C14-20).
"""
import math

import numpy as np

from vf.core import HarnessError
from vf.repo import R

INFO = {
    'rule': ('cases = thermodynamic states: saturation temperatures over the closed interval incl. both end points; '
             'B23 temperatures 350..590 degC; (T, log p) grids plus random states in regions 1, 2 and (rho, T) in '
             'region 3 up to their boundaries; straddling pairs on every region boundary. Distinct = distinct '
             '(clause, state); non-trivial = every state at which a two-sided identity or inverse was evaluated '
             '(all cases are).'),
    'require': {
        'quick': {'counters': {'sat_inverse': 1000, 'b23_inverse': 200, 'identity_r1': 500, 'identity_r2': 500,
                               'identity_r3': 500, 'monotone_density': 500, 'viscosity': 1000, 'boundary_13': 20,
                               'boundary_23': 20, 'clausius_clapeyron': 100, 'region_classified': 2000, 'region_end_points': 100, 'history_independent': 100},
                  'nontrivial': 3000},
        'thorough': {'counters': {'sat_inverse': 4000, 'b23_inverse': 1000, 'identity_r1': 3000, 'identity_r2': 3000,
                                  'identity_r3': 3000, 'monotone_density': 3000, 'viscosity': 8000, 'boundary_13': 100,
                                  'boundary_23': 100, 'clausius_clapeyron': 400, 'region_classified': 20000, 'region_end_points': 100, 'history_independent': 800},
                     'nontrivial': 20000},
    },
    'watchdog_s': {'quick': 900, 'thorough': 3600},
    'assumptions': ['central differences with relative step 1e-5..1e-4 resolve the identities to 1e-6 or better '
                    '(largest residual observed is printed in the evidence)',
                    'IF97 release consistency tolerances: dv/v <= 0.05 %, dh <= 0.2 kJ/kg on the 1-3 and 2-3 boundaries'],
}

TK = 273.15
TCRIT = 647.096 - TK
PCRIT = 22.064e6


def plan(tier, seed):
    if tier == 'quick':
        return [{'part': 'inverse', 'f': 4}, {'part': 'identities', 'f': 4, 'which': [1, 2, 3]},
                {'part': 'boundaries', 'f': 4}, {'part': 'regions', 'f': 4}]
    return [{'part': 'inverse', 'f': 1}, {'part': 'identities', 'f': 1, 'which': [1]}, {'part': 'identities', 'f': 1, 'which': [2]},
            {'part': 'identities', 'f': 1, 'which': [3]}, {'part': 'boundaries', 'f': 1}, {'part': 'regions', 'f': 1}]


# -- own transcription of the IF97 region definition (release, Fig. 1) ------------------------

def b23_pressure(tk):
    # IAPWS-IF97 eq. (5): pi = n1 + n2*theta + n3*theta^2 ; published coefficients
    n1, n2, n3 = 0.34805185628969e3, -0.11671859879975e1, 0.10192970039326e-2
    return 1.e6 * (n1 + n2 * tk + n3 * tk * tk)


def own_region(t, p, psat):
    """Region of (t degC, p Pa) by the release's definition; `psat` is the
    library's own saturation pressure (the boundary *is* that curve)."""
    tk = t + TK
    # the range is stated in degC (0.01 + 273.15 is 273.15999999999997 in binary: a test in kelvin would
    # exclude the triple-point temperature itself)
    if not (0.01 <= t <= 800.0 and 0 <= p <= 100e6):
        return None
    if tk <= 623.15:
        return 1 if p > psat else 2
    if tk <= 863.15:
        return 3 if p > b23_pressure(tk) else 2
    return 2


def lin(a, b, n):
    return [a + (b - a) * i / float(n - 1) for i in range(n)]


def run_inverse(ctx, spec):
    W = R.IAPWS97
    n = 4000 // spec['f']
    ts = lin(0.01, TCRIT, n) + [0.01, TCRIT, 100.0, 350.0] + [ctx.rng.uniform(0.01, TCRIT) for _ in range(n // 4)]
    for t in ts:
        case = {'clause': 'tsat(sat(t))', 't': t}
        with ctx.guard(case) as g:
            p = W.sat(t)
            t2 = W.tsat(p) if p is not None else None
        if g.raised is not None:
            continue
        ctx.evaluated()
        ctx.count('sat_inverse')
        ctx.case(('sat', t), True)
        where = 'end-point:tcritical' if t == TCRIT else ('end-point:triple' if t == 0.01 else 'interior')
        if p is None or t2 is None:
            ctx.violation('tsat-of-sat:no-value:%s' % where, 'sat(%r)=%r tsat(.)=%r' % (t, p, t2), case)
            continue
        ctx.maximum('tsat(sat(t))-t [K]', abs(t2 - t), case)
        if abs(t2 - t) > 1e-7:
            ctx.violation('tsat-of-sat:%s' % where, 'tsat(sat(%r)) = %r (diff %.3g K)' % (t, t2, t2 - t), case)
    # other direction
    ps = [min(PCRIT, max(611.657, math.exp(x))) for x in lin(math.log(611.657), math.log(PCRIT), n)] + [PCRIT, 611.657, 1e5, 1e6, 1e7]
    for p in ps:
        case = {'clause': 'sat(tsat(p))', 'p': p}
        with ctx.guard(case) as g:
            t = W.tsat(p)
            p2 = W.sat(t) if t is not None else None
        if g.raised is not None:
            continue
        ctx.evaluated()
        ctx.count('sat_inverse')
        ctx.case(('tsat', p), True)
        where = 'end-point:pcritical' if p == PCRIT else 'interior'
        if t is None or p2 is None:
            ctx.violation('sat-of-tsat:no-value:%s' % where, 'tsat(%r)=%r sat(.)=%r' % (p, t, p2), case)
            continue
        ctx.maximum('|sat(tsat(p))/p-1|', abs(p2 / p - 1), case)
        if abs(p2 / p - 1) > 1e-8:
            ctx.violation('sat-of-tsat:%s' % where, 'sat(tsat(%r)) = %r' % (p, p2), case)
    # both functions against an own 60-digit evaluation of the release's equations (vf/oracle/iapws_sat_ref.py, checked
    # against the release's verification values first), on a grid and - densely - around the two states inside the range
    # where the leading coefficient of the quadratic each of them solves passes through zero (a root formula that is
    # not written for that case loses all its digits there, and only there)
    from vf.oracle import iapws_sat_ref as SR
    bad = SR.selfcheck()
    if bad:
        raise HarnessError('own saturation-line reference fails the verification values of the release: %r' % (bad,))
    t0, p0 = SR.degenerate_temperature_c(), SR.degenerate_pressure_pa()

    def around(x0, rel):
        out, up, dn = [x0], x0, x0
        for _ in range(40):
            up, dn = math.nextafter(up, math.inf), math.nextafter(dn, -math.inf)
            out += [up, dn]
        for j in range(2, 15):
            d = (abs(x0) if rel else 1.0) * 10.0 ** -j
            out += [x0 + d, x0 - d, x0 + 3.7 * d, x0 - 3.7 * d]
        return out
    for t in lin(0.01, TCRIT, n // 8) + around(t0, False) + [ctx.rng.uniform(0.01, TCRIT) for _ in range(n // 8)]:
        case = {'clause': 'sat(t) against the release equation', 't': t}
        with ctx.guard(case) as g:
            p = W.sat(t)
        if g.raised is not None:
            continue
        ctx.evaluated()
        ctx.count('saturation_reference_comparisons')
        near = abs(t - t0) < 1e-2
        ctx.see('reference_probe', 'sat near degenerate point' if near else 'sat elsewhere')
        ref = float(SR.sat_pa(t))
        if p is None or not (p == p) or abs(p / ref - 1) > 1e-11:
            ctx.violation('sat-differs-from-release-equation:%s' % ('degenerate-point' if near else 'interior'),
                          'sat(%r) = %r, equation 30 gives %r (relative difference %.3g)' % (t, p, ref, (p / ref - 1) if p else float('nan')), case)
    for p in [min(PCRIT, max(611.657, math.exp(x))) for x in lin(math.log(611.657), math.log(PCRIT), n // 8)] + around(p0, True):
        case = {'clause': 'tsat(p) against the release equation', 'p': p}
        with ctx.guard(case) as g:
            t = W.tsat(p)
        if g.raised is not None:
            continue
        ctx.evaluated()
        ctx.count('saturation_reference_comparisons')
        near = abs(p / p0 - 1) < 1e-4
        ctx.see('reference_probe', 'tsat near degenerate point' if near else 'tsat elsewhere')
        ref = float(SR.tsat_c(p))
        if t is None or not (t == t) or abs(t - ref) > 1e-8:
            ctx.violation('tsat-differs-from-release-equation:%s' % ('degenerate-point' if near else 'interior'),
                          'tsat(%r) = %r, equation 31 gives %r (difference %.3g K)' % (p, t, ref, (t - ref) if t is not None else float('nan')), case)
    # saturation pressure strictly increasing
    prev = None
    for t in lin(0.01, TCRIT, n):
        p = W.sat(t)
        if prev is not None and not p > prev[1]:
            ctx.violation('sat-not-increasing', 'sat(%r)=%r <= sat(%r)=%r' % (t, p, prev[0], prev[1]), {'clause': 'sat monotone', 't': t})
        prev = (t, p)
        ctx.evaluated()
    # B23
    m = 1000 // spec['f']
    for t in lin(350.0, 590.0, m) + [ctx.rng.uniform(350, 590) for _ in range(m // 4)]:
        case = {'clause': 'b23t(b23p(t))', 't': t}
        with ctx.guard(case) as g:
            p = W.b23p(t)
            t2 = W.b23t(p) if p is not None else None
        if g.raised is not None:
            continue
        ctx.evaluated()
        ctx.count('b23_inverse')
        ctx.case(('b23', t), True)
        if p is None or t2 is None:
            ctx.violation('b23-inverse:no-value', 'b23p(%r)=%r b23t(.)=%r' % (t, p, t2), case)
            continue
        ctx.maximum('b23t(b23p(t))-t [K]', abs(t2 - t), case)
        if abs(t2 - t) > 1e-6:
            ctx.violation('b23-inverse', 'b23t(b23p(%r)) = %r' % (t, t2), case)
        if abs(p / b23_pressure(t + TK) - 1) > 1e-9:
            ctx.violation('b23p-vs-release', 'b23p(%r) = %r, release equation gives %r' % (t, p, b23_pressure(t + TK)), case)
    # the boundary functions are also evaluated elementwise on arrays: the same numbers as the scalar calls, and the
    # caller's argument must come back untouched (second call on the same array = first call)
    import numpy as np
    ts = np.array(lin(350.0, 590.0, 25))
    for make, label in ((lambda: ts.copy(), 'array'), (lambda: np.array(450.0), '0-d array'), (lambda: np.float64(450.0), 'numpy scalar')):
        arg = make()
        keep = np.array(arg, copy=True)
        case = {'clause': 'b23p on ' + label}
        with ctx.guard(case) as g:
            first = np.array(W.b23p(arg), dtype=float)
            second = np.array(W.b23p(arg), dtype=float)
            scalar = np.array([W.b23p(float(x)) for x in np.atleast_1d(keep)])
        if g.raised is not None:
            continue
        ctx.evaluated()
        ctx.count('array_argument_calls')
        ctx.case(('b23p-array', label), True)
        if not np.array_equal(np.array(arg), keep):
            ctx.violation('b23p:argument-modified', 'b23p changed its %s argument in place (first element %r -> %r)' % (
                label, float(np.atleast_1d(keep)[0]), float(np.atleast_1d(np.array(arg))[0])), case)
        elif not np.array_equal(np.atleast_1d(first), np.atleast_1d(second)) or not np.allclose(np.atleast_1d(first), scalar, rtol=1e-14, atol=0):
            ctx.violation('b23p:array-differs-from-scalar', 'b23p on a %s: %r, then %r; scalar calls give %r' % (
                label, np.atleast_1d(first)[:2], np.atleast_1d(second)[:2], scalar[:2]), case)
    for p in [W.b23p(350.0), 100e6] + lin(16.5292e6, 100e6, m):
        case = {'clause': 'b23p(b23t(p))', 'p': p}
        with ctx.guard(case) as g:
            t = W.b23t(p)
            p2 = W.b23p(t) if t is not None else None
        if g.raised is not None:
            continue
        ctx.evaluated()
        ctx.count('b23_inverse')
        ctx.case(('b23p', p), True)
        if t is None or p2 is None:
            ctx.violation('b23-inverse:no-value', 'b23t(%r)=%r b23p(.)=%r' % (p, t, p2), case)
            continue
        if abs(p2 / p - 1) > 1e-8:
            ctx.violation('b23-inverse', 'b23p(b23t(%r)) = %r' % (p, p2), case)


# -- identities -------------------------------------------------------------------------------

def ident_pt(ctx, f, t, p, name, region_tag):
    """(du/dp)_T = -T (dv/dT)_p - p (dv/dp)_T from returned (d, u)."""
    tk = t + TK
    hp = max(p * 2e-4, 1.0)
    ht = 2e-3
    vals = {}
    for key, (tt, pp) in {'0': (t, p), 'p+': (t, p + hp), 'p-': (t, p - hp), 't+': (t + ht, p), 't-': (t - ht, p)}.items():
        r = f(tt, pp)
        if r is None:
            return None
        vals[key] = (1.0 / r[0], r[1])
    dudp = (vals['p+'][1] - vals['p-'][1]) / (2 * hp)
    dvdp = (vals['p+'][0] - vals['p-'][0]) / (2 * hp)
    dvdt = (vals['t+'][0] - vals['t-'][0]) / (2 * ht)
    rhs = -tk * dvdt - p * dvdp
    scale = abs(tk * dvdt) + abs(p * dvdp) + 1e-30
    # rounding of the returned u (relative 2^-52, amplified by cancellation inside the formulation: factor 64
    # covers what was observed) limits how well du/dp can be resolved when it is tiny (near the density
    # maximum at low pressure); that share of the residual is not charged to the formulation
    noise = 64 * 2.3e-16 * abs(vals['0'][1]) / hp
    return max(0.0, abs(dudp - rhs) - noise) / scale, dvdp


def states_r1(ctx, W, n):
    out = []
    k = int(math.sqrt(n))
    for t in lin(0.5, 349.5, k):
        ps = W.sat(t)
        for x in lin(0.0, 1.0, k):
            p = math.exp(math.log(ps * 1.02) + x * (math.log(99e6) - math.log(ps * 1.02)))
            out.append((t, p))
    for _ in range(n // 3):
        t = ctx.rng.uniform(0.5, 349.5)
        ps = W.sat(t)
        out.append((t, math.exp(ctx.rng.uniform(math.log(ps * 1.02), math.log(99e6)))))
    return out


def states_r2(ctx, W, n):
    out = []
    k = int(math.sqrt(n))

    def pmax(t):
        if t <= 350.0:
            return W.sat(t) * 0.98
        if t <= 590.0:
            return b23_pressure(t + TK) * 0.98
        return 99e6
    for t in lin(0.5, 799.0, k):
        for x in lin(0.0, 1.0, k):
            out.append((t, math.exp(math.log(500.0) + x * (math.log(pmax(t)) - math.log(500.0)))))
    for _ in range(n // 3):
        t = ctx.rng.uniform(0.5, 799.0)
        out.append((t, math.exp(ctx.rng.uniform(math.log(500.0), math.log(pmax(t))))))
    return [(t, p) for t, p in out if p > 400.0]


def run_identities(ctx, spec):
    W = R.IAPWS97
    n = 3600 // spec['f']
    if 1 in spec['which']:
        for t, p in states_r1(ctx, W, n):
            case = {'clause': 'identity region 1', 't': t, 'p': p}
            with ctx.guard(case) as g:
                r = ident_pt(ctx, W.cowat, t, p, 'cowat', 1)
            if g.raised is not None or r is None:
                continue
            ctx.evaluated()
            ctx.count('identity_r1')
            ctx.case(('i1', t, p), True)
            ctx.maximum('identity residual region 1', r[0], case)
            if r[0] > 1e-4:
                ctx.violation('identity:region1', 'single-potential identity residual %.3g at t=%r p=%r' % (r[0], t, p), case)
            ctx.count('monotone_density')
            if not r[1] < 0:
                ctx.violation('density-not-increasing-in-p:region1', '(dv/dp)_T = %r at t=%r p=%r' % (r[1], t, p), case)
            check_visc(ctx, W, W.cowat(t, p)[0], t, 'region1')
    if 2 in spec['which']:
        for t, p in states_r2(ctx, W, n):
            case = {'clause': 'identity region 2', 't': t, 'p': p}
            with ctx.guard(case) as g:
                r = ident_pt(ctx, W.supst, t, p, 'supst', 2)
            if g.raised is not None or r is None:
                continue
            ctx.evaluated()
            ctx.count('identity_r2')
            ctx.case(('i2', t, p), True)
            ctx.maximum('identity residual region 2', r[0], case)
            if r[0] > 1e-4:
                ctx.violation('identity:region2', 'single-potential identity residual %.3g at t=%r p=%r' % (r[0], t, p), case)
            ctx.count('monotone_density')
            if not r[1] < 0:
                ctx.violation('density-not-increasing-in-p:region2', '(dv/dp)_T = %r at t=%r p=%r' % (r[1], t, p), case)
            check_visc(ctx, W, W.supst(t, p)[0], t, 'region2')
    if 3 in spec['which']:
        # region 3 proper: 350 < t < 590 degC, B23 pressure < p <= 100 MPa.  States are
        # generated in (t, p) and the density is found on the physical branch by a
        # scan + bisection on the returned pressure (vapour-like branch upward from the
        # region-2 density on B23, liquid-like branch downward from a dense start).
        k = int(math.sqrt(n))
        sts = []
        for t in lin(350.5, 589.5, k):
            pb = b23_pressure(t + TK) * 1.01
            for x in lin(0.0, 1.0, k):
                sts.append((t, math.exp(math.log(pb) + x * (math.log(99e6) - math.log(pb)))))
        for _ in range(n // 3):
            t = ctx.rng.uniform(350.5, 589.5)
            pb = b23_pressure(t + TK) * 1.01
            sts.append((t, math.exp(ctx.rng.uniform(math.log(pb), math.log(99e6)))))
        for t, p in sts:
            tk = t + TK
            case = {'clause': 'identity region 3', 't': t, 'p': p}
            if t < TCRIT and abs(p / W.sat(t) - 1) < 0.01:
                ctx.count('r3_states_skipped_at_saturation')
                continue
            with ctx.guard(case) as g:
                d = region3_density(W, t, p)
                if d is None:
                    raise HarnessError('no region-3 density for t=%r p=%r' % (t, p))
                case['d'] = d
                p0, u0 = W.super(d, t)
                hd, ht = d * 1e-4, 2e-3
                pa, ua = W.super(d + hd, t)
                pb_, ub = W.super(d - hd, t)
                pc, uc = W.super(d, t + ht)
                pd_, ud = W.super(d, t - ht)
            if g.raised is not None:
                continue
            ctx.evaluated()
            ctx.count('identity_r3')
            ctx.case(('i3', t, p), True)
            dudd = (ua - ub) / (2 * hd)
            dpdt = (pc - pd_) / (2 * ht)
            dpdd = (pa - pb_) / (2 * hd)
            rhs = (p0 - tk * dpdt) / (d * d)
            res = abs(dudd - rhs) / (abs(p0 / d / d) + abs(tk * dpdt / d / d))
            ctx.maximum('identity residual region 3', res, case)
            if res > 1e-4:
                ctx.violation('identity:region3', 'single-potential identity residual %.3g at d=%r t=%r' % (res, d, t), case)
            ctx.count('monotone_density')
            if not dpdd > 0:
                ctx.violation('density-not-increasing-in-p:region3', '(dp/drho)_T = %r at d=%r t=%r p=%r' % (dpdd, d, t, p0), case)
            check_visc(ctx, W, d, t, 'region3')


def region3_density(W, t, p):
    """Density of the single-phase region-3 state (t, p) from super() alone."""
    liquid_like = (t < TCRIT and p > W.sat(t))
    if liquid_like:
        hi = W.cowat(350.0, p)[0] * 1.01     # denser than any region-3 liquid at this pressure
        step = -2.0
    else:
        hi = W.supst(t, b23_pressure(t + TK))[0] * 0.98
        step = max(hi * 0.02, 1.0)
    a = hi
    fa = W.super(a, t)[0] - p
    for _ in range(400):
        b = a + step
        if b <= 5.0 or b > 1100.0:
            return None
        fb = W.super(b, t)[0] - p
        if fa * fb <= 0:
            lo_, hi_ = (a, b) if a < b else (b, a)
            flo = W.super(lo_, t)[0] - p
            for _ in range(100):
                mid = 0.5 * (lo_ + hi_)
                fm = W.super(mid, t)[0] - p
                if fm * flo <= 0:
                    hi_ = mid
                else:
                    lo_, flo = mid, fm
            return 0.5 * (lo_ + hi_)
        a, fa = b, fb
    return None


VISC_SEEN = []


def check_visc(ctx, W, d, t, where):
    case = {'clause': 'viscosity positive', 'd': d, 't': t}
    with ctx.guard(case) as g:
        mu = W.visc(d, t)
    if g.raised is not None:
        return
    ctx.evaluated()
    ctx.count('viscosity')
    if not (mu > 0 and mu < 1e-1 and mu == mu):
        ctx.violation('viscosity-not-positive:%s' % where, 'visc(%r, %r) = %r' % (d, t, mu), case)
    # the value is the viscosity OF that state: asked again later (the very first call of the process included), the
    # answer is the same
    VISC_SEEN.append((d, t, mu))
    k = len(VISC_SEEN)
    if k in (2, 50) or k % 400 == 0:
        for d0, t0, mu0 in (VISC_SEEN[0], VISC_SEEN[k // 2]):
            with ctx.guard(case) as g:
                again = W.visc(d0, t0)
            if g.raised is None:
                ctx.count('viscosity_asked_again')
                if not (again == mu0):
                    ctx.violation('viscosity-not-a-function-of-state', 'visc(%r, %r) gave %r, asked again after %d other calls it gives %r' % (d0, t0, mu0, k, again),
                                  {'clause': 'viscosity positive', 'd': d0, 't': t0})


# -- boundaries -------------------------------------------------------------------------------

def solve_density(W, t, p, lo, hi):
    """super(rho, t).p = p by bisection on [lo, hi] (p increasing in rho there)."""
    flo = W.super(lo, t)[0] - p
    fhi = W.super(hi, t)[0] - p
    if flo * fhi > 0:
        return None
    for _ in range(200):
        mid = 0.5 * (lo + hi)
        fm = W.super(mid, t)[0] - p
        if fm * flo <= 0:
            hi = mid
        else:
            lo, flo = mid, fm
        if hi - lo < 1e-12 * hi:
            break
    return 0.5 * (lo + hi)


def run_boundaries(ctx, spec):
    W = R.IAPWS97
    n = 200 // spec['f']
    # 1 <-> 3 at 350 degC, from just above saturation to 100 MPa
    t = 350.0
    ps = W.sat(t)
    for p in lin(ps * 1.001, 100e6, n):
        case = {'clause': 'boundary 1-3', 't': t, 'p': p}
        with ctx.guard(case) as g:
            d1, u1 = W.cowat(t, p)
            d3 = solve_density(W, t, p, d1 * 0.9, d1 * 1.1)
            if d3 is None:
                raise HarnessError('no region-3 density bracket at 350 degC p=%r' % p)
            p3, u3 = W.super(d3, t)
        if g.raised is not None:
            continue
        ctx.evaluated()
        ctx.count('boundary_13')
        ctx.case(('b13', p), True)
        dv = abs(d1 / d3 - 1)
        dh = abs((u1 + p / d1) - (u3 + p3 / d3))
        ctx.maximum('1-3 boundary dv/v', dv, case)
        ctx.maximum('1-3 boundary dh [J/kg]', dh, case)
        if dv > 5e-4:
            ctx.violation('boundary-jump:1-3:v', 'dv/v = %.3g at p=%r' % (dv, p), case)
        if dh > 200.0:
            ctx.violation('boundary-jump:1-3:h', 'dh = %.3g J/kg at p=%r' % (dh, p), case)
    # 2 <-> 3 on the B23 curve
    for t in lin(350.0, 590.0, n)[1:-1]:
        p = W.b23p(t)
        case = {'clause': 'boundary 2-3', 't': t, 'p': p}
        with ctx.guard(case) as g:
            d2, u2 = W.supst(t, p)
            d3 = solve_density(W, t, p, d2 * 0.9, d2 * 1.1)
            if d3 is None:
                raise HarnessError('no region-3 density bracket on B23 at t=%r' % t)
            p3, u3 = W.super(d3, t)
        if g.raised is not None:
            continue
        ctx.evaluated()
        ctx.count('boundary_23')
        ctx.case(('b23', t), True)
        dv = abs(d2 / d3 - 1)
        dh = abs((u2 + p / d2) - (u3 + p3 / d3))
        ctx.maximum('2-3 boundary dv/v', dv, case)
        ctx.maximum('2-3 boundary dh [J/kg]', dh, case)
        if dv > 5e-4:
            ctx.violation('boundary-jump:2-3:v', 'dv/v = %.3g at t=%r' % (dv, t), case)
        if dh > 200.0:
            ctx.violation('boundary-jump:2-3:h', 'dh = %.3g J/kg at t=%r' % (dh, t), case)
    # 1 <-> 2 across saturation: Clausius-Clapeyron from returned values only
    m = 400 // spec['f']
    for t in lin(1.0, 349.0, m):
        case = {'clause': 'Clausius-Clapeyron', 't': t}
        with ctx.guard(case) as g:
            h = 1e-3
            dpdt = (W.sat(t + h) - W.sat(t - h)) / (2 * h)
            ps = W.sat(t)
            dl, ul = W.cowat(t, ps)
            dg, ug = W.supst(t, ps)
        if g.raised is not None:
            continue
        ctx.evaluated()
        ctx.count('clausius_clapeyron')
        ctx.case(('cc', t), True)
        hl, hg = ul + ps / dl, ug + ps / dg
        rhs = (hg - hl) / ((t + TK) * (1 / dg - 1 / dl))
        res = abs(dpdt / rhs - 1)
        ctx.maximum('Clausius-Clapeyron residual', res, case)
        if res > 5e-4:
            ctx.violation('saturation-inconsistent:clausius-clapeyron', 'dp/dT = %r vs latent-heat form %r (rel %.3g) at t=%r' % (dpdt, rhs, res, t), case)
        if not dl > dg:
            ctx.violation('saturation-inconsistent:densities', 'liquid density %r <= vapour density %r at t=%r' % (dl, dg, t), case)


# -- region classifier --------------------------------------------------------------------------

def run_regions(ctx, spec):
    W = R.IAPWS97
    n = 20000 // spec['f']
    eps = 1e-7

    def check(t, p, on_boundary=False):
        case = {'clause': 'region', 't': t, 'p': p}
        with ctx.guard(case) as g:
            r = W.region(t, p)
            ps = W.sat(t) if t <= 350.0 else None
        if g.raised is not None:
            return
        ctx.evaluated()
        ctx.count('region_classified')
        ctx.case(('reg', t, p), True)
        exp = own_region(t, p, ps)
        ctx.see('regions', str(exp))
        if on_boundary:
            return
        if r != exp:
            ctx.violation('region-classifier', 'region(%r, %r) = %r, definition gives %r' % (t, p, r, exp), case)
            return
        # the named region's equation must be valid (return a value) there
        if r == 1 and W.cowat(t, p) is None:
            ctx.violation('region-equation-invalid:1', 'region 1 at (%r,%r) but cowat gives None' % (t, p), case)
        if r == 2 and W.supst(t, p) is None:
            ctx.violation('region-equation-invalid:2', 'region 2 at (%r,%r) but supst gives None' % (t, p), case)
    for _ in range(n):
        t = ctx.rng.uniform(0.01, 800.0)
        p = math.exp(ctx.rng.uniform(math.log(100.0), math.log(100e6)))
        check(t, p)
    # straddling pairs on every boundary
    for t in lin(0.5, 349.9, n // 20):
        ps = W.sat(t)
        check(t, ps * (1 + eps))
        check(t, ps * (1 - eps))
    for t in lin(350.1, 589.9, n // 20):
        pb = b23_pressure(t + TK)
        check(t, pb * (1 + eps))
        check(t, pb * (1 - eps))
    for p in lin(1e3, 99.9e6, n // 20):
        check(350.0 - 1e-6, p)
        check(350.0 + 1e-6, p)
        check(590.0 - 1e-6, p)
        check(590.0 + 1e-6, p)
        check(800.0 - 1e-9, p)
        check(0.01 + 1e-9, p)
    for t in lin(0.02, 799.0, n // 40):
        check(t, 100e6 * (1 - 1e-12))
        check(t, 100e6 * (1 + 1e-9))
        check(t, 1.0)
    for p in (1e5, 5e7):
        check(800.0 + 1e-6, p)
        check(0.01 - 1e-6, p)
    # the closed end points of the temperature range and of the pressure range, exactly
    for p in [1.0, 611.0, 612.0, 1e5, 5e7, 100e6] + lin(1e3, 99.9e6, 40):
        check(0.01, p)
        check(800.0, p)
        ctx.count('region_end_points', 2)
    for t in lin(0.01, 800.0, 80):
        check(t, 100e6)
        ctx.count('region_end_points')


def run_visc_special(ctx):
    """Viscosity at and around the critical density / temperature, where the
    reduced variables (delta - 1), (1/tau - 1) pass through zero."""
    W = R.IAPWS97
    for d in (322.0, 322.0 * (1 + 1e-15), 321.99999999999994, 1.0, 0.001, 1000.0, 1332.0):
        for t in (TCRIT, 647.096 - 273.15, 373.946, 373.94600000000003, 0.01, 25.0, 100.0, 350.0, 400.0, 800.0):
            check_visc(ctx, W, d, t, 'critical-lines')
            ctx.case(('visc', d, t), True)
    for _ in range(500):
        check_visc(ctx, W, 322.0, ctx.rng.uniform(0.01, 800.0), 'critical-density')
        check_visc(ctx, W, ctx.rng.uniform(0.001, 1200.0), TCRIT, 'critical-temperature')


# -- a value is a function of the state asked for, not of what was asked before (seed C14-20) -------------
_REDUCING = {'cowat': (16.53e6, 1386.0), 'supst': (1.0e6, 540.0), 'super': (322.0, 647.096)}
_ROUND = (0.5, 0.75, 1.0, 1.25, 1.5, 2.0, 0.8, 1.2, 1.6, 2.5)


def _fresh_module():
    """A second, pristine copy of the library's IAPWS97 module (own module-level state)."""
    import importlib.util
    _fresh_module.n = getattr(_fresh_module, 'n', 0) + 1
    spec = importlib.util.spec_from_file_location('IAPWS97_pristine_%d' % _fresh_module.n, R.IAPWS97.__file__)
    m = importlib.util.module_from_spec(spec)
    spec.loader.exec_module(m)
    return m


def _outcome(m, name, args):
    try:
        return repr(getattr(m, name)(*args))
    except Exception as e:
        return 'raised %s: %s' % (type(e).__name__, e)


def run_history(ctx, trials):
    """Every routine is a function of its arguments: the long-lived module, after any sequence of
    earlier calls, must answer exactly as a pristine copy of the module asked that one question.
    The sequences use states whose reduced variables (pi, tau, delta of the three regions) are the
    SAME float in different routines, where state carried over between calls would meet."""
    W = R.IAPWS97
    rng = ctx.rng
    for _ in range(trials):
        xs = [rng.choice(_ROUND) if rng.random() < 0.6 else round(rng.uniform(0.4, 2.6), rng.choice((1, 2, 3))) for _ in range(2)]
        seq = []
        for _ in range(rng.randint(2, 5)):
            name = rng.choice(('cowat', 'supst', 'super', 'sat', 'tsat', 'visc'))
            x, y = rng.choice(xs), rng.choice(xs)
            if name in ('cowat', 'supst'):
                ps, ts = _REDUCING[name]; args = (ts / y - 273.15, x * ps)
            elif name == 'super':
                ds, ts = _REDUCING[name]; args = (x * ds, ts / y - 273.15)
            elif name == 'sat':
                args = (rng.choice((540.0, 647.096, 1386.0)) / y - 273.15,)
            elif name == 'tsat':
                args = (x * rng.choice((1.0e6, 16.53e6)),)
            else:
                args = (x * 322.0, 647.096 / y - 273.15)
            seq.append((name, args))
        got = [_outcome(W, n, a) for n, a in seq]
        for k, (n, a) in enumerate(seq):
            want = _outcome(_fresh_module(), n, a)
            ctx.count('history_independent')
            ctx.case(('history', n) + a, True)
            if got[k] != want:
                ctx.violation('history-dependent:%s' % n,
                              '%s%r gives %s when asked of a pristine module, %s after the calls %r' % (n, a, want, got[k], seq[:k]),
                              {'clause': 'history independence', 'sequence': [[n2, list(a2)] for n2, a2 in seq[:k + 1]]})


def run_shard(ctx, spec):
    if spec['part'] == 'regions':
        run_visc_special(ctx)
        run_history(ctx, 60 if spec['f'] > 1 else 400)
    {'inverse': run_inverse, 'identities': run_identities, 'boundaries': run_boundaries, 'regions': run_regions}[spec['part']](ctx, spec)


def replay(ctx, case):
    c = case.get('clause', '')
    if c.startswith('tsat') or c.startswith('sat') or c.startswith('b23'):
        run_inverse(ctx, {'f': 4})
    elif c.startswith('identity') or c.startswith('visc'):
        run_identities(ctx, {'f': 4, 'which': [1, 2, 3]})
    elif c.startswith('history'):
        run_history(ctx, 60)
    elif c.startswith('region'):
        run_regions(ctx, {'f': 4})
    else:
        run_boundaries(ctx, {'f': 4})
