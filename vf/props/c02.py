"""C02 -- fixed-column records never spill.

Monitor shape: online slicer.  Every record produced by the real
write_values_to_string over a (field x value) lattice is cut up by own column
arithmetic (vf/oracle/columns.py) and every field compared with what was written;
the real parse_string must agree with the own slicing.  File-level cases push
boundary values through the public t2incon / mulgrid / t2data writers and readers.
"""
import math
import os

from vf.core import HarnessError
from vf.oracle import columns as C
from vf.repo import R
from vf import monitors

INFO = {
    'rule': ('cases = (format table, record kind, focus field, value, neighbour mode): reals sign x decimal '
             'exponent -120..120 x 6 mantissa patterns (1, 1.5, 9.99999999999, 1.00000000001, pi, 1/3); integers '
             '0, +-1, 10^(w-1)-1, 10^(w-1), 10^w-1, 10^w and negatives at the width limit; names of every length '
             '0..w over letters/digits/blank/mixed; None in each position; neighbours populated with '
             'width-filling values or absent; plus random whole records and file-level round trips with one '
             'boundary value each. Distinct = distinct descriptor; non-trivial = the rendered text is at least as '
             'wide as the field, or the focus field has populated neighbours.'),
    'require': {
        'quick': {'counters': {'records_judged': 40000, 'records_with_overflow': 2000, 'parse_string_compared': 30000,
                               'file_level_cases': 30},
                  'seen': {'record_kinds': 70, 'overflow_outcome': 1}, 'nontrivial': 10000},
        'thorough': {'counters': {'records_judged': 1000000, 'records_with_overflow': 100000,
                                  'parse_string_compared': 800000, 'file_level_cases': 300},
                     'seen': {'record_kinds': 70, 'overflow_outcome': 1}, 'nontrivial': 400000},
    },
    'exhaustive': {'thorough': True},
    'exhaustive_note': {'thorough': 'the stated (field x value) lattice for all fields of the four format tables is walked '
                                    'completely; random whole records and file-level cases are sampled',
                        'quick': 'every field of every record kind, exponent axis sampled with stride 7'},
    'watchdog_s': {'quick': 900, 'thorough': 5400},
    'assumptions': ['C-style % formatting defines the nominal text of a value',
                    'names longer than their field are outside the quantifier'],
}

MANTISSAS = [1.0, 1.5, 9.99999999999, 1.00000000001, math.pi, 1.0 / 3.0]


def tables():
    return [('t2data', R.t2data.t2data_format_specification, R.t2data.t2data_parser),
            ('t2data_extra', R.t2data.t2data_extra_precision_format_specification, R.t2data.t2_extra_precision_data_parser),
            ('t2incon', R.t2incons.t2incon_format_specification, R.t2incons.t2incon_parser),
            ('mulgrid', R.mulgrids.mulgrid_format_specification, None)]


def parser_for(tname):
    for n, spec, cls in tables():
        if n == tname:
            if cls is None:
                return R.fixed_format_file.fixed_format_file(os.devnull, 'w', spec, R.fixed_format_file.default_read_function), spec
            return cls(os.devnull, 'w'), spec
    raise HarnessError(tname)


def plan(tier, seed):
    nsh = 4 if tier == 'quick' else 16
    shards = [{'kind': 'lattice', 'part': i, 'parts': nsh} for i in range(nsh)]
    if tier == 'thorough':
        shards += [{'kind': 'random', 'n': 25000} for _ in range(8)]
    else:
        shards += [{'kind': 'random', 'n': 8000}]
    shards.append({'kind': 'files', 'n': 60 if tier == 'quick' else 400})
    return shards


def values_for(f, tier, seed):
    """The value lattice of one field: list of (descriptor, value)."""
    out = []
    if C.is_real(f):
        step = 1 if tier == 'thorough' else 7
        exps = list(range(-120 + (seed % step), 121, step))
        for e in (-100, -99, -10, -9, -1, 0, 1, 9, 10, 99, 100):
            if e not in exps:
                exps.append(e)
        for sgn in (1, -1):
            for e in exps:
                for mi, m in enumerate(MANTISSAS):
                    out.append(('%s%d:e%+d' % ('-' if sgn < 0 else '+', mi, e), sgn * float('%.17ge%d' % (m, e))))
        out.append(('zero', 0.0))
        out.append(('-zero', -0.0))
    elif f.typ == 'd':
        w = f.width
        vs = [0, 1, -1, 10 ** (w - 1) - 1, 10 ** (w - 1), 10 ** w - 1, 10 ** w, 10 ** w + 1,
              -(10 ** (w - 1) - 1), -(10 ** (w - 1)), -(10 ** w)]
        if w == 1:
            vs = [0, 1, 9, 10, -1]
        for v in dict.fromkeys(vs):
            out.append(('int:%d' % v, v))
    elif f.typ == 's':
        for n in range(0, f.width + 1):
            for cname, chars in (('letters', 'abcdefghijklmnopqrstuvwxyz' * 4), ('digits', '1234567890' * 9),
                                 ('blank', ' ' * 90), ('mixed', 'A1 b2 C3 ' * 10)):
                if n > 12 and n not in (f.width, f.width - 1, f.width // 2):
                    continue
                out.append(('name:%s:%d' % (cname, n), chars[:n]))
    out.append(('None', None))
    return out


def neighbours(fields, k, mode):
    vals = []
    for i, f in enumerate(fields):
        if i == k:
            vals.append(None)
        elif mode == 'fill':
            vals.append(C.width_filling(f, alt=i % 2))
        elif mode == 'alt':
            vals.append(C.width_filling(f, alt=(i + 1) % 2) if i % 2 == 0 else None)
        else:
            vals.append(None)
    return vals


def judge(ctx, parser, tname, kind, names, specs, vals, case, focus):
    """Run the real writer on one record and judge the outcome."""
    fields, total = C.layout(names, specs)
    over = [i for i, (f, v) in enumerate(zip(fields, vals)) if v is not None and f.typ != 'x' and not C.fits(f, v)]
    try:
        line = parser.write_values_to_string(vals, kind)
    except Exception as e:  # a loud failure: acceptable only when something does not fit
        ctx.evaluated()
        ctx.count('records_judged')
        if over:
            ctx.count('records_with_overflow')
            ctx.see('overflow_outcome', 'raised:%s' % type(e).__name__)
        else:
            ctx.violation('raises-on-fitting-values:%s' % type(e).__name__,
                          '%s.%s: %r raised %r though every value fits' % (tname, kind, vals, e), case)
        return
    ctx.evaluated()
    ctx.count('records_judged')
    if over:
        ctx.count('records_with_overflow')
        if monitors.must_fail_loudly(names, specs, vals):
            ctx.see('overflow_outcome', 'cannot-fit')
        else:
            ctx.see('overflow_outcome', 'reduced-precision')
            ctx.maximum('widest_overflow_columns', max(len(C.nominal_text(fields[i], vals[i])) - fields[i].width for i in over),
                        {'record': kind, 'field': fields[over[0]].name})
    found = monitors.judge_record('%s.%s' % (tname, kind), names, specs, vals, line, focus)
    for key, what in found:
        ctx.violation(key, what, case)
    if found or len(line) != total:
        return
    # the real parser must agree with own slicing
    try:
        parsed = parser.parse_string(line, kind)
    except Exception as e:
        ctx.violation('parse_string-raises:%s' % type(e).__name__, '%s.%s: parse_string(%r) raised %r' % (tname, kind, line, e), case)
        return
    ctx.count('parse_string_compared')
    for i, (f, p) in enumerate(zip(fields, parsed)):
        rk, rv = C.read_slice(f, line[f.start:f.end])
        if f.typ == 's':
            ok = (p == rv) or (p is None and not rv.strip())
        elif rk == 'blank':
            ok = p is None
        else:
            ok = C.same_real(float(p), float(rv)) if p is not None else False
        if not ok:
            ctx.violation('parse_string-misreads:%s' % f.typ,
                          '%s.%s field %s: columns %d:%d hold %r, parse_string gives %r' % (tname, kind, f.name, f.start, f.end, line[f.start:f.end], p), case)


def run_lattice(ctx, spec):
    n = 0
    for tname, table, _ in tables():
        parser, _ = parser_for(tname)
        for kind in sorted(table):
            names, specs = table[kind]
            fields, total = C.layout(names, specs)
            ctx.see('record_kinds', '%s.%s' % (tname, kind))
            if len(names) != len(specs):
                # a value announced by the table has no columns (or columns no value)
                ctx.evaluated()
                ctx.violation('table-names-formats-mismatch', '%s.%s names %d fields but has formats for %d' % (
                    tname, kind, len(names), len(specs)), {'table': tname, 'record': kind, 'values': [1] * len(names)})
            for k, f in enumerate(fields):
                if f.typ == 'x':
                    continue
                n += 1
                if n % spec['parts'] != spec['part']:
                    continue
                ctx.count('fields_walked')
                for vi, (desc, v) in enumerate(values_for(f, ctx.tier, ctx.seed)):
                    modes = ['fill'] if vi % 5 else ['fill', 'none', 'alt']
                    for mode in modes:
                        vals = neighbours(fields, k, mode)
                        vals[k] = v
                        case = {'table': tname, 'record': kind, 'field': k, 'field_name': f.name, 'value': v,
                                'value_desc': desc, 'mode': mode}
                        text_w = len(C.nominal_text(f, v)) if v is not None else 0
                        ctx.case((tname, kind, k, desc, mode), nontrivial=(text_w >= f.width or mode != 'none'))
                        judge(ctx, parser, tname, kind, names, specs, vals, case, k)


def random_value(rng, f):
    r = rng.random()
    if f.typ == 'x' or r < 0.1:
        return None
    if C.is_real(f):
        m = rng.choice(MANTISSAS) if rng.random() < 0.5 else rng.uniform(1, 10)
        e = rng.choice([-120, -100, -99, -10, -5, -1, 0, 1, 3, 5, 9, 10, 20, 99, 100, 120]) if rng.random() < 0.6 else rng.randint(-120, 120)
        return rng.choice([1, 1, -1]) * float('%.17ge%d' % (m, e))
    if f.typ == 'd':
        w = f.width
        return rng.choice([0, 1, -1, 10 ** (w - 1) - 1, 10 ** w - 1, 10 ** w, rng.randint(-10 ** w, 10 ** w)])
    n = rng.randint(0, f.width)
    return ''.join(rng.choice('abcXYZ 0123456789') for _ in range(n))


def run_random(ctx, spec):
    tabs = tables()
    parsers = {t[0]: parser_for(t[0])[0] for t in tabs}
    for i in range(spec['n']):
        tname, table, _ = ctx.rng.choice(tabs)
        kind = ctx.rng.choice(sorted(table))
        names, specs = table[kind]
        fields, _ = C.layout(names, specs)
        vals = [random_value(ctx.rng, f) for f in fields]
        spelling = 'python'
        if i % 4 == 3:
            # the same numbers as numpy scalars (what comes out of an array: np.int64 / np.int32 are no Python ints,
            # np.float32 no Python float): a record is written from them like from any other number
            import numpy as np
            spelling = 'numpy'
            for k_, (f, v) in enumerate(zip(fields, vals)):
                if v is None or f.typ in ('s', 'x'):
                    continue
                if f.typ == 'd':
                    vals[k_] = (np.int64 if (i // 4 + k_) % 2 else np.int32)(v) if abs(v) < 2 ** 31 else np.int64(v)
                elif 1e-30 < abs(v) < 1e30 and (i // 4 + k_) % 3 == 0:
                    vals[k_] = np.float32(v)
                else:
                    vals[k_] = np.float64(v)
            ctx.count('records_from_numpy_scalars')
        case = {'table': tname, 'record': kind, 'values': [v if (v is None or isinstance(v, str)) else (int(v) if isinstance(v, (int,)) or 'int' in type(v).__name__ else float(v)) for v in vals],
                'mode': 'random', 'number_spelling': spelling, 'number_types': [type(v).__name__ for v in vals]}
        ctx.case((tname, kind, repr(vals)), nontrivial=sum(v is not None for v in vals) >= 2)
        judge(ctx, parsers[tname], tname, kind, names, specs, vals, case, None)


# -- file level ---------------------------------------------------------------------

BOUNDARY_REALS = [-1.2345678901234e-100, 1.2345678901234e-100, -1.2345678901234e+100, -1.5, -9.99999999999e+9, 3.3e-101,
                  -2.5e-5, 1.0e+100, -7.0e-10, 0.0, 12345.678, -6.02e+23]


def run_files(ctx, spec):
    mon = monitors.RecordMonitor(R.fixed_format_file, lambda key, what, case: ctx.violation('in-situ:' + key, what, case))
    rng = ctx.rng
    for i in range(spec['n']):
        which = i % 3
        v = BOUNDARY_REALS[(i // 3) % len(BOUNDARY_REALS)]
        if which == 0:
            file_incon(ctx, rng, v, i)
        elif which == 1:
            file_mulgrid(ctx, rng, v, i)
        else:
            file_t2data(ctx, rng, v, i)
        ctx.count('file_level_cases')
    for i in range(15 if spec['n'] <= 100 else 45):
        file_t2data_overwide_integer(ctx, rng, i)
    ctx.count('in_situ_records', mon.records)


def close_to(parsed, v, rel=0.5):
    return parsed is not None and (parsed == v or abs(parsed - v) <= rel * abs(v))


def file_incon(ctx, rng, v, i):
    t2i = R.t2incons
    nvar = rng.randint(1, 6)
    pos = rng.randrange(nvar)
    blocks = ['  a%2d' % (k + 1) for k in range(3)]
    case = {'file': 't2incon', 'value': v, 'position': pos, 'num_variables': nvar, 'porosity': None}
    inc = t2i.t2incon()
    por = [None, 0.1, v if abs(v) < 1 else 0.25][i % 3]
    case['porosity'] = por
    ref = {}
    for b in blocks:
        var = [1.0e5 + k for k in range(nvar)]
        if b == blocks[1]:
            var[pos] = v
        inc[b] = t2i.t2blockincon(var, b, porosity=por)
        ref[b] = (list(var), por)
    fn = os.path.join(ctx.tmp, 'c02_%d.incon' % i)
    ok = False
    try:
        inc.write(fn)
        ok = True
    except Exception as e:
        ctx.see('file_outcome', 'incon-write-raised:%s' % type(e).__name__)
        # loud failure is acceptable only if the value does not fit its 20.13e / 15.9e field
        if len('%20.13e' % v) <= 20 and (por is None or len('%15.9e' % por) <= 15):
            ctx.violation('file:incon-write-raises-on-fitting', 'write raised %r' % (e,), case)
    ctx.evaluated()
    ctx.case(case, nontrivial=True)
    if not ok:
        return
    with ctx.guard(case, where='file-incon-read'):
        back = t2i.t2incon(fn, num_variables=nvar)
        names = [b.block for b in back]
        if names != blocks:
            ctx.violation('file:incon-block-list', 'wrote blocks %r, read %r' % (blocks, names), case)
            return
        for b in blocks:
            var, p = ref[b]
            got = back[b].variable
            for k, (x, y) in enumerate(zip(var, got)):
                exact = float('%20.13e' % x) if len('%20.13e' % x) <= 20 else None
                if (exact is not None and y != exact) or (exact is None and not close_to(y, x, 1e-6)):
                    ctx.violation('file:incon-neighbour-corrupted' if not (b == blocks[1] and k == pos) else 'file:incon-value',
                                  'block %r variable %d wrote %r read %r' % (b, k, x, y), case)
            if len(got) != len(var):
                ctx.violation('file:incon-variable-count', 'block %r wrote %d variables read %d' % (b, len(var), len(got)), case)
            if p is not None and not close_to(back[b].porosity, p, 1e-6):
                ctx.violation('file:incon-porosity', 'block %r porosity wrote %r read %r' % (b, p, back[b].porosity), case)
    ctx.see('file_outcome', 'incon-roundtrip')


def file_mulgrid(ctx, rng, v, i):
    mg = R.mulgrids
    coords = [999999.99, -99999.99, 1234567.89, -999999.99, 12345678.9, 0.0, -0.004, 99999999.0, 1.0e9, -1.0e8][(i // 3) % 10]
    case = {'file': 'mulgrid', 'origin_x': coords}
    geo = mg.mulgrid().rectangular([10., 20.], [15., 25.], [5., 10.], origin=[coords, 7.0, 0.0], atmos_type=i % 3)
    # header values: every one that exists in the object is a field of the first record
    hdr = {}
    if i % 2:
        hdr = {'gdcx': rng.choice([None, 0.1, -0.25, 0.0]), 'gdcy': rng.choice([None, 0.3, -0.05]),
               'permeability_angle': rng.choice([0.0, 30.0, -12.5]), 'atmosphere_volume': rng.choice([1.0e25, 1.0e20, 2.5e10]),
               'atmosphere_connection': rng.choice([1.0e-6, 0.5])}
        for k_, v_ in hdr.items():
            setattr(geo, k_, v_)
        case['header'] = hdr
    fn = os.path.join(ctx.tmp, 'c02_%d.geo' % i)
    ctx.evaluated()
    ctx.case(case, nontrivial=True)
    try:
        geo.write(fn)
    except Exception as e:
        ctx.see('file_outcome', 'mulgrid-write-raised:%s' % type(e).__name__)
        if all(len('%10.2f' % n.pos[0]) <= 10 for n in geo.nodelist):
            ctx.violation('file:mulgrid-write-raises-on-fitting', 'write raised %r' % (e,), case)
        return
    if hdr:
        # own slicing of the first record by the widths of the format table
        names, specs = mg.mulgrid_format_specification['header']
        with open(fn) as f:
            line = f.readline().rstrip('\n')
        pos = 0
        fields = {}
        for n_, sp in zip(names, specs):
            w = int(sp.rstrip('sdfeg').split('.')[0])
            fields[n_] = line[pos:pos + w]
            pos += w
        ctx.count('geometry_headers_sliced')
        for k_, v_ in hdr.items():
            txt = fields.get(k_, '')
            if v_ is None:
                if txt.strip():
                    ctx.violation('file:mulgrid-header-field', 'header field %s holds %r, the geometry has no value' % (k_, txt), case)
            else:
                try:
                    got = float(txt)
                except ValueError:
                    got = None
                if got is None or abs(got - v_) > 0.006 * max(1.0, abs(v_)):
                    ctx.violation('file:mulgrid-header-field', 'header field %s holds %r, the geometry holds %r' % (k_, txt, v_), case)
    with ctx.guard(case, where='file-mulgrid-read'):
        back = mg.mulgrid(fn)
        for k_, v_ in hdr.items():
            got = getattr(back, k_)
            if (v_ is None) != (got is None) or (v_ is not None and abs(got - v_) > 0.006 * max(1.0, abs(v_))):
                ctx.violation('file:mulgrid-header-value', 'header value %s wrote %r read %r' % (k_, v_, got), case)
        if [n.name for n in back.nodelist] != [n.name for n in geo.nodelist]:
            ctx.violation('file:mulgrid-node-list', 'node names differ after round trip', case)
            return
        for a, b in zip(geo.nodelist, back.nodelist):
            tolx = 0.006 if len('%10.2f' % a.pos[0]) <= 10 else 0.5 * abs(a.pos[0]) * 1e-3 + 1.0
            if abs(a.pos[0] - b.pos[0]) > tolx:
                ctx.violation('file:mulgrid-x', 'node %r x wrote %r read %r' % (a.name, a.pos[0], b.pos[0]), case)
            if abs(a.pos[1] - b.pos[1]) > 0.006:
                ctx.violation('file:mulgrid-neighbour-corrupted', 'node %r y wrote %r read %r' % (a.name, a.pos[1], b.pos[1]), case)
        if [c.name for c in back.columnlist] != [c.name for c in geo.columnlist] or back.num_layers != geo.num_layers:
            ctx.violation('file:mulgrid-structure', 'columns/layers differ after round trip', case)
    ctx.see('file_outcome', 'mulgrid-roundtrip')


def file_t2data(ctx, rng, v, i):
    t2d, t2g = R.t2data, R.t2grids
    case = {'file': 't2data', 'value': v, 'slot': i % 4}
    dat = t2d.t2data()
    dat.title = 'c02 boundary value'
    # rock names shorter than their field (trailing / inner blanks) are names too: the ELEME record must carry them so
    # that they parse back as written; every other block has no centre (it is then written through another code path)
    rname = ['rock1', 'wt   ', 'cap  ', 'a b c', 'ROCK9', 'x    '][(i // 6) % 6]
    case['rock_name'] = rname
    rt = t2g.rocktype(name=rname, density=2600., porosity=0.1, permeability=[1e-15, 2e-15, 3e-15], conductivity=2.5, specific_heat=900.)
    slot = (i // 3) % 4
    if slot == 0:
        rt.density = v
    elif slot == 1:
        rt.permeability[1] = v
    elif slot == 2:
        rt.conductivity = v
    dat.grid.add_rocktype(rt)
    dat.grid.add_block(t2g.t2block('  a 1', 1.5e3 if slot != 3 else v, rt, centre=[1., 2., -3.]))
    dat.grid.add_block(t2g.t2block('  a 2', 2.5e3, rt, centre=None if (i // 3) % 2 else [1., 2., -13.]))
    case['second_block_centre'] = 'absent' if (i // 3) % 2 else 'given'
    dat.grid.add_connection(t2g.t2connection([dat.grid.block['  a 1'], dat.grid.block['  a 2']], 3, [5., 5.], 100., -1.0))
    # records with an ABSENT value in a position that is not the last: it is written blank and must come back
    # as absent in the same position (the values after it stay in their own columns)
    absent_at = i % 3
    inc_vals = [1.0e5 + i, 20.5, 0.25, 1.5e-3][:3 + (i % 2)]
    inc_vals[absent_at] = None
    dom_vals = [2.0e5, 30.5, 0.5]
    dom_vals[(absent_at + 1) % 2] = None
    dat.incon = {'  a 2': [None, list(inc_vals)]}
    dat.indom = {rname: list(dom_vals)}
    case['absent'] = {'incon': list(inc_vals), 'indom': list(dom_vals)}
    # generator tables whose length fills the last record exactly (4 numbers to a record) or not: the records that follow
    # a table are the next generator's
    nt = [4, 3, 8, 1, 12, 5][(i // 2) % 6]
    gens = []
    for gi, (gname, n_) in enumerate((('tab 1', nt), ('end 2', 2))):
        g_ = t2d.t2generator(name=gname, block='  a %d' % (gi + 1), type='MASS', gx=1.5 + gi, ltab=n_,
                             time=[100.0 * k_ for k_ in range(n_)] if n_ > 1 else [], rate=[0.5 + k_ for k_ in range(n_)] if n_ > 1 else [],
                             enthalpy=[1.0e5 + k_ for k_ in range(n_)] if (n_ > 1 and i % 2) else [], itab='1' if (n_ > 1 and i % 2) else '')
        dat.add_generator(g_)
        gens.append((gname, n_, list(g_.time), list(g_.rate), list(g_.enthalpy)))
    case['generator_table_lengths'] = [g_[1] for g_ in gens]
    # a MINC mesh-maker record: keyword, type, a spacer the record only has blanks for, and the DUAL word after it
    mm = None
    if i % 4 == 1:
        mm = {'type': ['ONE-D', 'THRED'][(i // 4) % 2], 'dual': ['MMALL', 'MMVER', 'DFLT ', '     '][(i // 8) % 4], 'num_continua': 2,
              'where': 'OUT ', 'spacing': [50.0, 20.0][:1 + (i // 4) % 2], 'vol': [0.1, 0.9]}
        dat.meshmaker = [('minc', dict(mm, spacing=list(mm['spacing']), vol=list(mm['vol'])))]
        case['minc_record'] = mm
    fn = os.path.join(ctx.tmp, 'c02_%d.dat' % i)
    # every third group of cases through the extra-precision auxiliary file (AUTOUGH2): its records are 105-115 columns
    # wide, the values beyond column 80 must come back like the others
    xp = (i // 12) % 3
    case['extra_precision'] = ['no', 'echoed', 'only-in-auxiliary-file'][xp]
    ctx.see('file_extra_precision', case['extra_precision'])
    fmt = '%15.8e' if xp else '%10.4e'
    width = 15 if xp else 10
    ctx.evaluated()
    ctx.case(case, nontrivial=True)
    try:
        if xp:
            dat.type = 'AUTOUGH2'
            dat.write(fn, extra_precision=True, echo_extra_precision=(xp == 1))
        else:
            dat.write(fn)
    except Exception as e:
        ctx.see('file_outcome', 't2data-write-raised:%s' % type(e).__name__)
        if len('%10.4e' % v) <= 10:
            ctx.violation('file:t2data-write-raises-on-fitting', 'write raised %r' % (e,), case)
        return
    with ctx.guard(case, where='file-t2data-read'):
        back = t2d.t2data(fn)
        r2 = back.grid.rocktype.get(rname)
        if r2 is None or back.grid.num_blocks != 2 or back.grid.num_connections != 1:
            ctx.violation('file:t2data-structure', 'rock/blocks/connections lost: %r' % (back.grid,), case)
            return

        def chk(name, wrote, read, focus):
            exact = float(fmt % wrote) if len(fmt % wrote) <= width else None
            if (exact is not None and read != exact) or (exact is None and not close_to(read, wrote)):
                ctx.violation('file:t2data-value' if focus else 'file:t2data-neighbour-corrupted',
                              '%s wrote %r read %r' % (name, wrote, read), case)
        chk('density', rt.density, r2.density, slot == 0)
        chk('porosity', rt.porosity, r2.porosity, False)
        for k in range(3):
            chk('k%d' % (k + 1), rt.permeability[k], r2.permeability[k], slot == 1 and k == 1)
        chk('conductivity', rt.conductivity, r2.conductivity, slot == 2)
        chk('specific_heat', rt.specific_heat, r2.specific_heat, False)
        chk('volume', dat.grid.blocklist[0].volume, back.grid.blocklist[0].volume, slot == 3)
        for k, (w, r) in enumerate(zip([1., 2., -3.], back.grid.blocklist[0].centre if back.grid.blocklist[0].centre is not None else [None] * 3)):
            chk('centre[%d]' % k, w, r, False)
        con = back.grid.connectionlist[0]
        chk('connection area', 100., con.area, False)
        chk('connection dircos', -1.0, con.dircos, False)
        chk('connection distance 2', 5., con.distance[1], False)
        ctx.count('values_beyond_column_80_read' if xp else 'values_within_column_80_read', 5)
        ctx.see('file_rock_name', repr(rname) + ('/no-centre' if (i // 3) % 2 else '/centre'))
        for bk in back.grid.blocklist:
            if bk.rocktype.name != rname:
                ctx.violation('file:t2data-rock-name-in-block-record', 'block %r (centre %s): rock type %r read as %r' % (bk.name, 'absent' if bk.centre is None else 'given', rname, bk.rocktype.name), case)
                break

        def same_positions(wrote, read):
            w = list(wrote)
            while w and w[-1] is None:
                w.pop()
            r = list(read)
            while r and r[-1] is None:
                r.pop()
            return len(w) == len(r) and all((a is None and b is None) or (a is not None and b is not None and float('%20.13e' % a) == b)
                                            for a, b in zip(w, r))
        if mm is not None:
            ctx.count('mesh_maker_records_read_back')
            got_mm = [x for x in back.meshmaker if x[0] == 'minc']
            if len(got_mm) != 1 or (got_mm[0][1].get('dual') or '').strip() != mm['dual'].strip() or (got_mm[0][1].get('type') or '').strip() != mm['type'].strip() \
                    or [float(x) for x in got_mm[0][1].get('vol', [])] != mm['vol']:
                ctx.violation('file:t2data-meshmaker-record', 'MINC mesh-maker data wrote %r read %r' % (mm, got_mm and got_mm[0][1]), case)
        ctx.count('generator_tables_read_back', len(gens))
        gb = [(g_.name, g_.ltab, [float(x) for x in g_.time], [float(x) for x in g_.rate], [float(x) for x in g_.enthalpy]) for g_ in back.generatorlist]
        if [x[0] for x in gb] != [x[0] for x in gens] or any(a[2:] != b[2:] for a, b in zip(gens, gb)):
            ctx.violation('file:t2data-generator-tables-displaced', 'generators written %r, read back %r' % ([(x[0], x[1]) for x in gens], [(x[0], x[1], x[3][:2]) for x in gb]), case)
        ctx.count('records_with_absent_middle_value', 2)
        got = back.incon.get('  a 2')
        if got is None or not same_positions(inc_vals, got[1]):
            ctx.violation('file:t2data-absent-value-moved:incon', 'INCON variables wrote %r read %r' % (inc_vals, got and got[1]), case)
        gotd = back.indom.get(rname)
        if gotd is None or not same_positions(dom_vals, gotd):
            ctx.violation('file:t2data-absent-value-moved:indom', 'INDOM variables wrote %r read %r' % (dom_vals, gotd), case)
    ctx.see('file_outcome', 't2data-roundtrip')


def file_t2data_overwide_integer(ctx, rng, i):
    """An integer that does not fit its columns, in a record of a data file: the write fails loudly, or - if it does not -
    the rest of the model is still all there when the file is read back."""
    t2d, t2g = R.t2data, R.t2grids
    where = ['incon-nseq', 'incon-nadd', 'block-nseq', 'generator-nseq', 'connection-nseq'][i % 5]
    big = [123456, -12345, 1000000][(i // 5) % 3]
    case = {'file': 't2data', 'overwide_integer': big, 'where': where}
    dat = t2d.t2data()
    dat.title = 'c02 over-wide integer'
    rt = t2g.rocktype(name='rock1')
    dat.grid.add_rocktype(rt)
    for k in range(3):
        dat.grid.add_block(t2g.t2block('  a %d' % (k + 1), 1.0e3 * (k + 1), rt, centre=[1., 2., -10. * k]))
    for k in range(2):
        dat.grid.add_connection(t2g.t2connection([dat.grid.blocklist[k], dat.grid.blocklist[k + 1]], 3, [5., 5.], 100., -1.0))
    dat.incon = dict(('  a %d' % (k + 1), [0.1, [1.0e5 + k, 20.0 + k]]) for k in range(3))
    for k in range(2):
        dat.add_generator(t2d.t2generator(name='wel %d' % k, block='  a %d' % (k + 1), type='MASS', gx=1.5 + k))
    if where == 'incon-nseq':
        dat.incon['  a 2'] = [0.1, [1.0e5 + 1, 21.0], big, 1]
    elif where == 'incon-nadd':
        dat.incon['  a 2'] = [0.1, [1.0e5 + 1, 21.0], 1, big]
    elif where == 'block-nseq':
        dat.grid.blocklist[1].nseq, dat.grid.blocklist[1].nadd = big, 1
    elif where == 'generator-nseq':
        dat.generatorlist[1].nseq = big
    else:
        dat.grid.connectionlist[1].nseq = big
    fn = os.path.join(ctx.tmp, 'c02_wide_%d.dat' % i)
    ctx.evaluated()
    ctx.count('overwide_integer_cases')
    ctx.case(case, nontrivial=True)
    try:
        dat.write(fn)
    except Exception as e:
        ctx.see('overwide_integer_outcome', '%s: write raised %s' % (where, type(e).__name__))
        return
    ctx.see('overwide_integer_outcome', '%s: written' % where)
    with ctx.guard(case, where='file-t2data-overwide-read'):
        back = t2d.t2data(fn)
        got = (back.grid.num_blocks, back.grid.num_connections, len(back.incon), len(back.generatorlist))
        if got != (3, 2, 3, 2):
            ctx.violation('file:t2data-overwide-integer:records-lost:' + where, 'an integer %d too wide for its field (%s): write() did not complain, the file holds %d blocks, %d connections, %d initial conditions, %d generators of 3, 2, 3, 2' % (
                (big, where) + got), case)
            return
        vols = [b.volume for b in back.grid.blocklist]
        incs = [back.incon[n][1][0] for n in sorted(back.incon)]
        if vols != [1.0e3, 2.0e3, 3.0e3] or incs != [1.0e5, 1.0e5 + 1, 1.0e5 + 2] or [g.gx for g in back.generatorlist] != [1.5, 2.5]:
            ctx.violation('file:t2data-overwide-integer:neighbours-corrupted:' + where, 'an integer %d too wide for its field (%s) was written without complaint: volumes %r, pressures %r, rates %r' % (
                big, where, vols, incs, [g.gx for g in back.generatorlist]), case)


def run_shard(ctx, spec):
    {'lattice': run_lattice, 'random': run_random, 'files': run_files}[spec['kind']](ctx, spec)


def replay(ctx, case):
    if case.get('file'):
        ctx.violation  # noqa
        if case['file'] == 't2incon':
            run_files(ctx, {'n': 36})
        else:
            run_files(ctx, {'n': 36})
        return
    if 'table' not in case and 'record' in case:
        raise HarnessError('in-situ record %r: replay through the owning workload' % (case,))
    parser, table = parser_for(case['table'])
    names, specs = table[case['record']]
    fields, _ = C.layout(names, specs)
    if 'values' in case:
        vals = list(case['values'])
        if case.get('number_spelling') == 'numpy':
            import numpy as np
            vals = [getattr(np, t)(v) if t in ('int32', 'int64', 'float32', 'float64') else v for v, t in zip(vals, case['number_types'])]
    else:
        vals = neighbours(fields, case['field'], case['mode'])
        vals[case['field']] = case['value']
    judge(ctx, parser, case['table'], case['record'], names, specs, vals, case, case.get('field'))
