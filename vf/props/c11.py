"""C11 -- refining or decomposing columns conserves area and volume and tiles the domain.

Monitor shape: conservation + tiling.  Around every real refine / bisect / split /
triangulate / decompose / refine_layers execution the harness measures, with own
geometry, the total plan area and rock volume, places sample points in the old
columns and requires each to lie in exactly one new column that is inside the old
one and inherits its surface, and tests conformity (no hanging node; shared edge
<=> connection).  The situations reached inside refine (transition types) and
decompose_column (node / straight-node cases) are observed with sys.monitoring
probes on the nested code objects.
"""
import math

from vf.core import HarnessError
from vf.gen import geoops, geos
from vf.oracle import geoinv as GI
from vf.oracle import polygeo as PG
from vf.repo import R
from vf import probes

EXPECTED_TRANSITIONS = ['3:1,0', '3:2,1', '3:3,2', '4:1,0', '4:2,1', '4:2,2', '4:3,2', '4:4,3']
EXPECTED_DECOMP = ['5,1', '6,2,d=2', '6,2,d=3', '7,3', '8,4', 'triangulate']

INFO = {
    'rule': ('cases = (geometry, operation): rectangular with random spacings, the small bases of C10, shipped g5/g6/g7 and earlier refinements of '
             'all of them; selections: every subset on small bases, single columns, strips, L-shapes, boundary-touching regions, regions with a '
             'hole, random subsets; refine full / x / y / longest-side bisection with and without bisected edge columns; second-level refinement '
             'over regions that cover transition triangles; split at each node; triangulate; synthetic 5..9-gons with 0..4 straight angles at '
             'every rotation of the node list for decompose; every layer subset x factor 2..4; surfaces below / inside / above the top layer. '
             'Distinct = distinct descriptor; non-trivial = the operation created >= 1 transition column or >= 3 new columns.'),
    'require': {
        'quick': {'counters': {'operations': 400, 'sample_points_located': 10000, 'conformity_checks': 400, 'decompositions': 100},
                  'seen': {'transition_type': EXPECTED_TRANSITIONS, 'decompose_case': EXPECTED_DECOMP}, 'nontrivial': 200},
        'thorough': {'counters': {'operations': 8000, 'sample_points_located': 300000, 'conformity_checks': 8000, 'decompositions': 1500},
                     'seen': {'transition_type': EXPECTED_TRANSITIONS, 'decompose_case': EXPECTED_DECOMP}, 'nontrivial': 4000},
    },
    'watchdog_s': {'quick': 1500, 'thorough': 7200},
    'assumptions': ['area / volume compared to 1e-10 relative (widened by float64 conditioning on map coordinates)',
                    'sample points closer than 1e-7 x local size to a new edge are not judged for uniqueness'],
}


def plan(tier, seed):
    if tier == 'quick':
        return [{'kind': 'bases', 'light': True, 'bases': ['r22', 'mixed-refined']}, {'kind': 'bases', 'light': True, 'bases': ['r32']}, {'kind': 'bases', 'light': True, 'bases': ['mixed-pentagon', 'mixed-hexagon']},
                {'kind': 'rect', 'n': 60}, {'kind': 'rect', 'n': 60}, {'kind': 'decompose', 'part': 0, 'parts': 1, 'stride': 4},
                {'kind': 'shipped', 'names': ['g7', 'g5'], 'n': 10}, {'kind': 'layers', 'n': 40}]
    return [{'kind': 'bases', 'light': False, 'bases': [b]} for b in geoops.BASES] + [{'kind': 'rect', 'n': 420} for _ in range(8)] + [{'kind': 'decompose', 'part': i, 'parts': 3, 'stride': 1} for i in range(3)] + \
        [{'kind': 'shipped', 'names': [n], 'n': 40} for n in ('g7', 'g5', 'g6', 'g1')] + [{'kind': 'layers', 'n': 400}]


def install_probes(ctx):
    mgc = R.mulgrids.mulgrid
    try:
        code = probes.nested_code(mgc.refine, 'transition_type')
    except LookupError:
        raise HarnessError('refine.transition_type not found')

    def on_ret(loc, ret):
        if ret is not None:
            ctx.see('transition_type', '%d:%d,%d' % (loc.get('nn'), ret[0], ret[2]))
    probes.on_return(code, on_ret)

    def on_dec(loc, ret):
        nn, ns = loc.get('nn'), loc.get('ns')
        if nn is None or nn <= 4:
            return
        if (nn, ns) in ((5, 1), (7, 3), (8, 4)):
            ctx.see('decompose_case', '%d,%d' % (nn, ns))
        elif (nn, ns) == (6, 2) and loc.get('d') in (2, 3):
            ctx.see('decompose_case', '6,2,d=%d' % loc.get('d'))
        else:
            ctx.see('decompose_case', 'triangulate')
    probes.on_return(mgc.decompose_column, on_dec)


def measure(geo):
    return {'area': GI.total_area(geo), 'volume': GI.total_volume(geo), 'columns': GI.snapshot_columns(geo),
            'cond': max(PG.area_conditioning(p) for _, p, _ in GI.snapshot_columns(geo)), 'ncol': geo.num_columns}


def sample_points(rng, old):
    pts = []
    for name, poly, surf in old:
        cx, cy = PG.centroid(poly)
        pts.append(((cx, cy), name))
        n = len(poly)
        for _ in range(6):
            # random point inside a convex polygon: random convex combination
            w = [rng.random() ** 2 + 1e-3 for _ in range(n)]
            s = sum(w)
            pts.append(((sum(wi * p[0] for wi, p in zip(w, poly)) / s, sum(wi * p[1] for wi, p in zip(w, poly)) / s), name))
        for i in range(n):
            a, b = poly[i], poly[(i + 1) % n]
            mx, my = 0.5 * (a[0] + b[0]), 0.5 * (a[1] + b[1])
            # just inside the middle of each old side
            pts.append(((mx + 1e-3 * (cx - mx), my + 1e-3 * (cy - my)), name))
            pts.append(((a[0] + 1e-3 * (cx - a[0]), a[1] + 1e-3 * (cy - a[1])), name))     # just inside each old corner
    # (a shipped geometry has a few non-convex columns: keep only points that really are in their column)
    by = dict((n, p) for n, p, s in old)
    return [(pt, name) for pt, name in pts if PG.inside(pt, by[name])]


def check_after(ctx, geo, before, op, case, label, layers_only=False):
    def V(kind, text):
        ctx.violation('%s:%s' % (kind, label), text, case)
        return False
    ctx.count('operations')
    tolA = 1e-10 + 8e-16 * before['cond']
    A1, V1 = GI.total_area(geo), GI.total_volume(geo)
    if abs(A1 - before['area']) > tolA * before['area']:
        return V('area-not-conserved', 'total plan area %r -> %r' % (before['area'], A1))
    if abs(V1 - before['volume']) > tolA * abs(before['volume']):
        return V('volume-not-conserved', 'total rock volume %r -> %r' % (before['volume'], V1))
    stored = sum(c.area for c in geo.columnlist)
    if abs(stored - A1) > tolA * A1:
        return V('stored-area', 'sum of stored column areas %r, polygons give %r' % (stored, A1))
    bv = GI.block_volume_sum(geo)
    if abs(bv - V1) > tolA * abs(V1):
        return V('block-volume-sum', 'sum of block volumes over the block name list %r, area x depth gives %r' % (bv, V1))
    new = GI.snapshot_columns(geo)
    if layers_only:
        if [(n, s) for n, p, s in new] != [(n, s) for n, p, s in before['columns']]:
            return V('columns-changed', 'refine_layers changed columns or surfaces')
        return True
    for name, poly, surf in new:
        if PG.shoelace(poly) <= 0:
            return V('degenerate-column', 'new column %r has no area / is clockwise: %r' % (name, poly))
    # tiling: every sample point of the old domain in exactly one new column, inside the old one, same surface
    import numpy as np
    bb = np.array([[min(p[0] for p in poly), min(p[1] for p in poly), max(p[0] for p in poly), max(p[1] for p in poly)] for _, poly, _ in new])
    old_by_name = dict((n, (p, s)) for n, p, s in before['columns'])
    for (pt, oldname) in sample_points(ctx.rng, before['columns']):
        idx = np.nonzero((bb[:, 0] <= pt[0]) & (pt[0] <= bb[:, 2]) & (bb[:, 1] <= pt[1]) & (pt[1] <= bb[:, 3]))[0]
        inside = [int(i) for i in idx if PG.inside(pt, new[int(i)][1])]
        near = False
        for i in idx:
            poly = new[int(i)][1]
            size = max(PG.dist(poly[k], poly[(k + 1) % len(poly)]) for k in range(len(poly)))
            if PG.distance_to_polygon_edges(pt, poly) < 1e-7 * size:
                near = True
        if near:
            continue
        ctx.count('sample_points_located')
        if len(inside) != 1:
            return V('tiling:point-in-%d-columns' % min(len(inside), 2), 'point %r of old column %r lies in %d new columns %r' % (
                pt, oldname, len(inside), [new[i][0] for i in inside]))
        nname, npoly, nsurf = new[inside[0]]
        opoly, osurf = old_by_name[oldname]
        size = max(PG.dist(opoly[k], opoly[(k + 1) % len(opoly)]) for k in range(len(opoly)))
        for v in list(npoly) + [PG.centroid(npoly)]:
            if not PG.inside(v, opoly) and PG.distance_to_polygon_edges(v, opoly) > 1e-9 * size:
                return V('tiling:new-column-not-inside-old', 'new column %r (containing a point of old column %r) has vertex %r outside it' % (nname, oldname, v))
        if nsurf != osurf:
            return V('surface-not-inherited', 'new column %r surface %r, old column %r had %r' % (nname, nsurf, oldname, osurf))
    # conformity
    ctx.count('conformity_checks')
    hn = GI.hanging_nodes(geo)
    if hn:
        return V('hanging-node', 'node in the interior of another column\'s edge: %r' % (hn[:3],))
    for kind, text in GI.mesh_validity(geo):
        return V('conformity:%s' % kind, text)
    return True


def opkind(op):
    if op[0] == 'refine':
        return 'refine' if not op[2] else 'refine[bisect=%s]%s' % (op[2], '+edge' if op[3] else '')
    return op[0]


TILING_OPS = ('refine', 'decompose', 'split_column', 'triangulate')


def do_op(ctx, geo, op, case):
    before = measure(geo)
    with ctx.guard(case, where=opkind(op)) as g:
        geoops.apply_op(geo, op)
    if g.raised is not None:
        return False
    if op[0] == 'triangulate':
        # the helper adds no connections between the new triangles itself
        for con in geo.missing_connections:
            geo.add_connection(con)
        geoops.careful_refresh(geo)
    ctx.evaluated()
    ok = check_after(ctx, geo, before, op, case, 'after:' + opkind(op), layers_only=(op[0] == 'refine_layers'))
    ctx.see('operation_kinds', opkind(op))
    return ok and (geo.num_columns - before['ncol'])


def run_bases(ctx, spec):
    light = spec.get('light', False)
    for base in spec.get('bases', geoops.BASES):
        allops = geoops.enumerate_ops(geoops.base(base), None, subset_limit=256, light=light)
        for i, o in enumerate(allops):
            if o[0] not in TILING_OPS + ('refine_layers',):
                continue
            geo = geoops.base(base)
            op = geoops.enumerate_ops(geo, None, subset_limit=256, light=light)[i]
            case = {'base': base, 'index': i, 'ops': [op], 'light': light}
            grew = do_op(ctx, geo, op, case)
            ctx.case(repr((base, i)), nontrivial=bool(grew) and grew >= 2)
            # second level on top (covers fully refined transition triangles)
            if grew and op[0] == 'refine' and i % 3 == 0:
                second = [o2 for o2 in geoops.enumerate_ops(geo, None, subset_limit=12, light=True) if o2[0] == 'refine']
                for j in range(0, len(second), max(1, len(second) // 4)):
                    g2 = geoops.base(base)
                    op1 = geoops.enumerate_ops(g2, None, subset_limit=256, light=light)[i]
                    try:
                        geoops.apply_op(g2, op1)
                    except Exception:
                        break
                    cand = [o2 for o2 in geoops.enumerate_ops(g2, None, subset_limit=12, light=True) if o2[0] == 'refine']
                    if j >= len(cand):
                        break
                    c2 = {'base': base, 'index': i, 'second_index': j, 'ops': [op1, cand[j]], 'light': light}
                    grew2 = do_op(ctx, g2, cand[j], c2)
                    ctx.case(repr((base, i, j)), nontrivial=bool(grew2))


def region(rng, geo, shape):
    cols = [c for c in geo.columnlist if c.num_nodes in (3, 4)]
    if shape == 'single':
        return [rng.choice(cols)]
    if shape == 'random':
        return [c for c in cols if rng.random() < 0.4] or [rng.choice(cols)]
    xs = sorted(set(round(c.centre[0], 6) for c in cols))
    ys = sorted(set(round(c.centre[1], 6) for c in cols))
    if shape == 'strip':
        if rng.random() < 0.5:
            x = rng.choice(xs)
            return [c for c in cols if round(c.centre[0], 6) == x]
        y = rng.choice(ys)
        return [c for c in cols if round(c.centre[1], 6) == y]
    if shape == 'L':
        x, y = rng.choice(xs), rng.choice(ys)
        return [c for c in cols if round(c.centre[0], 6) == x or round(c.centre[1], 6) == y]
    if shape == 'boundary':
        return [c for c in cols if round(c.centre[0], 6) in (xs[0], xs[-1]) or round(c.centre[1], 6) in (ys[0], ys[-1])]
    if shape == 'annulus' and len(xs) >= 3 and len(ys) >= 3:
        x, y = rng.choice(xs[1:-1]), rng.choice(ys[1:-1])
        hole = [c for c in cols if round(c.centre[0], 6) == x and round(c.centre[1], 6) == y]
        ring = set()
        for h in hole:
            for n in h.neighbour:
                ring.add(n)
                ring.update(n.neighbour)
        return [c for c in ring if c not in hole and c.num_nodes in (3, 4)] or [rng.choice(cols)]
    return [rng.choice(cols)]


def supported(geo, cols):
    adj = geoops.edge_adjacency(geo)
    nn = dict((c.name, c.num_nodes) for c in geo.columnlist)
    return all(nn[c.name] in (3, 4) and all(nn[x] in (3, 4) for x in adj[c.name]) for c in cols)


def run_rect(ctx, spec):
    rng = ctx.rng
    for it in range(spec['n']):
        geo, desc = geos.rectangular(rng, nx=rng.randint(1, 6), ny=rng.randint(1, 6), nz=rng.randint(1, 5), convention=0)
        if rng.random() < 0.4 and geo.num_connections:
            # connections stored with the column of the larger name first, as many real geometry files list them
            desc['connections_reversed_every'] = rng.choice([1, 2, 3])
            ctx.count('geometries_with_reversed_connections')
            geos.reverse_stored_connections(geo, desc['connections_reversed_every'])
        if geo.num_layers > 2 and rng.random() < 0.7:
            desc['surfaces'] = geos.set_surfaces(geo, rng, rng.choice(['inside', 'mixed', 'above', 'boundary']), frac=0.5)
        ops = []
        case = {'geo': desc, 'ops': ops, 'seed': ctx.seed, 'shard': ctx.shard, 'iteration': it}
        grew_any = 0
        for level in range(rng.randint(1, 3)):
            if geo.num_columns > 400:
                break
            shape = rng.choice(['single', 'random', 'strip', 'L', 'boundary', 'annulus', 'random'])
            cols = region(rng, geo, shape)
            if not supported(geo, cols):
                continue
            r = rng.random()
            if r < 0.5:
                op = ['refine', [c.name for c in cols], False, []]
            elif r < 0.8:
                b = rng.choice([True, 'x', 'y'])
                edge = []
                if rng.random() < 0.4:
                    adj = geoops.edge_adjacency(geo)
                    names = set(c.name for c in cols)
                    outside = sorted(set(x for c in cols for x in adj[c.name]) - names)
                    if outside:
                        edge = rng.sample(outside, min(len(outside), rng.randint(1, 2)))
                op = ['refine', [c.name for c in cols], b, edge]
            elif r < 0.9:
                quads = [c for c in geo.columnlist if c.num_nodes == 4]
                if not quads:
                    continue
                c = rng.choice(quads)
                op = ['split_column', c.name, rng.choice(c.node).name]
            else:
                op = ['triangulate', rng.choice(geo.columnlist).name]
            ops.append(op)
            ctx.see('selection_shape', shape)
            grew = do_op(ctx, geo, op, dict(case, ops=list(ops)))
            if grew is False:
                break
            grew_any += grew or 0
        ctx.case(repr((desc, ops)), nontrivial=grew_any >= 2, sample=(len(ctx.samples) < 2 and grew_any >= 2))


def run_shipped(ctx, spec):
    rng = ctx.rng
    for name in spec['names']:
        for it in range(spec['n']):
            geo = geos.load_shipped(name)
            if geo.num_columns > 250:
                seed = rng.choice(geo.columnlist)
                patch, frontier = {seed}, [seed]
                while len(patch) < 150 and frontier:
                    frontier = [n for c in frontier for n in c.neighbour if n not in patch]
                    patch.update(frontier)
                geo.reduce(list(patch))
            ops = []
            case = {'geo': {'kind': 'shipped', 'name': name}, 'ops': ops, 'seed': ctx.seed, 'shard': ctx.shard, 'iteration': it}
            for level in range(rng.randint(1, 2)):
                poly5 = [c for c in geo.columnlist if c.num_nodes > 4]
                if poly5 and rng.random() < 0.5:
                    sel = rng.sample(poly5, min(len(poly5), rng.randint(1, 4)))
                    op = ['decompose', [c.name for c in sel]]
                else:
                    seedc = rng.choice(geo.columnlist)
                    sel = [seedc] + [n for n in seedc.neighbour if rng.random() < 0.6]
                    if not supported(geo, sel):
                        continue
                    op = ['refine', [c.name for c in sel], rng.choice([False, False, True, 'x']), []]
                ops.append(op)
                if do_op(ctx, geo, op, dict(case, ops=list(ops))) is False:
                    break
            ctx.case(repr((name, ops)), nontrivial=bool(ops))


def run_decompose(ctx, spec):
    """Synthetic n-gons with straight angles at every choice of positions and every rotation of the node list."""
    import itertools
    k = 0
    for nsides in range(5, 10):
        for ns in range(0, 5):
            if nsides - ns < 3:
                continue
            for straight in itertools.combinations(range(nsides), ns):
                # two consecutive straight nodes are allowed, but each side keeps at least its two corners
                for rot in range(nsides):
                    k += 1
                    if k % spec['parts'] != spec['part'] or (k // spec['parts']) % spec['stride']:
                        continue
                    case = {'polygon': {'nsides': nsides, 'straight_at': list(straight), 'rotation': rot}}
                    with ctx.guard(case, where='build-polygon') as g:
                        geo = geoops.polygon_geometry(nsides, straight, rot)
                    if g.raised is not None:
                        continue
                    p = GI.poly(geo.columnlist[0])
                    if PG.shoelace(p) <= 0:
                        continue
                    before = measure(geo)
                    with ctx.guard(case, where='decompose') as g:
                        geo.decompose_columns()
                    if g.raised is not None:
                        continue
                    ctx.evaluated()
                    ctx.count('decompositions')
                    ok = check_after(ctx, geo, before, ['decompose', []], case, 'after:decompose[%d-gon,%d straight]' % (nsides, ns))
                    if ok and any(c.num_nodes > 4 for c in geo.columnlist):
                        ctx.violation('decompose:column-with-more-than-four-sides-left', 'columns %r still have more than four nodes' % (
                            [c.name for c in geo.columnlist if c.num_nodes > 4],), case)
                    ctx.case(repr(case), nontrivial=True)


def run_layers(ctx, spec):
    import itertools
    rng = ctx.rng
    for it in range(spec['n']):
        if it % 4 == 3:
            # a geometry as it comes from a file (its surface layer has whatever name, bottom and centre the file gives it)
            name = geos.SHIPPED[(it // 4) % len(geos.SHIPPED)]
            geo, desc = geos.load_shipped(name), {'kind': 'shipped', 'name': name}
            lays = [l.name for l in geo.layerlist[1:]]
            sel = sorted(rng.sample(lays, rng.randint(1, min(3, len(lays))))) if rng.random() < 0.7 else []
            ctx.count('layer_refinements_of_shipped_geometries')
        elif it % 8 == 5:
            # a tall stack refined as a whole: the regenerated layer names run far into the name space (in the
            # two-letter conventions past the name the surface layer itself has)
            conv = [2, 1, 2, 0][(it // 8) % 4]
            geo, desc = geos.rectangular(rng, nx=rng.randint(1, 2), ny=1, nz=rng.randint(24 if conv == 2 else 12, 30), convention=conv)
            lays = [l.name for l in geo.layerlist[1:]]
            sel = [] if rng.random() < 0.7 else lays[rng.randint(0, 5):]
            ctx.count('layer_refinements_of_tall_stacks')
        else:
            geo, desc = geos.rectangular(rng, nx=rng.randint(1, 3), ny=rng.randint(1, 3), nz=rng.randint(1, 6), convention=rng.choice([0, 0, 2]))
            if geo.num_layers > 2:
                desc['surfaces'] = geos.set_surfaces(geo, rng, rng.choice(['inside', 'mixed', 'above', 'boundary']), frac=0.6)
            lays = [l.name for l in geo.layerlist[1:]]
            subsets = [list(s) for r in range(1, len(lays) + 1) for s in itertools.combinations(lays, r)]
            sel = rng.choice(subsets)
        if desc.get('kind') != 'shipped' and rng.random() < 0.3:
            # layer centres as a geometry file may give them: anywhere inside the layer, not necessarily half-way up
            fr = rng.choice([0.3, 0.4, 0.6, 0.7])
            for lay in geo.layerlist[1:]:
                lay.centre = lay.bottom + fr * (lay.top - lay.bottom)
            desc['layer_centre_fraction'] = fr
            ctx.count('layer_refinements_with_centres_off_the_middle')
        f = rng.randint(2, 4)
        if geo.convention == 0:
            # two-digit layer names: a request for more than 99 layers is answered with the naming error (property C17)
            while len(lays) + (f - 1) * (len(sel) or len(lays)) > 99:
                if f > 2:
                    f -= 1
                else:
                    sel = (sel or lays)[:2]
        op = ['refine_layers', sel, f]
        case = {'geo': desc, 'ops': [op], 'seed': ctx.seed, 'shard': ctx.shard, 'iteration': it}
        old_layers = [(l.bottom, l.top) for l in geo.layerlist[1:]]
        ok = do_op(ctx, geo, op, case)
        if ok is not False:
            new_layers = [(l.bottom, l.top) for l in geo.layerlist[1:]]
            ctx.see('layers_after_refinement', '%d:%s' % (geo.convention, min(len(new_layers) // 10 * 10, 100)))
            if len(new_layers) != len(old_layers) + (f - 1) * (len(sel) or len(old_layers)):
                ctx.violation('layers:count', '%d layers after refining %d of %d by %d' % (len(new_layers), len(sel), len(old_layers), f), case)
            for b, t in new_layers:
                if not any(ob - 1e-9 <= b and t <= ot + 1e-9 for ob, ot in old_layers):
                    ctx.violation('layers:not-nested', 'new layer (%r, %r) is not inside an old layer' % (b, t), case)
                    break
        ctx.case(repr((desc, op)), nontrivial=True)


def run_shard(ctx, spec):
    install_probes(ctx)
    {'bases': run_bases, 'rect': run_rect, 'shipped': run_shipped, 'decompose': run_decompose, 'layers': run_layers}[spec['kind']](ctx, spec)


def replay(ctx, case):
    install_probes(ctx)
    if 'polygon' in case:
        p = case['polygon']
        geo = geoops.polygon_geometry(p['nsides'], tuple(p['straight_at']), p['rotation'])
        before = measure(geo)
        geo.decompose_columns()
        ctx.evaluated()
        check_after(ctx, geo, before, ['decompose', []], case, 'after:decompose[%d-gon,%d straight]' % (p['nsides'], len(p['straight_at'])))
    elif 'base' in case:
        geo = geoops.base(case['base'])
        op = geoops.enumerate_ops(geo, None, subset_limit=256, light=case.get('light', False))[case['index']]
        do_op(ctx, geo, op, case)
        if 'second_index' in case:
            cand = [o2 for o2 in geoops.enumerate_ops(geo, None, subset_limit=12, light=True) if o2[0] == 'refine']
            do_op(ctx, geo, cand[case['second_index']], case)
    else:
        ctx.rng.seed(case.get('seed', 0) * 1000003 + case.get('shard', 0))
        kind = 'rect' if case['geo'].get('kind') == 'rectangular' else 'shipped'
        if case['ops'] and case['ops'][0][0] == 'refine_layers':
            run_layers(ctx, {'n': case['iteration'] + 1})
        elif kind == 'rect':
            run_rect(ctx, {'n': case['iteration'] + 1})
        else:
            run_shipped(ctx, {'names': [case['geo']['name']], 'n': case['iteration'] + 1})
