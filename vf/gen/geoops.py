"""Small base geometries and editing operations (as JSON descriptors) shared by C10 and C11."""
import itertools
import math

from vf.repo import R

BASES = ['r22', 'r32', 'mixed-refined', 'mixed-pentagon', 'mixed-hexagon']

VALID_MESH_OPS = ('refine', 'decompose', 'reduce', 'bad_centre+check_fix', 'bad_layer+check_fix')


def finish(geo, dz, top, surfaces=None):
    for con in geo.missing_connections:
        geo.add_connection(con)
    geo.add_layers(dz, top)
    geo.set_default_surface()
    geo.identify_neighbours()
    if surfaces:
        for name, z in surfaces.items():
            geo.column[name].surface = z
        for c in geo.columnlist:
            geo.set_column_num_layers(c)
    geo.setup_block_name_index()
    geo.setup_block_connection_name_index()
    return geo


def hand_built(nodes, cols, dz, top, convention=0, atmos_type=2):
    """nodes: {name: (x, y)}, cols: {name: [node names, counter-clockwise]}."""
    mg = R.mulgrids
    import numpy as np
    geo = mg.mulgrid(convention=convention, atmos_type=atmos_type)
    geo.empty()
    for n, p in nodes.items():
        geo.add_node(mg.node(n, np.array([float(p[0]), float(p[1])])))
    for c, ns in cols.items():
        geo.add_column(mg.column(c, [geo.node[n] for n in ns]))
    return finish(geo, dz, top)


def base(name, atmos_type=2, convention=0, surfaces=True):
    mg = R.mulgrids
    dz = [10.0, 20.0, 30.0]
    if name == 'r22':
        geo = mg.mulgrid().rectangular([100.0, 150.0], [80.0, 120.0], dz, atmos_type=atmos_type, convention=convention, origin=[10.0, 20.0, 100.0])
    elif name == 'r32':
        geo = mg.mulgrid().rectangular([100.0, 150.0, 60.0], [80.0, 120.0], dz, atmos_type=atmos_type, convention=convention, origin=[-50.0, 0.0, 0.0])
    elif name == 'mixed-refined':
        geo = mg.mulgrid().rectangular([100.0, 150.0], [80.0, 120.0], dz, atmos_type=atmos_type, convention=convention)
        geo.refine([geo.columnlist[0]])
    elif name == 'mixed-pentagon':
        # a five-node column (one straight node) against two quadrilaterals, plus a triangle
        nodes = {'  a': (0, 0), '  b': (100, 0), '  c': (100, 50), '  d': (100, 100), '  e': (0, 100), '  f': (200, 0), '  g': (200, 50),
                 '  h': (200, 100), '  i': (50, 180)}
        cols = {'  p': ['  a', '  b', '  c', '  d', '  e'], '  q': ['  b', '  f', '  g', '  c'], '  r': ['  c', '  g', '  h', '  d'],
                '  t': ['  e', '  d', '  i']}
        geo = hand_built(nodes, cols, dz, 0.0, convention, atmos_type)
    elif name == 'mixed-hexagon':
        # a six-node column with two straight nodes (opposite sides), two quads on each side
        nodes = {'  a': (0, 0), '  b': (100, 0), '  c': (100, 60), '  d': (100, 120), '  e': (0, 120), '  f': (0, 60), '  g': (200, 0),
                 '  h': (200, 60), '  i': (200, 120), '  j': (-80, 0), '  k': (-80, 60), '  l': (-80, 120)}
        cols = {'  p': ['  a', '  b', '  c', '  d', '  e', '  f'], '  q': ['  b', '  g', '  h', '  c'], '  r': ['  c', '  h', '  i', '  d'],
                '  s': ['  j', '  a', '  f', '  k'], '  u': ['  k', '  f', '  e', '  l']}
        geo = hand_built(nodes, cols, dz, 0.0, convention, atmos_type)
    else:
        raise ValueError(name)
    if surfaces:
        # one column cut inside the second layer, one exactly on a layer boundary
        lays = geo.layerlist
        geo.columnlist[-1].surface = lays[2].bottom + 0.4 * (lays[2].top - lays[2].bottom)
        if len(geo.columnlist) > 2:
            geo.columnlist[1].surface = lays[1].bottom
        for c in geo.columnlist:
            geo.set_column_num_layers(c)
        geo.setup_block_name_index()
        geo.setup_block_connection_name_index()
    return geo


def polygon_geometry(nsides, straight_at, rotation=0):
    """A single polygon column with `nsides` nodes of which those at the local indices
    `straight_at` are straight (mid-side) nodes, surrounded by nothing; the node list is
    rotated by `rotation`.  Used for decompose_columns."""
    import numpy as np
    corners = nsides - len(straight_at)
    # corner polygon: regular-ish convex polygon
    pts = []
    k = 0
    cpts = [(100 * math.cos(2 * math.pi * i / corners + 0.3), 60 * math.sin(2 * math.pi * i / corners + 0.3)) for i in range(corners)]
    # build node list: walk local indices, straight nodes are midpoints of the side they sit on
    seq = []
    ci = 0
    for i in range(nsides):
        if i in straight_at:
            seq.append(('s', None))
        else:
            seq.append(('c', cpts[ci]))
            ci += 1
    # resolve straight nodes: between previous and next corner (several in a row share the side evenly)
    pos = [None] * nsides
    for i, (t, p) in enumerate(seq):
        if t == 'c':
            pos[i] = p
    for i, (t, p) in enumerate(seq):
        if t == 's':
            j = i
            while seq[j % nsides][0] == 's':
                j -= 1
            kk = i
            while seq[kk % nsides][0] == 's':
                kk += 1
            a, b = pos[j % nsides], pos[kk % nsides]
            n_between = (kk - j - 1)
            f = (i - j) / float(n_between + 1)
            pos[i] = (a[0] + f * (b[0] - a[0]), a[1] + f * (b[1] - a[1]))
    order = [(i + rotation) % nsides for i in range(nsides)]
    names = ['%3s' % ('n%d' % i) for i in range(nsides)]
    nodes = dict((names[i], pos[i]) for i in range(nsides))
    cols = {'  p': [names[i] for i in order]}
    return hand_built(nodes, cols, [10.0, 20.0], 0.0)


def subsets(items, limit=None, rng=None):
    items = list(items)
    if limit is None or 2 ** len(items) - 1 <= limit:
        for k in range(1, len(items) + 1):
            for s in itertools.combinations(items, k):
                yield list(s)
    else:
        seen = set()
        while len(seen) < limit:
            s = tuple(sorted(x for x in items if rng.random() < 0.5))
            if s and s not in seen:
                seen.add(s)
                yield list(s)


def edge_adjacency(geo):
    """{column name: set of names of columns sharing an edge with it}, from the polygons."""
    by_edge = {}
    for c in geo.columnlist:
        n = c.node
        for i in range(len(n)):
            by_edge.setdefault(frozenset((n[i].name, n[(i + 1) % len(n)].name)), []).append(c.name)
    adj = dict((c.name, set()) for c in geo.columnlist)
    for cols in by_edge.values():
        for a in cols:
            for b in cols:
                if a != b:
                    adj[a].add(b)
    return adj


def is_connected(names, adj):
    names = set(names)
    if not names:
        return False
    seen, todo = set(), [next(iter(names))]
    while todo:
        x = todo.pop()
        if x in seen:
            continue
        seen.add(x)
        todo += [y for y in adj[x] if y in names and y not in seen]
    return seen == names


def enumerate_ops(geo, rng, subset_limit=None, light=False):
    """All single operations applicable to `geo` (documented preconditions only), column / layer
    subsets enumerated.  The property speaks of connected geometries of supported column shapes:
    reduce / delete_column keep the mesh connected, refine is offered where the selection and the
    columns around it are all 3- or 4-sided (the only shapes refine supports)."""
    ops = []
    # canonical order: by position, never by name or list index (refine() names its new columns in set
    # iteration order, so two builds of the same geometry differ in names but not in shape); the n-th
    # operation of this list is therefore the same operation on every build
    import random
    rng = random.Random(7919 * len(geo.columnlist) + 31 * len(geo.layerlist) + (subset_limit or 0))
    ordered = sorted(geo.columnlist, key=lambda c: (round(float(c.centre[1]), 6), round(float(c.centre[0]), 6)))
    cols = [c.name for c in ordered]
    adj = edge_adjacency(geo)
    nn = dict((c.name, c.num_nodes) for c in geo.columnlist)
    refinable = [c for c in cols if nn[c] in (3, 4) and all(nn[x] in (3, 4) for x in adj[c])]
    tri_quad = refinable
    poly5 = [c for c in cols if nn[c] > 4]
    for s in subsets(tri_quad, subset_limit, rng):
        ops.append(['refine', s, False, []])
        if not light:
            for b in (True, 'x', 'y'):
                ops.append(['refine', s, b, []])
    if not light and len(tri_quad) >= 2:
        for s in list(subsets(tri_quad, 12, rng))[:12]:
            # edge columns: just outside the refinement area
            rest = [c for c in tri_quad if c not in s and adj[c] & set(s)]
            if rest:
                ops.append(['refine', s, rng.choice([True, 'x', 'y']), rest[:1]])
    if poly5:
        for s in subsets(poly5, subset_limit, rng):
            ops.append(['decompose', s])
        ops.append(['decompose', []])
    for s in subsets(cols, subset_limit, rng):
        if len(s) < len(cols) and is_connected(s, adj):
            ops.append(['reduce', s])
    for c in ordered:
        if c.num_nodes == 4:
            for n in sorted(c.node, key=lambda n: (round(float(n.pos[1]), 6), round(float(n.pos[0]), 6))):
                ops.append(['split_column', c.name, n.name])
    def fresh(k):
        # a column name not in use (renaming onto an existing name is not a legal request)
        w = len(cols[0])
        for i in range(k, 1000):
            n = ('y%d' % i)[:w].rjust(w)
            if n not in geo.column and n not in geo.node:
                return n
    ops.append(['rename_column', cols[0], fresh(0)])
    if len(cols) > 1:
        a = fresh(0)
        b = fresh(int(a.strip()[1:]) + 1)
        ops.append(['rename_columns', cols[:2], [a, b]])
        # a bulk rename whose mapping leaves a name unchanged, and a rename onto the same name (both no-ops for that column)
        ops.append(['rename_columns', cols[:2], [cols[0], a]])
    ops.append(['rename_column', cols[-1], cols[-1]])
    lays = [l.name for l in geo.layerlist[1:]]
    for s in subsets(lays, subset_limit, rng):
        for f in ((2, 3, 4) if not light else (2,)):
            ops.append(['refine_layers', s, f])
    ops.append(['refine_layers', [], 2])
    ops.append(['snap', 5.0, []])
    ops.append(['snap', 15.0, cols[:1]])
    ops.append(['snap_nearest', []])
    ops.append(['snap_nearest', cols[-1:]])
    ops.append(['rotate', 30.0])
    ops.append(['translate', [100.0, -50.0, 7.5]])
    ops.append(['copy_layers_from', [5.0, 5.0, 15.0, 40.0], 3.0])
    ops.append(['set_atmosphere_type', (geo.atmosphere_type + 1) % 3])
    ops.append(['set_block_order', 'dmplex' if not poly5 else 'layer_column'])
    ops.append(['add_well', 'w   1'])
    ops.append(['check_fix'])
    # (appended last so that the index of every operation above is what it always was)
    # the same requests with the columns / layers given by NAME instead of as objects (both are documented)
    firsts = {}
    for o in ops:
        if o[0] in ('refine', 'decompose', 'reduce', 'refine_layers', 'snap', 'snap_nearest') and o[0] not in firsts and (o[1] if o[0] != 'snap' else o[2]):
            firsts[o[0]] = o
    for k in ('refine', 'decompose', 'reduce', 'refine_layers', 'snap', 'snap_nearest'):
        if k in firsts:
            ops.append(list(firsts[k]) + ['by_name'])
    if not light:
        edge = [o for o in ops if o[0] == 'refine' and len(o) == 4 and o[3]]
        if edge:
            ops.append(list(edge[0]) + ['by_name'])
    # a geometry with a well is moved: the well goes with it
    ops.append(['well+translate', [100.0, -50.0, 7.5]])
    ops.append(['well+rotate', 30.0])
    # surface fitted to scattered data (a sloping plane inside the layer structure), all columns / a subset, with and
    # without a smallest permissible top-block thickness
    ops.append(['fit_surface', 1, 0.0, []])
    ops.append(['fit_surface', 2, 4.0, cols[:max(1, len(cols) // 2)]])
    # defects check(fix=True) promises to repair: a column centre outside its column, a layer centre outside its layer
    ops.append(['bad_centre+check_fix', cols[0]])
    ops.append(['bad_layer+check_fix', lays[-1]])
    return ops


PRIMITIVE_OPS = ('delete_column', 'triangulate', 'delete_layer', 'add_layer', 'delete_connection', 'add_connection', 'add_node', 'delete_node', 'add_column_primitive',
                 'delete_well', 'rename_layer')


def enumerate_primitives(geo, rng):
    ops = []
    adj = edge_adjacency(geo)
    ordered = sorted(geo.columnlist, key=lambda c: (round(float(c.centre[1]), 6), round(float(c.centre[0]), 6)))
    for c in ordered:
        if is_connected([x.name for x in geo.columnlist if x is not c], adj):
            ops.append(['delete_column', c.name])
    ops.append(['triangulate', ordered[0].name])
    ops.append(['triangulate', ordered[-1].name])
    lays = [l.name for l in geo.layerlist[1:]]
    if len(lays) > 1:
        ops.append(['delete_layer', lays[-1]])
        ops.append(['delete_layer', lays[0]])
    ops.append(['rename_layer', lays[0], 'zz'[:len(lays[0])].rjust(len(lays[0]))])
    cons = sorted(tuple(sorted(c.name for c in con.column)) for con in geo.connectionlist)
    if cons:
        ops.append(['delete_connection', list(cons[0])])
        ops.append(['delete+add_connection', list(cons[-1])])
        # a connection that exists already, given again (same column order): documented as adding nothing
        ops.append(['add_existing_connection', list(cons[len(cons) // 2])])
    ops.append(['add_node', 'zzn'[:geo.colname_length].rjust(geo.colname_length), [999.0, 999.0]])
    ops.append(['add+delete_node', 'zzn'[:geo.colname_length].rjust(geo.colname_length), [999.0, 999.0]])
    ops.append(['add_layer_below', 'zz'[:geo.layername_length].rjust(geo.layername_length), 25.0])
    return ops


def fit_data(geo, seed):
    """Scattered (x, y, z) data over (and a little around) the geometry: a sloping plane between the bottom of the
    second layer from the bottom and the top of the model."""
    import random
    import numpy as np
    rng = random.Random(seed)
    xs = [float(n.pos[0]) for n in geo.nodelist]
    ys = [float(n.pos[1]) for n in geo.nodelist]
    x0, x1, y0, y1 = min(xs), max(xs), min(ys), max(ys)
    top = geo.layerlist[0].bottom
    low = geo.layerlist[-1].top if len(geo.layerlist) > 2 else 0.5 * (geo.layerlist[-1].top + geo.layerlist[-1].bottom)
    pts = []
    for _ in range(80):
        x = rng.uniform(x0 - 0.05 * (x1 - x0), x1 + 0.05 * (x1 - x0))
        y = rng.uniform(y0 - 0.05 * (y1 - y0), y1 + 0.05 * (y1 - y0))
        u = (x - x0) / (x1 - x0) if x1 > x0 else 0.5
        v = (y - y0) / (y1 - y0) if y1 > y0 else 0.5
        w = min(1.0, max(0.0, 0.6 * u + 0.4 * v))
        pts.append([x, y, low + w * (top - low)])
    return np.array(pts)


def apply_op(geo, op):
    mg = R.mulgrids
    import numpy as np
    k = op[0]
    by_name = op[-1] == 'by_name'
    if by_name:
        op = op[:-1]

    def cols_of(names):
        return list(names) if by_name else [geo.column[c] for c in names]
    if k == 'refine':
        geo.refine(cols_of(op[1]), bisect=op[2], bisect_edge_columns=cols_of(op[3]))
    elif k == 'decompose':
        geo.decompose_columns(cols_of(op[1]))
    elif k == 'reduce':
        geo.reduce(cols_of(op[1]))
    elif k == 'delete_column':
        geo.delete_column(op[1])
    elif k == 'split_column':
        return geo.split_column(op[1], op[2])
    elif k == 'triangulate':
        geo.triangulate_column(op[1])
    elif k == 'rename_column':
        geo.rename_column(op[1], op[2])
    elif k == 'rename_columns':
        geo.rename_column(list(op[1]), list(op[2]))
    elif k == 'refine_layers':
        geo.refine_layers(list(op[1]) if by_name else [geo.layer[l] for l in op[1]], factor=op[2])
    elif k == 'snap':
        geo.snap_columns_to_layers(op[1], cols_of(op[2]))
    elif k == 'snap_nearest':
        geo.snap_columns_to_nearest_layers(cols_of(op[1]))
    elif k in ('well+translate', 'well+rotate'):
        c = geo.columnlist[0]
        if 'wz  9' not in geo.well:
            geo.add_well(mg.well('wz  9', [np.array([c.centre[0], c.centre[1], geo.layerlist[0].bottom]),
                                          np.array([c.centre[0], c.centre[1], geo.layerlist[-1].bottom])]))
        if k == 'well+translate':
            geo.translate(np.array(op[1]), wells=True)
        else:
            geo.rotate(op[1], wells=True)
    elif k == 'fit_surface':
        geo.fit_surface(fit_data(geo, op[1]), columns=list(op[3]), layer_snap=op[2], silent=True)
    elif k == 'bad_centre+check_fix':
        c = geo.column[op[1]]
        far = max(float(np.linalg.norm(n.pos - c.centre)) for n in c.node)
        c.centre = c.centre + np.array([3.0 * far, 2.0 * far])
        geo.check(fix=True, silent=True)
    elif k == 'bad_layer+check_fix':
        lay = geo.layer[op[1]]
        lay.centre = lay.top + 1.0
        geo.check(fix=True, silent=True)
    elif k == 'rotate':
        geo.rotate(op[1])
    elif k == 'translate':
        geo.translate(np.array(op[1]))
    elif k == 'copy_layers_from':
        # another layering of the same depth range: same top, same total depth, different subdivision (a layer structure
        # that leaves column surfaces above its top or below its bottom is not a sensible request)
        depth = geo.layerlist[0].bottom - geo.layerlist[-1].bottom
        th = [x * depth / sum(op[1]) for x in op[1]]
        other = mg.mulgrid().rectangular([10.0], [10.0], th, origin=[0.0, 0.0, geo.layerlist[0].bottom],
                                         convention=geo.convention)       # layer names must honour the same convention
        geo.copy_layers_from(other)
        # the donor geometry goes on living: whatever is done to IT afterwards must not reach the geometry that
        # copied its layers (the invariants are then evaluated on `geo`)
        other.translate(np.array([0.0, 0.0, -13.0]))
        other.rename_layer(other.layerlist[-1].name, 'zq'[:len(other.layerlist[-1].name)].rjust(len(other.layerlist[-1].name)))
    elif k == 'set_convention':
        geo.convention = op[1]
    elif k == 'set_atmosphere_type':
        geo.atmosphere_type = op[1]
    elif k == 'set_block_order':
        geo.block_order = op[1]
    elif k == 'add_well':
        c = geo.columnlist[0]
        geo.add_well(mg.well(op[1], [np.array([c.centre[0], c.centre[1], geo.layerlist[0].bottom]),
                                      np.array([c.centre[0], c.centre[1], geo.layerlist[-1].bottom])]))
    elif k == 'check_fix':
        geo.check(fix=True, silent=True)
    # primitives
    elif k == 'delete_layer':
        geo.delete_layer(op[1])
    elif k == 'rename_layer':
        geo.rename_layer(op[1], op[2])
    elif k == 'delete_connection':
        # (the orientation of a connection made by refine() depends on set iteration order)
        key = tuple(op[1]) if tuple(op[1]) in geo.connection else tuple(op[1][::-1])
        geo.delete_connection(key)
    elif k == 'delete+add_connection':
        key = tuple(op[1]) if tuple(op[1]) in geo.connection else tuple(op[1][::-1])
        con = geo.connection[key]
        geo.delete_connection(key)
        geo.add_connection(mg.connection(list(con.column)))
    elif k == 'add_existing_connection':
        key = tuple(op[1]) if tuple(op[1]) in geo.connection else tuple(op[1][::-1])
        geo.add_connection(mg.connection([geo.column[key[0]], geo.column[key[1]]]))
    elif k == 'add_node':
        geo.add_node(mg.node(op[1], np.array(op[2])))
    elif k == 'add+delete_node':
        geo.add_node(mg.node(op[1], np.array(op[2])))
        geo.delete_node(op[1])
    elif k == 'add_layer_below':
        b = geo.layerlist[-1].bottom
        geo.add_layer(mg.layer(op[1], b - op[2], b - 0.5 * op[2], b))
    else:
        raise ValueError(op)
    return None


def careful_refresh(geo):
    """What a careful caller does after using a primitive."""
    for c in geo.columnlist:
        c.neighbour = set()
    geo.identify_neighbours()
    if len(geo.layerlist) > 1:
        geo.identify_layer_tops()
    for c in geo.columnlist:
        geo.set_column_num_layers(c)
    geo.setup_block_name_index()
    geo.setup_block_connection_name_index()
