"""Seeded generator of TOUGH2 / AUTOUGH2 data-object descriptors ("cases").

A case is a plain JSON structure describing every section of a data object.  It is
consumed by three independent routines in vf/props/c01.py: build() (-> t2data through
the public API), expected() (-> the model a correct round trip must give back) and
emit_fortran() (-> the text a Fortran program would write).
"""

LIST_LENGTHS = [0, 1, 3, 4, 5, 7, 8, 9, 12, 13]


def real(rng, spec, positive=False, small=False):
    """A real that fits `spec` exactly as wide as, or narrower than, its field."""
    w, _, rest = spec.partition('.')
    w = int(w)
    typ = spec[-1]
    r = rng.random()
    if r < 0.08:
        return 0.0
    m = rng.choice([1.0, 1.5, 9.999, 1.0001, 3.14159265358979, 0.333333333333, rng.uniform(1, 10)])
    e = rng.randint(-3, 4) if small else rng.choice([-15, -12, -9, -6, -3, -1, 0, 1, 2, 3, 5, 6, 8, 10, 20])
    v = float('%.15ge%d' % (m, e))
    if not positive and rng.random() < 0.25:
        v = -v
    s = ('%' + spec) % v
    if len(s) > w:
        v = abs(v)
        s = ('%' + spec) % v
        if len(s) > w:
            v = float('%.15ge%d' % (m, rng.randint(-3, 3)))
    return v


def integer(rng, w, lo=0):
    return rng.choice([lo, 1, 2, 5, 10 ** (w - 1), 10 ** w - 1, rng.randint(lo, 10 ** w - 1)])


def block_names(rng, n):
    names, seen = [], set()
    while len(names) < n:
        r = rng.random()
        if r < 0.2:
            nm = '%s%s%d%02d' % (rng.choice('ABCxyz'), rng.choice('ABCxyz '), rng.randint(0, 9), rng.randint(0, 99))
        elif r < 0.6:
            nm = '%3s%2d' % (rng.choice([' ab', '  c', 'xyz', ' AA', 'ATM', 'b c']), rng.randint(0, 99))
        elif r < 0.8:
            nm = '%2s%3d' % (rng.choice([' a', 'bc', 'at']), rng.randint(0, 999))
        else:
            nm = '%3s%2d' % (''.join(rng.choice('abcdefgh') for _ in range(3)), rng.randint(1, 99))
        nm = own_fix(nm)
        if nm not in seen:
            seen.add(nm)
            names.append(nm)
    return names


def own_fix(n):
    if n[2].isdigit() and n[3] == ' ' and n[4].isdigit():
        return n[:3] + '0' + n[4]
    return n


def rp(rng, spec='10.3e'):
    return {'type': rng.choice([1, 3, 7, 11, 19]), 'parameters': [real(rng, spec, small=True) for _ in range(7)]}


GEN_TYPES_T2 = ['MASS', 'HEAT', 'COM1', 'COM2', 'WATE', 'AIR ', 'DELV', 'MASS', 'HEAT']
GEN_TYPES_AUT = GEN_TYPES_T2 + ['CO2 ', 'DELG', 'DELS', 'DMAK', 'FEED', 'RECH', 'TRAC', 'XINJ', 'PINJ']


def gen_case(rng, force=None):
    force = force or {}
    flav = force.get('flavour') or rng.choice(['TOUGH2', 'AUTOUGH2'])
    aut = flav == 'AUTOUGH2'
    c = {'flavour': flav}
    c['title'] = rng.choice(['', 'test model', 'A title with  two blanks and 80 columns'.ljust(80, 'x'), 'T' * 79 + 'z', '*rfp* 1-D radial flow'])
    c['simulator'] = rng.choice(['AUTOUGH2.2', 'AUTOUGH2.2EW', 'AUTOUGH2.2EWAV']) if aut else ''
    mesh = force.get('mesh') or rng.choice(['infile', 'infile', 'MESH', 'binary'])
    has = lambda p: rng.random() < p                                            # noqa: E731

    # rocks
    nrock = rng.choice([1, 2, 3, 5])
    rocks = []
    rnames = []
    while len(rnames) < nrock:
        nm = rng.choice(['rock', 'dfalt', 'ROCK', 'cap', 'atmos', 'fault', 'POMED']) + '%d' % rng.randint(0, 9)
        r = rng.random()
        if r < 0.6:
            nm = nm[:5].ljust(5, 'x')
        elif r < 0.8:
            nm = nm[:rng.randint(2, 4)].ljust(5)          # short name, trailing blanks (what a file with a short name gives)
        else:
            nm = nm[:rng.randint(2, 4)].rjust(5)          # short name, leading blanks
        if nm not in rnames and nm.strip() not in [x.strip() for x in rnames]:
            rnames.append(nm)
    for nm in rnames:
        nad = rng.choice([None, 0, 1, 2])
        rk = {'name': nm, 'nad': nad, 'density': real(rng, '10.4e', True), 'porosity': real(rng, '10.4e', True, True),
              'permeability': [real(rng, '10.4e', True) for _ in range(3)], 'conductivity': real(rng, '10.4e', True, True),
              'specific_heat': real(rng, '10.4e', True, True), 'extra': None, 'relative_permeability': None, 'capillarity': None}
        if rng.random() < 0.15:
            # a permeability component without a value (blank field of the ROCKS record): it stays absent, it is not a number
            rk['permeability'][rng.randrange(3)] = None
        if nad is not None and nad >= 1:
            keys = ['compressibility', 'expansivity', 'dry_conductivity', 'tortuosity', 'klinkenberg', 'xkd3', 'xkd4']
            rk['extra'] = dict((k, real(rng, '10.4e', True, True)) for k in keys)
            if nad >= 2:
                rk['relative_permeability'] = rp(rng)
                rk['capillarity'] = rp(rng)
        rocks.append(rk)
    c['rocks'] = rocks

    # grid
    nb = rng.choice([0, 1, 2, 3, 5, 8, 12]) if not force.get('blocks') else force['blocks']
    if mesh != 'infile' and nb == 0:
        nb = 3
    names = block_names(rng, nb)
    blocks = []
    binary = mesh == 'binary'
    for nm in names:
        centre = [real(rng, '10.3e', small=True) for _ in range(3)] if (binary or has(0.7)) else None
        blocks.append({'name': nm, 'nseq': None if binary or has(0.7) else rng.choice([1, 5, 99999]),
                       'nadd': None if binary or has(0.7) else rng.choice([1, 3, 99999]),
                       'rock': rng.choice(rnames), 'volume': real(rng, '10.4e', True),
                       'ahtx': (real(rng, '10.4e', True, True) if binary else (None if has(0.6) else real(rng, '10.4e', True, True))),
                       'pmx': (real(rng, '10.4e', True, True) if binary else (None if has(0.6) else real(rng, '10.4e', True, True))), 'centre': centre})
    c['blocks'] = blocks
    cons = []
    if nb >= 2:
        pairs = set()
        for _ in range(rng.choice([0, 1, 2, nb, 2 * nb])):
            a, b = rng.sample(names, 2)
            if (a, b) in pairs or (b, a) in pairs:
                continue
            pairs.add((a, b))
            cons.append({'block1': a, 'block2': b, 'nseq': None if binary or has(0.8) else rng.choice([1, 9]),
                         'nad1': None if binary or has(0.8) else 2, 'nad2': None if binary or has(0.8) else 3,
                         'direction': rng.randint(1, 3), 'distance': [real(rng, '10.4e', True, True), real(rng, '10.4e', True, True)],
                         'area': real(rng, '10.4e', True), 'dircos': rng.choice([0.0, -1.0, 1.0, 0.5, -0.7071068, 0.1234567]),
                         'sigma': real(rng, '10.3e', True, True) if binary else (None if has(0.7) else real(rng, '10.3e', True, True))})
    c['connections'] = cons

    # PARAM
    p = {'max_iterations': rng.choice([None, 8, 99]), 'print_level': rng.choice([None, 1, 3]),
         'max_timesteps': rng.choice([None, 100, 9999]), 'max_duration': rng.choice([None, 0, 9999]),
         'print_interval': rng.choice([None, 1, 9999]), 'option': [rng.randint(0, 9) if has(0.4) else 0 for _ in range(24)],
         'texp': None if has(0.5) else real(rng, '10.3e', True, True), 'be': None if has(0.5) else real(rng, '10.3e', True, True),
         'tstart': real(rng, '10.3e', True), 'tstop': None if has(0.3) else real(rng, '10.3e', True),
         'max_timestep': None if has(0.5) else real(rng, '10.3e', True),
         'print_block': None if (has(0.5) or not names) else rng.choice(names),
         'gravity': rng.choice([0.0, 9.81, 9.80665]), 'timestep_reduction': None if has(0.5) else real(rng, '10.4e', True, True),
         'scale': None if has(0.5) else real(rng, '10.4e', True, True),
         'relative_error': None if has(0.3) else 1e-5, 'absolute_error': None if has(0.5) else 1.0,
         'pivot': None if has(0.7) else 0.1, 'upstream_weight': None if has(0.5) else 1.0,
         'newton_weight': None if has(0.5) else 1.0, 'derivative_increment': None if has(0.5) else 1e-8}
    if aut:
        p['diff0'] = None if has(0.5) else real(rng, '10.3e', True, True)
    nts = rng.choice([0, 0, 1, 3, 7, 8, 9, 13, 16])
    if nts == 0:
        p['const_timestep'] = real(rng, '10.3e', True)
        p['timestep'] = [p['const_timestep']]
    else:
        p['const_timestep'] = -float((nts + 7) // 8)
        p['timestep'] = [real(rng, '10.4e', True) or 1.0 for _ in range(nts)]
    p['default_incons'] = [real(rng, '20.14e') for _ in range(rng.choice(LIST_LENGTHS))]
    # a default incon must not be None in the middle; zero is fine
    c['param'] = p
    c['more_option'] = [rng.randint(0, 9) for _ in range(21)] if has(0.3) else None
    c['start'] = has(0.5)
    c['noversion'] = has(0.2)
    c['rpcap'] = {'relative_permeability': rp(rng), 'capillarity': rp(rng)} if has(0.6) else None
    c['lineq'] = {'type': rng.choice([1, 2, 12]), 'epsilon': 1e-11, 'max_iterations': rng.choice([100, 9999]),
                  'gauss': rng.choice([0, 1]), 'num_orthog': rng.choice([20, 100])} if (aut and has(0.6)) else None
    c['solver'] = {'type': rng.randint(1, 6), 'z_precond': rng.choice(['Z0', 'Z1', 'Z4']), 'o_precond': rng.choice(['O0', 'O2', 'O4']),
                   'relative_max_iterations': 0.1, 'closure': 1e-6} if (not aut and has(0.5)) else None
    if has(0.6):
        m = {'num_components': rng.randint(1, 3), 'num_equations': rng.randint(1, 4), 'num_phases': rng.randint(1, 3),
             'num_secondary_parameters': rng.choice([6, 8])}
        if aut:
            m['eos'] = rng.choice(['EW', 'EWAV', 'EWC', 'W'])
        elif has(0.5):
            m['num_inc'] = rng.randint(1, 4)
        c['multi'] = m
    else:
        c['multi'] = None
    if has(0.5):
        nt = rng.choice(LIST_LENGTHS[1:])
        c['times'] = {'num_times_specified': nt, 'num_times': rng.choice([None, nt, nt + 5]), 'max_timestep': None if has(0.5) else 1e6,
                      'time_increment': None if has(0.5) else 1e5, 'time': sorted(real(rng, '10.4e', True) for _ in range(nt))}
    else:
        c['times'] = None
    if has(0.3):
        nl = rng.randint(0, 2)
        c['selection'] = {'integer': [nl] + [rng.choice([None, 0, 1, 5, 99999]) for _ in range(15)],
                          'float': [real(rng, '10.3e', small=True) if has(0.8) else None for _ in range(8 * nl)]}
    else:
        c['selection'] = None
    if c['multi'] and has(0.5):
        c['diffusion'] = [[real(rng, '10.3e', True, True) for _ in range(c['multi']['num_phases'])] for _ in range(c['multi']['num_components'])]
    else:
        c['diffusion'] = None

    # meshmaker
    mm = []
    if has(0.35):
        for _ in range(rng.randint(1, 2)):
            k = rng.choice(['rz2d', 'xyz', 'minc'])
            if k == 'rz2d':
                subs = []
                for _ in range(rng.randint(0, 3)):
                    s = rng.choice(['radii', 'equid', 'logar'])
                    if s == 'radii':
                        subs.append(['radii', {'radii': [real(rng, '10.4e', True, True) for _ in range(rng.choice(LIST_LENGTHS[1:]))]}])
                    elif s == 'equid':
                        subs.append(['equid', {'nequ': rng.randint(1, 99), 'dr': real(rng, '10.4e', True, True)}])
                    else:
                        subs.append(['logar', {'nlog': rng.randint(1, 99), 'rlog': real(rng, '10.4e', True, True), 'dr': real(rng, '10.4e', True, True)}])
                subs.append(['layer', {'layer': [real(rng, '10.4e', True, True) or 1.0 for _ in range(rng.choice(LIST_LENGTHS[1:]))]}])
                mm.append(['rz2d', subs])
            elif k == 'xyz':
                subs = []
                for ax in rng.sample(['NX', 'NY', 'NZ'], rng.randint(1, 3)):
                    if has(0.5):
                        subs.append({'ntype': ax, 'no': rng.randint(1, 50), 'del': real(rng, '10.4e', True, True) or 2.0})
                    else:
                        n = rng.choice(LIST_LENGTHS[1:])
                        subs.append({'ntype': ax, 'no': n, 'del': 0.0, 'deli': [real(rng, '10.4e', True, True) or 1.0 for _ in range(n)]})
                mm.append(['xyz', [rng.choice([0.0, 30.0, 90.0])] + subs])
            else:
                nv = rng.randint(1, 9)
                mm.append(['minc', {'type': rng.choice(['ONE-D', 'TWO-D', 'THRED', 'STANA']), 'dual': rng.choice(['     ', 'DFLT ', 'MMVER', 'MMALL']),
                                    'num_continua': nv + 1, 'where': rng.choice(['OUT ', 'IN  ']),
                                    'spacing': [real(rng, '10.4e', True, True) or 1.0 for _ in range(rng.randint(1, 3))],
                                    'vol': [real(rng, '10.4e', True, True) or 0.5 for _ in range(nv)]}])
    c['meshmaker'] = mm

    # generators
    gens = []
    if names and has(0.7):
        keys = set()
        dup_keys = has(0.15)
        for _ in range(rng.choice(LIST_LENGTHS[1:6])):
            blk = rng.choice(names)
            gname = own_fix('%3s%2d' % (rng.choice(['wel', 'inj', ' ab', 'SS ']), rng.randint(0, 99)))
            if dup_keys and gens and has(0.4):
                # a second generator in the same block under the same name (an unnamed MASS plus an unnamed HEAT source is
                # ordinary TOUGH2 input): both are records of the deck, both must survive
                g0 = gens[-1] if has(0.5) else rng.choice(gens)
                blk, gname = g0['block'], g0['name']
            if (blk, gname) in keys and not dup_keys:
                continue
            keys.add((blk, gname))
            gtype = rng.choice(GEN_TYPES_AUT if aut else GEN_TYPES_T2)
            g = {'block': blk, 'name': gname, 'nseq': None if has(0.8) else 2, 'nadd': None if has(0.8) else 1,
                 'nads': None if has(0.8) else 1, 'type': gtype, 'ltab': None, 'itab': '', 'gx': real(rng, '10.3e'),
                 'ex': None if has(0.4) else real(rng, '10.3e', True), 'hg': None if has(0.7) else real(rng, '10.3e', True),
                 'fg': None if has(0.8) else real(rng, '10.3e', True), 'time': [], 'rate': [], 'enthalpy': []}
            if gtype.strip() == 'DELV':
                g['ltab'] = rng.choice([None, 1, 3])
            elif has(0.5):
                nt = rng.randint(1, 12)
                g['ltab'] = nt
                if nt > 1:
                    g['time'] = sorted(real(rng, '14.7e', True) for _ in range(nt))
                    g['rate'] = [real(rng, '14.7e') for _ in range(nt)]
                    if has(0.5):
                        g['itab'] = rng.choice(['x', '1', 'E'])
                        g['enthalpy'] = [real(rng, '14.7e', True) for _ in range(nt)]
                    if has(0.25):
                        # the table length is |LTAB|: a negative count is documented input
                        g['ltab'] = -nt
            gens.append(g)
    c['generators'] = gens
    c['duplicate_generator_keys'] = len(set((g['block'], g['name']) for g in gens)) < len(gens)

    infile = mesh == 'infile'
    # short output (AUTOUGH2, in-file mesh only)
    c['short'] = None
    if aut and infile and names and has(0.4):
        sh = {}
        if has(0.7):
            sh['frequency'] = rng.choice([1, 5, 99])
        if has(0.7):
            sh['block'] = rng.sample(names, rng.randint(0, min(4, len(names))))
        if has(0.6):
            sh['connection'] = [[k['block1'], k['block2']] for k in rng.sample(cons, rng.randint(0, min(3, len(cons))))]
        if has(0.6):
            sh['generator'] = [[g['block'], g['name']] for g in rng.sample(gens, rng.randint(0, min(3, len(gens))))]
        if sh:
            c['short'] = sh
    # history requests
    hb = rng.sample(names, rng.randint(1, min(4, len(names)))) if (names and has(0.4)) else []
    hc = [[k['block1'], k['block2']] for k in rng.sample(cons, rng.randint(1, min(3, len(cons))))] if (cons and has(0.4)) else []
    hg = rng.sample(names, rng.randint(1, min(3, len(names)))) if (names and has(0.3)) else []
    if not infile:
        # with the mesh in a file of its own the requests are read before any block exists and are kept as plain names
        # (short-output items have no such form: they stay with in-file meshes); every other such deck carries them
        if not has(0.5):
            hb, hc, hg = [], [], []
    c['history_block'], c['history_connection'], c['history_generator'] = hb, hc, hg
    # incon / indom
    inc = {}
    if names and has(0.4):
        for nm in rng.sample(names, rng.randint(1, len(names))):
            e = [None if has(0.3) else real(rng, '15.9e', True, True), [real(rng, '20.14e') for _ in range(rng.randint(1, 4))]]
            if len(e[1]) >= 3 and has(0.25):
                e[1][rng.randint(0, len(e[1]) - 2)] = None          # an absent value that is not the last one
            if has(0.3):
                e += [rng.choice([1, 7]), rng.choice([1, 3])]
            inc[nm] = e
    c['incon'] = inc
    c['indom'] = dict((nm, [real(rng, '20.13e') for _ in range(rng.randint(1, 4))]) for nm in rng.sample(rnames, rng.randint(1, len(rnames)))) if has(0.3) else {}
    for nm, vals in c['indom'].items():
        if len(vals) >= 3 and has(0.25):
            vals[rng.randint(0, len(vals) - 2)] = None
    c['end_keyword'] = rng.choice(['ENDCY', 'ENDCY', 'ENDFI'])
    xp = []
    echo = False
    if aut and has(0.5):
        xp = sorted(rng.sample(['ROCKS', 'ELEME', 'CONNE', 'RPCAP', 'GENER'], rng.randint(1, 5)),
                    key=['ROCKS', 'ELEME', 'CONNE', 'RPCAP', 'GENER'].index) if has(0.6) else True
        if xp is not True:
            # the companion file is read as a whole before the main file: a section in it can only
            # refer to what is in it too (blocks need their rock types, connections their blocks)
            if 'CONNE' in xp and 'ELEME' not in xp:
                xp.remove('CONNE')
            if 'ELEME' in xp and 'ROCKS' not in xp:
                xp = [x for x in xp if x not in ('ELEME', 'CONNE')]
            if mesh != 'infile':
                # the mesh has one source only: the external mesh file
                xp = [x for x in xp if x not in ('ELEME', 'CONNE')]
            if not xp:
                xp = ['ROCKS']
        elif mesh == 'binary' or has(0.5):
            xp = ['ROCKS', 'RPCAP', 'GENER']
        # (else: all sections asked for with True although the mesh goes to a MESH file: the companion file then holds the
        #  blocks and connections too, the main file cannot echo them)
        echo = has(0.4)
    if xp:
        # only sections that hold data can be told apart in the companion file
        lst = ['ROCKS', 'ELEME', 'CONNE', 'RPCAP', 'GENER'] if xp is True else list(xp)
        if mesh != 'infile' and not (xp is True and mesh == 'MESH'):
            lst = [x for x in lst if x not in ('ELEME', 'CONNE')]
        if not c['rpcap']:
            lst = [x for x in lst if x != 'RPCAP']
        if not gens:
            lst = [x for x in lst if x != 'GENER']
        if not cons:
            lst = [x for x in lst if x != 'CONNE']
        if not blocks:
            lst = [x for x in lst if x not in ('ELEME', 'CONNE')]
        as_true = xp is True and mesh in ('infile', 'MESH')
        xp = lst
        if not xp:
            echo = False
    if force.get('extra_precision') is not None:
        xp, echo = force['extra_precision'], force.get('echo', False)
    c['config'] = {'mesh': mesh, 'extra_precision': xp, 'echo': echo}
    # how the caller asks for it: by listing the sections, or simply with True (all sections; those without data are not written)
    c['config']['extra_precision_as_true'] = bool(xp) and locals().get('as_true', False)
    return c
