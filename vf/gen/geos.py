"""Seeded generators of MULgraph geometries shared by several properties."""
import os

from vf.core import REPO
from vf.repo import R

SHIPPED = ['g1', 'g2', 'g3', 'g4', 'g5', 'g6', 'g7']


def shipped_path(name):
    return os.path.join(REPO, 'tests', 'mulgrid', name + '.dat')


def load_shipped(name):
    return R.mulgrids.mulgrid(shipped_path(name))


def refresh(geo):
    """What a careful caller does after touching surfaces by hand."""
    for col in geo.columnlist:
        geo.set_column_num_layers(col)
    geo.setup_block_name_index()
    geo.setup_block_connection_name_index()


def set_surfaces(geo, rng, mode, frac=0.5):
    """Gives a random subset of columns a non-default surface.
    mode: 'inside' (strictly inside some layer), 'boundary' (exactly on a layer
    boundary), 'above' (above the top of the model), 'mixed'."""
    lays = geo.layerlist
    top = lays[0].bottom
    nl = len(lays) - 1
    desc = {}
    for col in geo.columnlist:
        if rng.random() > frac:
            continue
        m = mode if mode != 'mixed' else rng.choice(['inside', 'inside', 'boundary', 'above'])
        if m == 'above':
            z = top + rng.uniform(0.5, 30.0)
        else:
            # which layer the surface falls in: never the bottom one's bottom
            k = rng.randint(1, max(1, nl - 1)) if nl > 1 else 1
            lay = lays[k]
            if m == 'boundary' and k > 1:
                z = lay.top
            else:
                z = lay.bottom + rng.uniform(0.15, 0.85) * (lay.top - lay.bottom)
        col.surface = z
        desc[col.name] = z
    refresh(geo)
    return desc


def rectangular(rng, nx=None, ny=None, nz=None, convention=None, atmos_type=None, origin=None, block_order=None,
                max_n=6, spacing=(10., 200.), thickness=(5., 80.)):
    mg = R.mulgrids
    nx = nx or rng.randint(1, max_n)
    ny = ny or rng.randint(1, max_n)
    nz = nz or rng.randint(1, 6)
    dx = [round(rng.uniform(*spacing), 2) for _ in range(nx)]
    dy = [round(rng.uniform(*spacing), 2) for _ in range(ny)]
    dz = [round(rng.uniform(*thickness), 2) for _ in range(nz)]
    convention = rng.randint(0, 2) if convention is None else convention
    atmos_type = rng.randint(0, 2) if atmos_type is None else atmos_type
    if origin is None:
        origin = [round(rng.uniform(-5000, 5000), 2), round(rng.uniform(-5000, 5000), 2), round(rng.uniform(-500, 1500), 2)]
        if rng.random() < 0.25:
            # coordinates that are exactly zero: the default origin (top of the model at elevation 0), a column centred
            # on an axis, a layer centred on elevation zero
            k = rng.randint(0, 3)
            if k == 0:
                origin = [0.0, 0.0, 0.0]
            else:
                dx[0], dy[0], dz[0] = float(2 * rng.randint(3, 90)), float(2 * rng.randint(3, 90)), float(2 * rng.randint(2, 30))
                origin = [-dx[0] / 2 if k in (1, 3) else origin[0], -dy[0] / 2 if k in (2, 3) else origin[1], dz[0] / 2 if k == 3 else origin[2]]
    geo = mg.mulgrid().rectangular(dx, dy, dz, convention=convention, atmos_type=atmos_type, origin=origin,
                                   block_order=block_order)
    desc = {'kind': 'rectangular', 'dx': dx, 'dy': dy, 'dz': dz, 'convention': convention, 'atmos_type': atmos_type,
            'origin': origin, 'block_order': block_order}
    return geo, desc


def reverse_stored_connections(geo, every):
    """The same geometry as a file listing every `every`-th connection with its two columns the other way round would
    give it (connection objects and the dictionary key both turned)."""
    n = 0
    for i, con in enumerate(geo.connectionlist):
        if i % every == 0:
            con.column.reverse()
            n += 1
    geo.connection = dict((tuple(c.name for c in con.column), con) for con in geo.connectionlist)
    geo.setup_block_connection_name_index()
    return n


def rebuild(desc):
    """Geometry from a descriptor produced by the generators here (for replay)."""
    mg = R.mulgrids
    if desc['kind'] == 'rectangular':
        geo = mg.mulgrid().rectangular(desc['dx'], desc['dy'], desc['dz'], convention=desc['convention'],
                                       atmos_type=desc['atmos_type'], origin=desc['origin'],
                                       block_order=desc.get('block_order'))
    elif desc['kind'] == 'shipped':
        geo = load_shipped(desc['name'])
        if desc.get('atmos_type') is not None:
            geo.atmosphere_type = desc['atmos_type']
    else:
        raise ValueError(desc)
    if desc.get('connections_reversed_every'):
        reverse_stored_connections(geo, desc['connections_reversed_every'])
    for name, z in (desc.get('surfaces') or {}).items():
        geo.column[name].surface = z
    if desc.get('surfaces'):
        refresh(geo)
    if desc.get('permute'):
        # the same geometry as a file listing its columns / connections in another order
        # and orientation would give it
        pm = desc['permute']
        if pm.get('columns_reversed'):
            geo.columnlist.reverse()
        k = pm.get('reverse_every', 0)
        if k:
            for i, con in enumerate(geo.connectionlist):
                if i % k == 0:
                    con.column.reverse()
            geo.connectionlist.reverse()
            geo.connection = dict((tuple(c.name for c in con.column), con) for con in geo.connectionlist)
        geo.setup_block_name_index()
        geo.setup_block_connection_name_index()
    return geo
