"""pytest plugin: run the repository's own tests with the global monitors on.

    cd /repo/tests && PYTHONPATH=/verif:/verif/.deps VERIF_REPO=/repo \
        /venv/bin/python -m pytest -q -p no:cacheprovider -p vf.pytest_plugin

The monitors are the ones the checks use: icontract post-conditions on
fix_/unfix_blockname (C17), the record slicer on write_values_to_string (C02), the
t2grid invariants at the quiescent points of every public t2grid mutator (C08) and
the mulgrid invariants at the quiescent points of the compound mulgrid operations
(C10; the add_/delete_ primitives are not monitored here, see known_findings.json).
Nothing is asserted inside the tests; what the monitors saw is printed at the end
and written to $VERIF_PLUGIN_OUT (JSON) if set.
"""
import json
import os
import sys

from vf import contracts, monitors
from vf.repo import R

SEEN = {'violations': []}
COMPOUND = ['refine', 'refine_layers', 'decompose_columns', 'reduce', 'split_column', 'rename_column', 'rename_layer',
            'snap_columns_to_layers', 'snap_columns_to_nearest_layers', 'fit_surface', 'rotate', 'translate', 'copy_layers_from',
            'rectangular', 'read', 'check']
GRID = ['add_rocktype', 'delete_rocktype', 'clean_rocktypes', 'rename_rocktype', 'add_block', 'delete_block', 'demote_block',
        'add_connection', 'delete_connection', 'reorder', 'rename_blocks', 'minc', 'fromgeo', '__add__', 'embed', 'check',
        'sort_rocktypes', 'empty']


def pytest_configure(config):
    from vf.oracle import gridmodel as GM, geoinv as GI
    contracts.install_name_contracts(R)

    def report(key, what, case):
        SEEN['violations'].append(('C02', key, what[:300]))
    SEEN['records'] = monitors.RecordMonitor(R.fixed_format_file, report)

    tick = {'n': 0}

    def due(size):
        # the invariants cost O(size): on big objects (files read item by item) evaluate every (size/100)-th time
        tick['n'] += 1
        return size <= 200 or tick['n'] % (size // 100) == 0

    def grid_inv(g, mname):
        if not due(len(g.blocklist) + len(g.connectionlist)):
            SEEN['skipped_big'] = SEEN.get('skipped_big', 0) + 1
            return
        for kind, text in GM.grid_invariants(g):
            SEEN['violations'].append(('C08', 'grid:%s:after:%s' % (kind, mname), text[:300]))
    contracts.quiescent(R.t2grids.t2grid, GRID, grid_inv, 't2grid-quiescent', result_only=('__add__', 'embed'))

    def geo_inv(g, mname):
        if not due(len(g.columnlist) * max(1, len(g.layerlist))):
            SEEN['skipped_big'] = SEEN.get('skipped_big', 0) + 1
            return
        try:
            bad = GI.geo_invariants(g, promised_valid=False)
        except Exception as e:                     # a geometry a test builds by hand may be unfinished
            SEEN.setdefault('oracle_errors', []).append('%s after %s' % (type(e).__name__, mname))
            return
        for kind, text in bad:
            SEEN['violations'].append(('C10', '%s:after:%s' % (kind, mname), text[:300]))
    contracts.quiescent(R.mulgrids.mulgrid, COMPOUND, geo_inv, 'mulgrid-quiescent', result_only=('rectangular',))


def pytest_terminal_summary(terminalreporter):
    rec = contracts.REC
    out = {'contract_evaluations': dict(rec.evaluations), 'records_sliced': SEEN['records'].records,
           'contract_failures': [(n, w[:300]) for n, w, a in rec.failures] if hasattr(rec, 'failures') else [],
           'violations': SEEN['violations'], 'oracle_errors': SEEN.get('oracle_errors', []),
           'evaluations_skipped_on_big_objects': SEEN.get('skipped_big', 0)}
    tw = terminalreporter
    tw.write_line('')
    tw.write_line('vf monitors: evaluations %r, records sliced %d' % (out['contract_evaluations'], out['records_sliced']))
    keys = {}
    for p, k, w in out['violations']:
        keys.setdefault((p, k), []).append(w)
    for (p, k), ws in sorted(keys.items()):
        tw.write_line('vf monitors: %s %s x%d :: %s' % (p, k, len(ws), ws[0][:200]))
    for n, w in out['contract_failures'][:10]:
        tw.write_line('vf monitors: contract %s :: %s' % (n, w[:200]))
    if out['oracle_errors']:
        tw.write_line('vf monitors: oracle could not judge %d states: %r' % (len(out['oracle_errors']), sorted(set(out['oracle_errors']))[:5]))
    p = os.environ.get('VERIF_PLUGIN_OUT')
    if p:
        with open(p, 'w') as f:
            json.dump(out, f, indent=1, default=str)
