"""Reusable online monitors that several properties share."""
from vf.oracle import columns as C
from vf import probes


def judge_record(kind, names, specs, vals, line, focus=None):
    """Decide one written record against own column arithmetic.

    Returns a list of (mechanism key, description).  `line` is the string the
    writer produced.  `focus` (field index) only labels the key.
    """
    out = []
    fields, total = C.layout(names, specs)
    vals = list(vals)
    if len(vals) > len(fields) and any(v is not None for v in vals[len(fields):]):
        out.append(('value-dropped', '%s: %d values given, record has formats for %d: %r never reach the line' % (
            kind, len(vals), len(fields), vals[len(fields):])))
        vals = vals[:len(fields)]
    if len(vals) < len(fields):
        # the writer is given fewer values than the record has fields (e.g. the last,
        # partly filled line of a list): the record ends with the last value given
        fields = fields[:len(vals)]
        total = fields[-1].end if fields else 0
    over = [i for i, (f, v) in enumerate(zip(fields, vals))
            if v is not None and f.typ != 'x' and not C.fits(f, v)]
    if len(line) != total:
        out.append(('record-length:%s' % ('overflowing-value' if over else 'fitting-values'),
                    '%s: line is %d columns, format says %d: %r' % (kind, len(line), total, line)))
    for i, (f, v) in enumerate(zip(fields, vals)):
        text = line[f.start:f.end]
        rk, rv = C.read_slice(f, text)
        if i in over:
            # the over-wide value itself: reduced precision is the only acceptable content
            if C.is_real(f):
                if rk != 'real' or not (abs(rv - v) <= 0.5 * abs(v) or rv == v):
                    out.append(('overflow-field-corrupt:%s' % f.typ,
                                '%s.%s: %r does not fit %s, field holds %r' % (kind, f.name, v, f.spec, text)))
            else:
                out.append(('overflow-not-loud:%s' % f.typ,
                            '%s.%s: %r does not fit %s and the write did not fail (field holds %r)' % (kind, f.name, v, f.spec, text)))
            continue
        where = 'neighbour-of-overflow' if over else 'plain'
        if v is None or f.typ == 'x':
            if text.strip():
                out.append(('blank-field-not-blank:%s' % where, '%s.%s: absent value but field holds %r' % (kind, f.name, text)))
        elif f.typ == 's':
            if not C.name_equal(str(v), text, f):
                out.append(('name-field:%s' % where, '%s.%s: wrote %r, field holds %r' % (kind, f.name, v, text)))
        elif f.typ == 'd':
            if rk != 'int' or rv != int(v):
                out.append(('int-field:%s' % where, '%s.%s: wrote %r, field holds %r' % (kind, f.name, v, text)))
        else:
            if rk != 'real' or not C.same_real(rv, C.expected_value(f, v)):
                out.append(('real-field:%s' % where, '%s.%s: wrote %r (prints %r), field holds %r' % (
                    kind, f.name, v, C.nominal_text(f, v), text)))
    return out


def must_fail_loudly(names, specs, vals):
    """True when some value cannot be represented in its columns even with reduced
    precision (integers, and reals whose shortest rendering is too wide)."""
    fields, _ = C.layout(names, specs)
    for f, v in zip(fields, vals):
        if v is None or f.typ == 'x' or C.fits(f, v):
            continue
        if f.typ == 'd':
            return True
        if C.is_real(f) and not C.can_fit_with_less_precision(f, v):
            return True
    return False


class RecordMonitor(object):
    """sys.monitoring probe on fixed_format_file.write_values_to_string: every
    record any workload writes is re-sliced by own column arithmetic."""

    def __init__(self, ff_module, report):
        self.report = report          # report(key, what, case)
        self.records = 0
        self.stack = []
        cls = ff_module.fixed_format_file
        probes.on_call(cls.write_values_to_string, self._start)
        probes.on_return(cls.write_values_to_string, self._ret)

    def _start(self, loc):
        del self.stack[:]     # not recursive: a left-over entry is a call that raised
        self.stack.append((loc.get('self'), list(loc.get('vals') or []), loc.get('linetype')))

    def _ret(self, loc, line):
        if not self.stack:
            return
        obj, vals, kind = self.stack.pop()
        self.records += 1
        try:
            names, specs = obj.specification[kind]
        except Exception:
            return
        if any(isinstance(v, str) and f[-1] == 's' and len(v) > abs(int(f[:-1].partition('.')[0])) for v, f in zip(vals, specs)):
            return   # over-long names are outside the property's quantifier
        for key, what in judge_record(kind, names, specs, vals, line):
            self.report(key, what, {'record': kind, 'values': vals})
