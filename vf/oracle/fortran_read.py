"""Reference reader for numbers printed by Fortran in a fixed-width field.

Written from the Fortran input-editing rules (E/D/F editing, BN blank handling)
and from the statement of property C16 -- never from fixed_format_file.py.

`ref_float(s, blank)` returns (kind, value):
  ('value', v)  the reader must return exactly v (NaN matches NaN)
  ('nan', None) the reader must return NaN
  ('any', alts) the statement does not fix the result: the reader must not
                raise and must return a float; `alts` is informational
`ref_int` likewise with None in place of NaN.
"""
import math

DIGITS = '0123456789'
NUMBER_CHARS = set(DIGITS + '+-.eEdD ')


def _py_float(s):
    try:
        return True, float(s)
    except (ValueError, OverflowError):
        return False, None


def _py_int(s):
    try:
        return True, int(s)
    except ValueError:
        return False, None


def _scan_digits(t, i):
    j = i
    while j < len(t) and t[j] in DIGITS:
        j += 1
    return j


def parse_fortran_real(t):
    """Recursive-descent recognizer of  [sign] mantissa [exponent]  on a string
    without blanks.  Returns (sign, int digits, frac digits, exponent int) or None."""
    i = 0
    sign = ''
    if i < len(t) and t[i] in '+-':
        sign = t[i]
        i += 1
    j = _scan_digits(t, i)
    ip = t[i:j]
    i = j
    fp = ''
    if i < len(t) and t[i] == '.':
        j = _scan_digits(t, i + 1)
        fp = t[i + 1:j]
        i = j
    if not ip and not fp:
        return None
    ex = 0
    if i < len(t):
        letter = False
        if t[i] in 'eEdD':
            letter = True
            i += 1
        esign = ''
        if i < len(t) and t[i] in '+-':
            esign = t[i]
            i += 1
        elif not letter:
            return None           # exponent without letter needs its sign
        j = _scan_digits(t, i)
        if j == i:
            return None
        ex = int(esign + t[i:j])
        i = j
    if i != len(t):
        return None
    return sign, ip, fp, ex


def real_value(parsed):
    sign, ip, fp, ex = parsed
    # correctly rounded decimal -> binary conversion is delegated to float() on a
    # canonical rendering built from the parse (no blanks, letter e, explicit sign)
    return float('%s%s.%se%d' % (sign, ip or '0', fp or '0', ex))


def ref_float(s, blank=0.0):
    ok, v = _py_float(s)
    if ok:
        return 'value', v
    t = s.strip()
    if not t:
        return 'value', blank
    u = t.replace(' ', '')
    parsed = parse_fortran_real(u)
    if parsed is not None:
        try:
            return 'value', real_value(parsed)
        except (ValueError, OverflowError):
            return 'any', None
    if any(c not in NUMBER_CHARS and c != '_' for c in t):
        # a character that cannot occur in a number.  ('_' is left unconstrained:
        # Python's own conversion accepts it between digits, so the statement's
        # "whatever Python accepts" and "cannot occur in a number" clauses collide.)
        ok2, v2 = _py_float(u.lower().replace('d', 'e'))
        if ok2:
            # e.g. 'i n f', '1_0 0': blank removal makes it acceptable to Python;
            # the statement's clauses pull both ways -> either answer
            return 'any', v2
        return 'nan', None
    # only number characters, but not a well-formed number: statement only
    # demands that the reader does not raise
    return 'any', None


def parse_fortran_int(t):
    i = 0
    if i < len(t) and t[i] in '+-':
        i += 1
    j = _scan_digits(t, i)
    if j == i or j != len(t):
        return None
    return int(t)


def ref_int(s, blank=0):
    ok, v = _py_int(s)
    if ok:
        return 'value', v
    t = s.strip()
    if not t:
        return 'value', blank
    u = t.replace(' ', '')
    if len(u) > 4000:
        return 'any', None
    p = parse_fortran_int(u)
    if p is not None:
        return 'value', p
    if any(c not in set(DIGITS + '+- _') for c in t):
        ok2, v2 = _py_int(u)
        if ok2:
            return 'any', v2
        return 'none', None
    return 'any', None


def same_float(a, b):
    if isinstance(a, float) and isinstance(b, float):
        if a != a and b != b:
            return True
        return a == b and math.copysign(1, a) == math.copysign(1, b)
    return a is b or a == b
