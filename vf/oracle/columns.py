"""Own column arithmetic for fixed-width records.

Everything here is derived from the *spec strings* ('10.4e', '5d', '-4s', '5x')
by this module's own parser; nothing is taken from fixed_format_file.line_spec.
"""
import math
import re

_SPEC = re.compile(r'^(-?)(\d+)(?:\.(\d+))?([a-zA-Z])$')


class Field(object):
    __slots__ = ('name', 'spec', 'left', 'width', 'prec', 'typ', 'start', 'end')

    def __repr__(self):
        return '%s[%s@%d:%d]' % (self.name, self.spec, self.start, self.end)


def layout(names, specs):
    fields = []
    pos = 0
    for name, spec in zip(names, specs):
        m = _SPEC.match(spec)
        if not m:
            raise ValueError('unparsable spec %r' % spec)
        f = Field()
        f.name, f.spec = name, spec
        f.left = m.group(1) == '-'
        f.width = int(m.group(2))
        f.prec = int(m.group(3)) if m.group(3) is not None else None
        f.typ = m.group(4)
        f.start, f.end = pos, pos + f.width
        pos = f.end
        fields.append(f)
    return fields, pos


def is_real(f):
    return f.typ in 'efg'


def nominal_text(f, v):
    """Text a C-style formatter produces for value v in field f (may be too wide)."""
    if v is None or f.typ == 'x':
        return ' ' * f.width
    return ('%' + f.spec) % v


def fits(f, v):
    return len(nominal_text(f, v)) <= f.width


def minimal_real_text(f, v):
    """Shortest rendering that still is this number in this notation."""
    if f.typ == 'f':
        return '%.0f' % v
    return '%.0e' % v


def can_fit_with_less_precision(f, v):
    return len(minimal_real_text(f, v)) <= f.width


def expected_value(f, v):
    """What the field must parse back to when the nominal text fits."""
    if v is None or f.typ == 'x':
        return None
    if is_real(f):
        return float(nominal_text(f, v))
    if f.typ == 'd':
        return int(v)
    return str(v)


def read_slice(f, text):
    """Own reading of a slice: (kind, value) with kind in blank/int/real/str/bad."""
    if f.typ == 'x':
        return 'blank', None
    if f.typ == 's':
        return 'str', text
    if not text.strip():
        return 'blank', None
    try:
        if f.typ == 'd':
            return 'int', int(text)
        return 'real', float(text)
    except ValueError:
        return 'bad', text


def same_real(a, b):
    if a is None or b is None:
        return a is b
    if isinstance(a, float) and isinstance(b, float) and a != a and b != b:
        return True
    return a == b


def name_equal(written, parsed, f):
    """Names: exact when full width, else equal after stripping the padding."""
    if parsed is None:
        return False
    if len(written) == f.width:
        return parsed == written
    return parsed.strip() == written.strip() and len(parsed) == f.width


def width_filling(f, rng=None, alt=0):
    """A value whose nominal rendering fills the field completely."""
    if f.typ == 'x':
        return None
    if f.typ == 's':
        return ('XYZWVUTSRQ' * 10)[alt:alt + f.width]
    if f.typ == 'd':
        return 10 ** f.width - 1 if f.width < 3 or not alt else -(10 ** (f.width - 1) - 1)
    # reals: search the exponent that makes the text exactly as wide as the field
    for v in (1.2345678901234567e+10, 9.8765432109876543e-10, -1.2345678901234567e+10, 1.2345678901234567e+100,
              123456789.87654321, 12345678.987654321, 1234567.8987654321, 123456.78987654321, 12345.678987654321,
              1234.5678987654321, 123.45678987654321, 12.345678987654321, 1.2345678987654321, -1.2345678987654321):
        if len(nominal_text(f, v)) == f.width:
            return v
    return 1.0
