"""Structural invariants of a MULgraph geometry (property C10) and measurement helpers
for conservation / tiling / conformity (property C11), evaluated on a live mulgrid
from its public attributes with own code only.
"""
from vf.oracle import polygeo as PG


def poly(col):
    return [(float(n.pos[0]), float(n.pos[1])) for n in col.node]


def edges_of(col):
    n = col.node
    return [frozenset((n[i].name, n[(i + 1) % len(n)].name)) for i in range(len(n))]


def expected_block_names(g):
    """Own derivation of the block name list from columns, layers and surfaces."""
    if not g.layerlist:
        return []
    names = []
    top = g.layerlist[0]
    if g.atmosphere_type == 0:
        names.append(g.block_name(top.name, g.atmosphere_column_name))
    elif g.atmosphere_type == 1:
        names += [g.block_name(top.name, c.name) for c in g.columnlist]
    und = []
    for lay in g.layerlist[1:]:
        for c in g.columnlist:
            if c.surface > lay.bottom:
                und.append((g.block_name(lay.name, c.name), len(c.node)))
    if g.block_order == 'dmplex':
        und = [x for x in und if x[1] == 4] + [x for x in und if x[1] == 3] + [x for x in und if x[1] not in (3, 4)]
    return names + [x[0] for x in und]


def expected_connection_names(g):
    out = []
    if not g.layerlist:
        return out
    lays = g.layerlist
    atm = lays[0]
    for k in range(1, len(lays)):
        lay = lays[k]
        cols = [c for c in g.columnlist if c.surface > lay.bottom]
        for c in cols:
            this = g.block_name(lay.name, c.name)
            if k == 1 or c.surface <= lay.top:
                if g.atmosphere_type == 0:
                    above = g.block_name(atm.name, g.atmosphere_column_name)
                elif g.atmosphere_type == 1:
                    above = g.block_name(atm.name, c.name)
                else:
                    continue
            else:
                above = g.block_name(lays[k - 1].name, c.name)
            out.append((this, above))
        colset = set(cols)
        for con in g.connectionlist:
            if con.column[0] in colset and con.column[1] in colset:
                out.append(tuple(g.block_name(lay.name, c.name) for c in con.column))
    return out


def geo_invariants(g, promised_valid=False, name_lists=True):
    """Returns a list of (kind, text); empty when every clause of C10 holds."""
    bad = []

    def B(kind, text):
        bad.append((kind, text))
    # by-name lookups vs ordered lists
    for what, lst, dct in (('node', g.nodelist, g.node), ('column', g.columnlist, g.column), ('layer', g.layerlist, g.layer),
                           ('well', g.welllist, g.well)):
        names = [o.name for o in lst]
        if len(set(names)) != len(names):
            B('%s-duplicate-name' % what, '%s list holds duplicate names' % what)
        if set(names) != set(dct) or len(dct) != len(lst):
            B('%s-dict-list-disagree' % what, '%s names only in the list %r, only in the lookup %r' % (
                what, sorted(set(names) - set(dct))[:4], sorted(set(dct) - set(names))[:4]))
        elif any(dct[o.name] is not o for o in lst):
            B('%s-dict-list-disagree' % what, '%s lookup returns a different object than the list holds' % what)
    cnames = [tuple(c.name for c in con.column) for con in g.connectionlist]
    if len(set(frozenset(n) for n in cnames)) != len(cnames):
        B('connection-duplicate', 'connection list holds the same pair twice')
    if set(cnames) != set(g.connection) or len(g.connection) != len(g.connectionlist):
        B('connection-key-stale', 'connections by current column names %r vs lookup keys %r' % (
            sorted(set(cnames) - set(g.connection))[:3], sorted(set(g.connection) - set(cnames))[:3]))
    elif any(g.connection[n] is not con for n, con in zip(cnames, g.connectionlist)):
        B('connection-key-stale', 'lookup by column names returns a different connection')
    colset = set(g.columnlist)
    for con in g.connectionlist:
        if any(c not in colset for c in con.column):
            B('connection-column-not-in-geometry', 'connection %r joins a column that is not in the geometry' % (tuple(c.name for c in con.column),))
            break
    # node -> columns
    uses = {}
    for c in g.columnlist:
        for n in c.node:
            uses.setdefault(id(n), set()).add(c)
    for n in g.nodelist:
        if set(n.column) != uses.get(id(n), set()):
            B('node-column-backref', 'node %r records columns %r, used by %r' % (n.name, sorted(c.name for c in n.column), sorted(c.name for c in uses.get(id(n), set()))))
            break
    nodeset = set(id(n) for n in g.nodelist)
    for c in g.columnlist:
        if any(id(n) not in nodeset for n in c.node):
            B('column-node-not-in-geometry', 'column %r uses a node that is not in the geometry' % c.name)
            break
    # column -> connections, neighbours
    mention = {}
    other = {}
    for con in g.connectionlist:
        a, b = con.column
        mention.setdefault(a, set()).add(con)
        mention.setdefault(b, set()).add(con)
        other.setdefault(a, set()).add(b)
        other.setdefault(b, set()).add(a)
    for c in g.columnlist:
        if set(c.connection) != mention.get(c, set()):
            B('column-connection-backref', 'column %r records %d connections, %d mention it' % (c.name, len(c.connection), len(mention.get(c, set()))))
            break
    for c in g.columnlist:
        if set(c.neighbour) != other.get(c, set()):
            B('column-neighbour', 'column %r neighbours %r, connections give %r' % (c.name, sorted(x.name for x in c.neighbour), sorted(x.name for x in other.get(c, set()))))
            break
    for c in g.columnlist:
        if any(c not in x.neighbour for x in c.neighbour):
            B('column-neighbour-asymmetric', 'column %r lists a neighbour that does not list it back' % c.name)
            break
    # connection nodes = shared edge
    for con in g.connectionlist:
        a, b = con.column
        shared = [n for n in a.node if n in b.node]
        if con.node is None or len(shared) != 2 or set(id(n) for n in con.node) != set(id(n) for n in shared):
            B('connection-nodes', 'connection %r nodes %r, columns share %r' % (tuple(c.name for c in con.column),
                                                                               None if con.node is None else [n.name for n in con.node], [n.name for n in shared]))
            break
    # orientation, area
    for c in g.columnlist:
        p = poly(c)
        a = PG.shoelace(p)
        if not a > 0:
            B('column-orientation-or-area', 'column %r is clockwise or has no area (signed area %r)' % (c.name, a))
            break
        tol = 1e-9 + 4e-16 * PG.area_conditioning(p)
        if abs(c.area - a) > tol * abs(a):
            B('column-area-stale', 'column %r stored area %r, polygon area %r' % (c.name, c.area, a))
            break
    # layer count per column
    for c in g.columnlist:
        n = len([l for l in g.layerlist[1:] if l.bottom < c.surface])
        if c.num_layers != n:
            B('column-num-layers', 'column %r num_layers %r, %d layers lie below its surface %r' % (c.name, c.num_layers, n, c.surface))
            break
    if name_lists:
        eb = expected_block_names(g)
        if list(g.block_name_list) != eb:
            B('block-name-list-stale', 'block name list has %d names, a fresh derivation %d (first difference %r)' % (
                len(g.block_name_list), len(eb), next(((a, b) for a, b in zip(list(g.block_name_list) + [None] * len(eb), eb + [None] * len(g.block_name_list)) if a != b), None)))
        elif dict(g.block_name_index) != dict((n, i) for i, n in enumerate(eb)):
            B('block-name-list-stale', 'block name index does not match the block name list')
        ec = expected_connection_names(g)
        if list(g.block_connection_name_list) != ec:
            B('block-connection-name-list-stale', 'block connection name list has %d entries, a fresh derivation %d' % (len(g.block_connection_name_list), len(ec)))
    if promised_valid:
        bad += mesh_validity(g)
    return bad


def mesh_validity(g):
    """Missing / extra connections and orphan nodes, from polygons alone."""
    bad = []
    edge_cols = {}
    for c in g.columnlist:
        for e in edges_of(c):
            edge_cols.setdefault(e, []).append(c)
    need = set()
    for e, cols in edge_cols.items():
        if len(cols) == 2:
            need.add(frozenset(c.name for c in cols))
        elif len(cols) > 2:
            bad.append(('edge-shared-by-more-than-two-columns', 'edge %r belongs to columns %r' % (sorted(e), sorted(c.name for c in cols))))
    have = set(frozenset(c.name for c in con.column) for con in g.connectionlist)
    if len(have) != len(g.connectionlist):
        pairs = [frozenset(c.name for c in con.column) for con in g.connectionlist]
        twice = sorted(sorted(x) for x in set(p for p in pairs if pairs.count(p) > 1))
        bad.append(('columns-joined-twice', '%d connections for %d joined pairs of columns; joined more than once: %r' % (len(pairs), len(have), twice[:4])))
    if need - have:
        bad.append(('missing-connections', 'columns sharing an edge without a connection: %r' % sorted(sorted(x) for x in need - have)[:4]))
    if have - need:
        bad.append(('extra-connections', 'connections between columns that share no edge: %r' % sorted(sorted(x) for x in have - need)[:4]))
    used = set(id(n) for c in g.columnlist for n in c.node)
    orphans = [n.name for n in g.nodelist if id(n) not in used]
    if orphans:
        bad.append(('orphan-nodes', 'nodes used by no column: %r' % orphans[:6]))
    return bad


# -- C11 measurements ----------------------------------------------------------------------------------

def total_area(g):
    return sum(PG.area(poly(c)) for c in g.columnlist)


def total_volume(g):
    if len(g.layerlist) < 2:
        return 0.0
    bottom = g.layerlist[-1].bottom
    return sum(PG.area(poly(c)) * (c.surface - bottom) for c in g.columnlist if c.surface > bottom)


def block_volume_sum(g):
    """Sum of the volumes of the blocks the geometry announces (through its own block_volume)."""
    natm = [1, len(g.columnlist), 0][g.atmosphere_type]
    tot = 0.0
    for n in g.block_name_list[natm:]:
        tot += g.block_volume(g.layer[g.layer_name(n)], g.column[g.column_name(n)])
    return tot


def hanging_nodes(g):
    """Nodes lying in the interior of another column's edge."""
    out = []
    import math
    pts = [(n, float(n.pos[0]), float(n.pos[1])) for n in g.nodelist]
    for c in g.columnlist:
        p = poly(c)
        names = set(n.name for n in c.node)
        for i in range(len(p)):
            a, b = p[i], p[(i + 1) % len(p)]
            L = math.hypot(b[0] - a[0], b[1] - a[1])
            if L == 0:
                out.append((c.name, 'zero-length edge'))
                continue
            for n, x, y in pts:
                if n.name in names:
                    continue
                t = ((x - a[0]) * (b[0] - a[0]) + (y - a[1]) * (b[1] - a[1])) / (L * L)
                if 1e-9 < t < 1 - 1e-9:
                    d = abs((b[0] - a[0]) * (y - a[1]) - (b[1] - a[1]) * (x - a[0])) / L
                    if d <= 1e-9 * L:
                        out.append((c.name, n.name))
    return out


def snapshot_columns(g):
    """[(name, polygon, surface)] for tiling checks against a later state."""
    return [(c.name, poly(c), float(c.surface)) for c in g.columnlist]
