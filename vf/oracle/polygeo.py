"""Own elementary plane geometry (never imports geometry.py of the repository)."""
import math


def shoelace(poly):
    """Signed area; coordinates are taken relative to the first vertex so that large
    offsets (map coordinates in the millions) do not cancel catastrophically."""
    a = 0.0
    n = len(poly)
    ox, oy = poly[0][0], poly[0][1]
    for i in range(n):
        x1, y1 = poly[i][0] - ox, poly[i][1] - oy
        x2, y2 = poly[(i + 1) % n][0] - ox, poly[(i + 1) % n][1] - oy
        a += x1 * y2 - x2 * y1
    return 0.5 * a


def area_conditioning(poly):
    """How many times larger than the area the products in a naive area formula are: a
    formula working on raw coordinates loses about eps x this much relative accuracy."""
    a = abs(shoelace(poly))
    mx = max(abs(p[0]) for p in poly)
    my = max(abs(p[1]) for p in poly)
    return (mx * my) / a if a > 0 else float('inf')


def area(poly):
    return abs(shoelace(poly))


def centroid(poly):
    a = shoelace(poly)
    cx = cy = 0.0
    n = len(poly)
    ox, oy = poly[0][0], poly[0][1]
    for i in range(n):
        x1, y1 = poly[i][0] - ox, poly[i][1] - oy
        x2, y2 = poly[(i + 1) % n][0] - ox, poly[(i + 1) % n][1] - oy
        f = x1 * y2 - x2 * y1
        cx += (x1 + x2) * f
        cy += (y1 + y2) * f
    return ox + cx / (6 * a), oy + cy / (6 * a)


def dist(p, q):
    return math.hypot(p[0] - q[0], p[1] - q[1])


def point_line_distance(p, a, b):
    """Perpendicular distance of p from the infinite line through a, b."""
    dx, dy = b[0] - a[0], b[1] - a[1]
    L = math.hypot(dx, dy)
    return abs(dx * (p[1] - a[1]) - dy * (p[0] - a[0])) / L


def winding_number(p, poly):
    """Winding number of poly around p (non-zero = inside).  Robust for points not on an edge."""
    wn = 0
    n = len(poly)
    for i in range(n):
        x1, y1 = poly[i][0], poly[i][1]
        x2, y2 = poly[(i + 1) % n][0], poly[(i + 1) % n][1]
        if y1 <= p[1]:
            if y2 > p[1] and (x2 - x1) * (p[1] - y1) - (p[0] - x1) * (y2 - y1) > 0:
                wn += 1
        else:
            if y2 <= p[1] and (x2 - x1) * (p[1] - y1) - (p[0] - x1) * (y2 - y1) < 0:
                wn -= 1
    return wn


def inside(p, poly):
    return winding_number(p, poly) != 0


def distance_to_polygon_edges(p, poly):
    """Smallest distance of p from the boundary segments of poly."""
    best = float('inf')
    n = len(poly)
    for i in range(n):
        a, b = poly[i], poly[(i + 1) % n]
        best = min(best, point_segment_distance(p, a, b))
    return best


def point_segment_distance(p, a, b):
    dx, dy = b[0] - a[0], b[1] - a[1]
    L2 = dx * dx + dy * dy
    if L2 == 0:
        return dist(p, a)
    t = ((p[0] - a[0]) * dx + (p[1] - a[1]) * dy) / L2
    t = max(0.0, min(1.0, t))
    return math.hypot(p[0] - (a[0] + t * dx), p[1] - (a[1] + t * dy))


def clip_segment_convex_or_not(p0, p1, poly):
    """Parameters t in [0,1] at which the segment p0->p1 crosses polygon edges, sorted.
    Together with 0/1 (if the end point is inside) these delimit the inside intervals."""
    ts = []
    dx, dy = p1[0] - p0[0], p1[1] - p0[1]
    n = len(poly)
    for i in range(n):
        a, b = poly[i], poly[(i + 1) % n]
        ex, ey = b[0] - a[0], b[1] - a[1]
        den = dx * ey - dy * ex
        if den == 0:
            continue
        t = ((a[0] - p0[0]) * ey - (a[1] - p0[1]) * ex) / den
        u = ((a[0] - p0[0]) * dy - (a[1] - p0[1]) * dx) / den
        if 0 <= t <= 1 and 0 <= u <= 1:
            ts.append(t)
    return sorted(ts)


def inside_intervals(p0, p1, poly):
    """List of (t_in, t_out) intervals of the segment lying inside poly."""
    ts = [0.0] + clip_segment_convex_or_not(p0, p1, poly) + [1.0]
    out = []
    for a, b in zip(ts[:-1], ts[1:]):
        if b - a <= 0:
            continue
        m = 0.5 * (a + b)
        q = (p0[0] + m * (p1[0] - p0[0]), p0[1] + m * (p1[1] - p0[1]))
        if inside(q, poly):
            if out and abs(out[-1][1] - a) < 1e-15:
                out[-1] = (out[-1][0], b)
            else:
                out.append((a, b))
    return out
