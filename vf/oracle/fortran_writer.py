"""Independent Fortran-style record writer.

Emits numbers and names the way a Fortran program (TOUGH2, AUTOUGH2, TOUGHREACT)
prints them with FORMAT edit descriptors: Ew.d with a 0.ddd mantissa and an
upper-case E (the letter dropped for three-digit exponents), 1PEw.d, Fw.d, Iw
right-justified, Aw left-justified, and block names as (A3,I2).  It shares no
code with fixed_format_file.py; the column layout comes from the caller.
"""


def fE(v, w, d, style='E'):
    """Fortran Ew.d (style 'E'), Dw.d (style 'D': the same with the letter D), 1PEw.d (style '1P') or python-like
    lower-case (style 'e')."""
    letter = 'E'
    if style == 'D':
        style, letter = 'E', 'D' 
    if v is None:
        return ' ' * w
    if style == 'e':
        s = '%.*e' % (d, v)
        return s.rjust(w) if len(s) <= w else None
    if v == 0:
        mant, ex = '0' * d, 0
        neg = str(v).startswith('-')
    else:
        neg = v < 0
        s = '%.*e' % (d - 1, abs(v))          # a.bbbbe+xx with d significant digits
        m, e = s.split('e')
        digits = m.replace('.', '')
        ex = int(e)
        if style == 'E':
            mant, ex = digits, ex + 1           # 0.abbbb x 10^(ex+1)
        else:
            mant = digits
    if style == 'E':
        body = '0.' + mant
    else:
        body = mant[0] + '.' + mant[1:] if v != 0 else '0.' + '0' * (d - 1)
    if abs(ex) < 100:
        es = '%s%+03d' % (letter, ex)
    else:
        es = '%+04d' % ex                      # exponent letter dropped
    s = ('-' if neg else '') + body + es
    if len(s) > w and s.startswith('0.'):
        s = s[1:]                              # Fortran drops the optional leading zero
    elif len(s) > w and s.startswith('-0.'):
        s = '-' + s[2:]
    if len(s) > w:
        return None
    return s.rjust(w)


def fF(v, w, d):
    if v is None:
        return ' ' * w
    s = '%.*f' % (d, v)
    if len(s) > w and s.startswith('0.'):
        s = s[1:]
    elif len(s) > w and s.startswith('-0.'):
        s = '-' + s[2:]
    if len(s) > w:
        return None
    return s.rjust(w)


def fI(v, w):
    if v is None:
        return ' ' * w
    s = '%d' % v
    if len(s) > w:
        return None
    return s.rjust(w)


def fA(s, w):
    if s is None:
        return ' ' * w
    return str(s)[:w].ljust(w)


def block_name(name):
    """A block name as the simulator prints it: (A3,I2) when the last two characters
    are a number, verbatim otherwise."""
    tail = name[3:5]
    if tail.strip().isdigit():
        return '%3s%2d' % (name[0:3], int(tail))
    return name


def value_of(text):
    """Value a Fortran READ gives for a numeric field this module wrote."""
    t = text.strip()
    if not t:
        return None
    t = t.replace('D', 'E')
    if 'E' not in t.upper():
        # exponent letter dropped: find the sign that starts the exponent
        for i in range(len(t) - 1, 0, -1):
            if t[i] in '+-' and t[i - 1] not in 'eE':
                t = t[:i] + 'E' + t[i:]
                break
    return float(t)
