"""Own transcription of the IAPWS-IF97 saturation-line equations (release of 1997 / revised 2007, section 8: equations
29-31 with the coefficients of table 34), evaluated in 60-digit decimal arithmetic.  Independent of the repository:
nothing is imported from it.  Both equations are quadratics solved in the form that stays regular where the leading
coefficient passes through zero (which it does inside the range: at 175.17 degC for p(T), at 0.728 MPa for T(p))."""
from decimal import Decimal as D, getcontext

getcontext().prec = 60

N = [D(x) for x in ('0.11670521452767E4', '-0.72421316703206E6', '-0.17073846940092E2', '0.12020824702470E5',
                    '-0.32325550322333E7', '0.14915108613530E2', '-0.48232657361591E4', '0.40511340542057E6',
                    '-0.23855557567849', '0.65017534844798E3')]
TK0 = D('273.15')


def sat_pa(t_c):
    """Saturation pressure (Pa) at temperature t_c (degC, a float taken at its exact binary value)."""
    tk = D(t_c) + TK0
    th = tk + N[8] / (tk - N[9])
    a = th * th + N[0] * th + N[1]
    b = N[2] * th * th + N[3] * th + N[4]
    c = N[5] * th * th + N[6] * th + N[7]
    x = 2 * c / (-b + (b * b - 4 * a * c).sqrt())
    return (x ** 4) * D(10) ** 6


def tsat_c(p_pa):
    """Saturation temperature (degC) at pressure p_pa (Pa, a float taken at its exact binary value)."""
    beta = (D(p_pa) / D(10) ** 6).sqrt().sqrt()
    e = beta * beta + N[2] * beta + N[5]
    f = N[0] * beta * beta + N[3] * beta + N[6]
    g = N[1] * beta * beta + N[4] * beta + N[7]
    d = 2 * g / (-f - (f * f - 4 * e * g).sqrt())
    x = N[9] + d
    return (x - (x * x - 4 * (N[8] + N[9] * d)).sqrt()) / 2 - TK0


def degenerate_temperature_c():
    """The temperature at which the coefficient of the squared term of the p(T) quadratic vanishes."""
    th = (-N[0] + (N[0] * N[0] - 4 * N[1]).sqrt()) / 2           # theta^2 + n1 theta + n2 = 0, positive root
    # theta = T + n9 / (T - n10)  ->  T^2 - (theta + n10) T + (theta n10 + n9) = 0, the root below n10 (the other one lies above the critical temperature)
    s = th + N[9]
    tk = (s - (s * s - 4 * (th * N[9] + N[8])).sqrt()) / 2
    return float(tk - TK0)


def degenerate_pressure_pa():
    """The pressure at which the coefficient of the squared term of the T(p) quadratic vanishes (the root inside the
    range: beta^2 + n3 beta + n6 = 0)."""
    beta = (-N[2] - (N[2] * N[2] - 4 * N[5]).sqrt()) / 2
    return float(beta ** 4 * D(10) ** 6)


# verification values of the release (table 35 / 36)
CHECK_P = [(300.0, '0.353658941E-2'), (500.0, '0.263889776E1'), (600.0, '0.123443146E2')]
CHECK_T = [('0.1', '0.372755919E3'), ('1', '0.453035632E3'), ('10', '0.584149488E3')]


def selfcheck():
    bad = []
    for tk, pm in CHECK_P:
        got = sat_pa(tk - 273.15) / D(10) ** 6
        if abs(got / D(pm) - 1) > D('2E-9'):
            bad.append(('p', tk, str(got), pm))
    for pm, tk in CHECK_T:
        got = tsat_c(float(D(pm) * D(10) ** 6)) + TK0
        if abs(got / D(tk) - 1) > D('2E-9'):
            bad.append(('t', pm, str(got), tk))
    return bad
