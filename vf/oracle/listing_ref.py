"""Independent tokenizer for TOUGH2-family listing files.

Finds, in the raw text, the result sets, the tables of each result set, their rows,
row keys, row indices and numeric cells.  Written from the look of Fortran output
(fixed-width, right-aligned fields; E format printed as 0.dddE+xx, d.dddE+xx or .dddE+xx,
the exponent letter dropped for three-digit exponents; fields may touch each other);
shares no code with t2listing.py.
"""
import re

NUM = re.compile(r'[-+]?\d?\.\d+[EeDd][-+](?:\d{3}(?![.])|\d{2})'          # 0.1234E+05  1.234E+05  -.1234E+05
                 r'|[-+]?\d?\.\d+[-+]\d{3}'                   # 0.1234-101  (letter dropped)
                 r'|[-+]?\d*\.\d+(?![EeDd][-+]\d|\d|[-+]\d{3})'   # 45.0000  834.23
                 r'|[-+]?\d+\.(?![\dEeDd])')                   # 45.
SEP = re.compile(r'^\s?([@=_\-*])\1{59,}')
RESULT_MARK = re.compile(r'output data after', re.I)


def fnum(tok):
    t = tok.replace('D', 'E').replace('d', 'e')
    if 'e' not in t.lower():
        m = re.match(r'^([-+]?\d*\.\d*)([-+]\d{3})$', t)
        if m:
            t = m.group(1) + 'E' + m.group(2)
    return float(t)


def own_fix(n):
    if len(n) == 5 and n[2].isdigit() and n[3] == ' ' and n[4].isdigit():
        return n[:3] + '0' + n[4]
    return n


class Table(object):
    def __init__(self, name, header, nkeys, has_I):
        self.name, self.header, self.nkeys, self.has_I = name, header, nkeys, has_I
        self.layout = None
        self.header_line = None     # the header line as printed
        self.rows = []         # (keys tuple, index or None, [(value, start, end)], line number)

    def __repr__(self):
        return '<%s %d rows>' % (self.name, len(self.rows))


def header_info(line):
    toks = line.split()
    if len(toks) < 3:
        return None
    if not toks[0].upper().startswith('ELEM'):
        return None
    for k, t in enumerate(toks):
        if t in ('INDEX', 'IND.'):
            if k in (1, 2):
                return toks, k
            return None
    return None


def classify(toks, nkeys):
    if nkeys == 1:
        if toks[2] == 'X1':
            return 'primary'
        return 'element'
    if toks[1].upper() in ('SOURCE',):
        return 'generation'
    return 'connection'


def learn_layout(line, nkeys, has_I):
    """Column layout of a table from one of its rows in which the fields do not touch:
    (end column of each key, end column of the index, end column of the I field or None)."""
    m = NUM.search(line)
    if not m:
        return None
    prefix = line[:m.start()]
    toks = list(re.finditer(r'\S+', prefix))
    want = 2 if has_I else 1
    if len(toks) < want + 1:
        return None
    ints = toks[-want:]
    if not all(re.match(r'^(\d+|\*+)$', t.group(0)) for t in ints):
        return None
    ka = line[:ints[0].start()]
    ends = []
    for k in range(nkeys):
        ka = ka.rstrip()
        while ka and not ka[-1].isalnum():      # TOUGH+ flags some blocks with a trailing '+'
            ka = ka[:-1]
        if not ka or not ka[-1].isdigit():
            return None
        ends.insert(0, len(ka))
        ka = ka[:-5]
    if ka[1:].strip():
        return None
    if len(ka.strip()) > 0 and ka[0] not in '10+':
        return None
    return tuple(ends), ints[0].end(), (ints[1].end() if has_I else None)


def parse_row(line, layout, has_I):
    """(keys, index, cells) or None if the line is not a data row.  Fixed columns: the
    fields of a row may touch each other (index 10 after name 'al10' prints 'al1010',
    index 1 before 0.149E+06 prints '10.149E+06')."""
    ends, iend, Iend = layout
    if len(line) <= iend:
        return None
    keys = []
    for e in ends:
        k = line[e - 5:e]
        if len(k) < 5 or not k.strip():
            return None
        keys.append(own_fix(k))
    left = line[:ends[0] - 5]
    if left[1:].strip() or (left[:1].strip() and left[0] not in '10+'):
        return None                          # column 0 may hold a carriage-control character
    itxt = line[ends[-1]:iend].strip()
    mi = re.match(r'^[*+]?\s*(\d+)$', itxt)         # TOUGH+ flags some names with '*' or '+'
    if mi:
        index = int(mi.group(1))
    elif re.match(r'^\*{2,}$', itxt):
        index = None
    else:
        return None
    cells = []
    start = iend
    if has_I:
        t = line[iend:Iend].strip()
        if not re.match(r'^\d+$', t):
            return None
        cells.append((float(int(t)), iend, Iend))
        start = Iend
    rest = line[start:]
    pos = 0
    for mm in NUM.finditer(rest):
        if rest[pos:mm.start()].strip():
            return None                      # something between the numbers that is no number
        pos = mm.end()
        try:
            cells.append((fnum(mm.group(0)), start + mm.start(), start + mm.end()))
        except ValueError:
            return None
    if rest[pos:].strip():
        return None
    if not cells:
        return None
    return tuple(keys), index, cells


def add_row(table, line, ln):
    if table.layout is None:
        table.layout = learn_layout(line, table.nkeys, table.has_I)
        if table.layout is None:
            return
    r = parse_row(line, table.layout, table.has_I)
    if r:
        table.rows.append(r + (ln,))


def parse_listing(path):
    with open(path, 'rb') as f:
        lines = [l.decode('latin-1').rstrip('\r\n') for l in f]
    autough2 = any(l[1:6] == 'EEEEE' and len(l) > 60 for l in lines[:20000])
    if autough2 and not any(RESULT_MARK.search(l) for l in lines):
        return parse_autough2(lines)
    return parse_tough2(lines)


def parse_autough2(lines):
    results = []
    cur = None
    i = 0
    n = len(lines)
    while i < n:
        l = lines[i]
        tag = l[1:6]
        if tag in ('EEEEE', 'CCCCC', 'GGGGG') and len(l) > 60:
            # first marker; header block up to the second marker; rows up to the third
            j = i + 1
            while j < n and lines[j][1:6] != tag:
                j += 1
            k = j + 1
            while k < n and lines[k][1:6] != tag:
                k += 1
            name = {'E': 'element', 'C': 'connection', 'G': 'generation'}[tag[0]]
            if tag == 'EEEEE':
                cur = {'tables': [], 'line': i}
                results.append(cur)
            if cur is None:
                i = k + 1
                continue
            header = None
            header_line = None
            for h in lines[j + 1:k]:
                hi = header_info(h)
                if hi:
                    header = hi
                    header_line = h
                    break
            if header is None:
                i = k + 1
                continue
            t = Table(name, header[0], header[1], False)
            t.header_line = header_line
            for ln in range(j + 1, k):
                if header_info(lines[ln]):
                    continue
                add_row(t, lines[ln], ln)
            cur['tables'].append(t)
            i = k + 1
        else:
            i += 1
    return results


def parse_tough2(lines):
    results = []
    cur = None
    table = None
    nelem = 0
    for ln, l in enumerate(lines):
        if RESULT_MARK.search(l) and '@' not in l[:3]:
            cur = {'tables': [], 'line': ln}
            results.append(cur)
            table = None
            nelem = 0
            continue
        if cur is None:
            continue
        hi = header_info(l)
        if hi:
            toks, nkeys = hi
            if table is not None and table.header == toks:
                continue                      # repeated page header of the same table
            kind = classify(toks, nkeys)
            if kind == 'element':
                name = 'element' if nelem == 0 else 'element%d' % nelem
                nelem += 1
            else:
                name = kind
            has_I = len(toks) > nkeys + 1 and toks[nkeys + 1] == 'I'
            table = Table(name, toks, nkeys, has_I)
            table.header_line = l
            cur['tables'].append(table)
            continue
        if table is not None:
            if table.rows and SEP.match(l) and l.strip()[0] in '@':
                table = None                  # end of table
                continue
            add_row(table, l, ln)
    return results
