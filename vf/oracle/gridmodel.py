"""Executable reference model of a TOUGH2 grid under edits, and the structural
invariants of property C08 evaluated on a live t2grid.

The model is a handful of ordered lists; transitions are written from the user
guide (doc/source/t2grids.rst), never from t2grids.py.
"""
import itertools


class GridModel(object):
    def __init__(self):
        self.blocks = []        # ordered block names
        self.rock = {}          # block name -> rock name
        self.cons = []          # ordered (name1, name2)
        self.rocks = []         # ordered rock names
        self.stale = set()      # rock names replaced (add_rocktype on an existing name) while blocks used them

    def copy(self):
        m = GridModel()
        m.blocks, m.rock, m.cons, m.rocks = list(self.blocks), dict(self.rock), list(self.cons), list(self.rocks)
        m.stale = set(self.stale)
        return m

    def key(self):
        return (tuple(self.blocks), tuple(sorted(self.rock.items())), tuple(self.cons), tuple(self.rocks))

    # -- transitions ------------------------------------------------------------
    def apply(self, op):
        k = op[0]
        if k == 'add_rocktype':
            self.rocks.append(op[1])
        elif k == 'replace_rocktype':
            # "any existing rocktype of the same name is replaced": names and order unchanged
            if op[1] in self.rock.values():
                self.stale.add(op[1])
        elif k == 'delete_rocktype':
            self.rocks.remove(op[1])
        elif k == 'rename_rocktype':
            self.rocks[self.rocks.index(op[1])] = op[2]
            for b in self.rock:
                if self.rock[b] == op[1]:
                    self.rock[b] = op[2]
        elif k == 'clean_rocktypes':
            used = set(self.rock.values())
            self.rocks = [r for r in self.rocks if r in used]
        elif k == 'add_block':
            self.blocks.append(op[1])
            self.rock[op[1]] = op[2]
        elif k == 'delete_block':
            self.blocks.remove(op[1])
            del self.rock[op[1]]
            self.cons = [c for c in self.cons if op[1] not in c]
        elif k == 'demote_block':
            self.blocks.remove(op[1])
            self.blocks.append(op[1])
        elif k == 'demote_blocks':
            # a list of names, possibly naming a block more than once (lists built from generators or boundary
            # faces do): each name in turn goes to the end
            for n in op[1]:
                self.blocks.remove(n)
                self.blocks.append(n)
        elif k == 'add_connection':
            self.cons.append((op[1], op[2]))
        elif k == 'delete_connection':
            self.cons.remove((op[1], op[2]))
        elif k == 'reorder_blocks':
            assert sorted(op[1]) == sorted(self.blocks)
            self.blocks = list(op[1])
        elif k == 'reorder_connections':
            self.cons = [tuple(c) for c in op[1]]
        elif k == 'reorder_both':
            self.blocks = list(op[1])
            self.cons = [tuple(c) for c in op[2]]
        elif k == 'rename_blocks':
            mp = dict(op[1])
            self.blocks = [mp.get(b, b) for b in self.blocks]
            self.rock = dict((mp.get(b, b), r) for b, r in self.rock.items())
            self.cons = [(mp.get(a, a), mp.get(b, b)) for a, b in self.cons]
        else:
            raise ValueError(op)

    # -- enabled operations in a state (documented preconditions only) ------------
    def enabled(self, universe, rock_universe, full=True):
        ops = []
        present = self.blocks
        for r in rock_universe:
            if r not in self.rocks:
                ops.append(('add_rocktype', r))
            else:
                ops.append(('replace_rocktype', r))
                if r not in self.rock.values():
                    ops.append(('delete_rocktype', r))
                for r2 in rock_universe:
                    if r2 not in self.rocks:
                        ops.append(('rename_rocktype', r, r2))
        ops.append(('clean_rocktypes',))
        for n in universe:
            if n not in present:
                for r in self.rocks:
                    ops.append(('add_block', n, r))
            else:
                ops.append(('delete_block', n))
                if len(present) > 1:
                    ops.append(('demote_block', n))
                    m = [x for x in present if x != n][0]
                    ops.append(('demote_blocks', (n, m, n)))
        have = set(self.cons) | set((b, a) for a, b in self.cons)
        for a in present:
            for b in present:
                if a != b and (a, b) not in have:
                    ops.append(('add_connection', a, b))
        for c in self.cons:
            ops.append(('delete_connection', c[0], c[1]))
        if len(present) >= 2:
            for perm in itertools.permutations(present):
                if list(perm) != present:
                    ops.append(('reorder_blocks', list(perm)))
        if self.cons:
            for perm in itertools.permutations(range(len(self.cons))):
                for rev in itertools.product((False, True), repeat=len(self.cons)):
                    new = [tuple(reversed(self.cons[i])) if rev[i] else self.cons[i] for i in perm]
                    if new != self.cons:
                        ops.append(('reorder_connections', new))
            if full and len(present) >= 2:
                # one combined call: reversed block order + all connections reversed, in reversed order
                ops.append(('reorder_both', list(reversed(present)), [tuple(reversed(c)) for c in reversed(self.cons)]))
        # every injective map on a subset of the present names that does not collide with an unrenamed block
        for k in range(1, len(present) + 1):
            for src in itertools.combinations(present, k):
                rest = [b for b in present if b not in src]
                for dst in itertools.permutations([u for u in universe if u not in rest], k):
                    if list(dst) != list(src):
                        ops.append(('rename_blocks', sorted(zip(src, dst))))
        return ops


def cycle_type(mapping):
    mp = dict(mapping)
    if not mp:
        return 'identity'
    moved = {k: v for k, v in mp.items() if k != v}
    if not moved:
        return 'identity'
    if set(moved) == set(moved.values()):
        # pure permutation: report cycle lengths
        seen, lens = set(), []
        for k in moved:
            if k in seen:
                continue
            n, x = 0, k
            while x not in seen:
                seen.add(x)
                x = moved[x]
                n += 1
            lens.append(n)
        return 'permutation-cycles:' + ','.join(str(x) for x in sorted(lens))
    if set(moved) & set(moved.values()):
        return 'chain-overlapping'
    return 'fresh-names'


# -- invariants on the live object ----------------------------------------------------

def grid_invariants(g):
    """C08's structural clauses on a t2grid.  Returns a list of (kind, text)."""
    bad = []
    names = [b.name for b in g.blocklist]
    if len(set(names)) != len(names):
        bad.append(('duplicate-block-name', 'block list holds duplicate names: %r' % sorted(n for n in set(names) if names.count(n) > 1)[:4]))
    if set(names) != set(g.block.keys()) or len(g.block) != len(g.blocklist):
        bad.append(('block-dict-list-disagree', 'block list has %d names, lookup has %d; only in list %r, only in lookup %r' % (
            len(names), len(g.block), sorted(set(names) - set(g.block))[:4], sorted(set(g.block) - set(names))[:4])))
    else:
        for b in g.blocklist:
            if g.block[b.name] is not b:
                bad.append(('block-dict-list-disagree', 'lookup of %r gives a different object than the list' % b.name))
                break
    rnames = [r.name for r in g.rocktypelist]
    if len(set(rnames)) != len(rnames):
        bad.append(('duplicate-rocktype-name', 'rock type list holds duplicates: %r' % rnames))
    if set(rnames) != set(g.rocktype.keys()) or len(g.rocktype) != len(g.rocktypelist):
        bad.append(('rocktype-dict-list-disagree', 'rock type list %r vs lookup %r' % (rnames, sorted(g.rocktype))))
    cnames = [tuple(b.name for b in c.block) for c in g.connectionlist]
    if len(set(cnames)) != len(cnames):
        bad.append(('duplicate-connection', 'connection list holds duplicates'))
    if set(cnames) != set(g.connection.keys()) or len(g.connection) != len(g.connectionlist):
        bad.append(('connection-key-stale', 'connections by current block names %r vs lookup keys %r' % (
            sorted(set(cnames) - set(g.connection))[:4], sorted(set(g.connection) - set(cnames))[:4])))
    else:
        for c, n in zip(g.connectionlist, cnames):
            if g.connection[n] is not c:
                bad.append(('connection-key-stale', 'lookup of %r gives a different connection' % (n,)))
                break
    for c, n in zip(g.connectionlist, cnames):
        for b in c.block:
            if g.block.get(b.name) is not b:
                bad.append(('connection-block-not-in-grid', 'connection %r joins a block %r that is not in the grid' % (n, b.name)))
                break
    mention = {}
    for n in cnames:
        for bn in n:
            mention.setdefault(bn, set()).add(n)
    for b in g.blocklist:
        if set(b.connection_name) != mention.get(b.name, set()):
            bad.append(('block-connection-record', 'block %r records connections %r, grid has %r' % (
                b.name, sorted(b.connection_name)[:4], sorted(mention.get(b.name, set()))[:4])))
            break
    for b in g.blocklist:
        if b.rocktype is None or g.rocktype.get(b.rocktype.name) is not b.rocktype:
            bad.append(('rocktype-not-registered', 'block %r has rock type %r which is not registered' % (
                b.name, getattr(b.rocktype, 'name', None))))
            break
    return bad


def project(g):
    """Public state of a live grid in the model's terms."""
    m = GridModel()
    m.blocks = [b.name for b in g.blocklist]
    m.rock = dict((b.name, b.rocktype.name) for b in g.blocklist)
    m.cons = [tuple(b.name for b in c.block) for c in g.connectionlist]
    m.rocks = [r.name for r in g.rocktypelist]
    return m


def diff(model, real):
    out = []
    if model.blocks != real.blocks:
        out.append(('block-order-or-membership', 'blocks %r, model %r' % (real.blocks, model.blocks)))
    if model.rock != real.rock:
        out.append(('block-rocktype', 'rock assignment %r, model %r' % (real.rock, model.rock)))
    if model.cons != real.cons:
        out.append(('connection-order-or-membership', 'connections %r, model %r' % (real.cons, model.cons)))
    if model.rocks != real.rocks:
        out.append(('rocktype-order-or-membership', 'rock types %r, model %r' % (real.rocks, model.rocks)))
    return out
