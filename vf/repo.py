"""Lazy access to the modules under test (always from the working tree, see core)."""
import importlib


class _Lazy(object):
    def __getattr__(self, name):
        m = importlib.import_module(name)
        setattr(self, name, m)
        return m


R = _Lazy()
