"""Development aid (not part of any check): records, for every call of a function defined in the repository, which of
its parameters that have a default value were given another value.  VERIF_ARGMAP_DIR=<dir> ./check Cxx writes one JSON
per shard; tools/argmap_report.py merges them into a list of optional arguments no workload ever sets."""
import inspect
import json
import sys


class Recorder(object):
    def __init__(self, root):
        self.root = root.rstrip('/') + '/'
        self.defaults = {}      # code -> (qualname, [(name, default)])
        self.seen = {}          # qualname -> {param: set of 'default' / 'other'}
        self.calls = {}

    def info(self, frame):
        code = frame.f_code
        d = self.defaults.get(code)
        if d is None:
            fn = code.co_filename
            if not fn.startswith(self.root) or '/tests/' in fn:
                d = False
            else:
                names = code.co_varnames[:code.co_argcount + code.co_kwonlyargcount]
                func = None
                # find the function object to read its defaults
                g = frame.f_globals
                qual = getattr(code, 'co_qualname', code.co_name)
                obj = g
                try:
                    parts = qual.split('.')
                    o = g.get(parts[0])
                    for p in parts[1:]:
                        o = inspect.getattr_static(o, p) if o is not None else None
                        if isinstance(o, property):
                            o = None
                    func = o
                    if isinstance(func, (staticmethod, classmethod)):
                        func = func.__func__
                except Exception:
                    func = None
                pairs = []
                if func is not None and getattr(func, '__code__', None) is code:
                    dv = func.__defaults__ or ()
                    pos = names[:code.co_argcount]
                    for n, v in zip(pos[len(pos) - len(dv):], dv):
                        pairs.append((n, v))
                    for n, v in (func.__kwdefaults__ or {}).items():
                        pairs.append((n, v))
                d = (fn[len(self.root):] + ':' + qual, pairs) if pairs else False
            self.defaults[code] = d
        return d

    def __call__(self, frame, event, arg):
        if event != 'call':
            return
        d = self.info(frame)
        if not d:
            return
        qual, pairs = d
        rec = self.seen.setdefault(qual, {})
        self.calls[qual] = self.calls.get(qual, 0) + 1
        loc = frame.f_locals
        for n, dv in pairs:
            v = loc.get(n, dv)
            try:
                same = v is dv or (type(v) is type(dv) and bool(v == dv))
            except Exception:
                same = False
            rec.setdefault(n, set()).add('default' if same else 'other')

    def stop(self, path):
        sys.setprofile(None)
        out = dict((q, {'calls': self.calls[q], 'params': dict((n, sorted(s)) for n, s in r.items())}) for q, r in self.seen.items())
        with open(path, 'w') as f:
            json.dump(out, f)


def start(root):
    r = Recorder(root)
    sys.setprofile(r)
    return r
