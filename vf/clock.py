"""Logical clock for termination: a delegating proxy around a file object that counts
readline calls against a budget (never wall time)."""
from vf.core import StepBudgetExceeded


class CountingFile(object):
    """Delegating proxy around the listing's file object: the logical clock."""
    def __init__(self, f, budget):
        self.__dict__['_f'] = f
        self.__dict__['budget'] = budget
        self.__dict__['reads'] = 0
        self.__dict__['empty_run'] = 0
        self.__dict__['max_reads'] = 0

    def reset(self):
        self.__dict__['max_reads'] = max(self.max_reads, self.reads)
        self.__dict__['reads'] = 0
        self.__dict__['empty_run'] = 0

    def readline(self, *a):
        self.__dict__['reads'] += 1
        line = self._f.readline(*a)
        if not line:
            self.__dict__['empty_run'] += 1
            if self.empty_run > 1000:
                raise StepBudgetExceeded('%d consecutive reads at end of file' % self.empty_run)
        else:
            self.__dict__['empty_run'] = 0
        if self.reads > self.budget:
            raise StepBudgetExceeded('%d readline calls, budget %d' % (self.reads, self.budget))
        return line

    def __getattr__(self, name):
        return getattr(self._f, name)

    def __setattr__(self, name, value):
        setattr(self._f, name, value)


def count_lines(path):
    with open(path, 'rb') as f:
        return sum(1 for _ in f)
