"""Call-boundary contracts attached from outside the repository.

* icontract post-conditions on the pure name functions (rebound in every repo
  module that imported them by name, and counted).
* `quiescent()`: wraps public mutators of a class; evaluates an invariant suite
  only when the *outermost* monitored call on the current thread returns
  normally (transient states inside composite operations are legitimate).
"""
import functools
import sys
import threading

from vf.core import DEPS

if DEPS not in sys.path:
    sys.path.append(DEPS)
import icontract  # noqa: E402


class ContractBroken(Exception):
    pass


class Recorder(object):
    """Contracts record instead of raising so that they never change what the
    code under test does; the check collects the records afterwards."""
    def __init__(self):
        self.evaluations = {}
        self.broken = []   # (contract name, description, args)

    def hit(self, name):
        self.evaluations[name] = self.evaluations.get(name, 0) + 1

    def fail(self, name, what, args):
        if len(self.broken) < 200:
            self.broken.append((name, what, args))


REC = Recorder()


# -- icontract post-conditions on name functions ------------------------------

def _fix_post(name, result):
    REC.hit('fix_blockname')
    ok = isinstance(result, str) and len(result) == len(name)
    if ok and len(name) == 5:
        # idempotent; evaluated on the undecorated function to avoid recursion
        ok = _orig['fix_blockname'](result) == result
    if not ok:
        REC.fail('fix_blockname', 'fix_blockname(%r) = %r: not a fixed point / wrong length' % (name, result), [name])
    return True


def _unfix_post(name, result):
    REC.hit('unfix_blockname')
    ok = isinstance(result, str) and len(result) == len(name)
    if ok and len(name) == 5:
        ok = _orig['fix_blockname'](_orig['unfix_blockname'](_orig['fix_blockname'](result))) == _orig['fix_blockname'](result)
    if not ok:
        REC.fail('unfix_blockname', 'unfix_blockname(%r) = %r: wrong length or unstable cycle' % (name, result), [name])
    return True


_orig = {}


def install_name_contracts(R):
    """Decorate fix_/unfix_blockname with icontract.ensure and rebind the names in
    every repository module that holds a reference."""
    mg = R.mulgrids
    if _orig:
        return
    _orig['fix_blockname'] = mg.fix_blockname
    _orig['unfix_blockname'] = mg.unfix_blockname
    fixed = icontract.ensure(_fix_post, error=ContractBroken)(mg.fix_blockname)
    unfixed = icontract.ensure(_unfix_post, error=ContractBroken)(mg.unfix_blockname)
    for modname in ('mulgrids', 't2grids', 't2incons', 't2data', 't2listing'):
        m = getattr(R, modname)
        if getattr(m, 'fix_blockname', None) is _orig['fix_blockname']:
            m.fix_blockname = fixed
        if getattr(m, 'unfix_blockname', None) is _orig['unfix_blockname']:
            m.unfix_blockname = unfixed


# -- quiescent-point invariants -------------------------------------------------

_tls = threading.local()


def quiescent(cls, methods, invariant, name, result_only=()):
    """Wrap `methods` of `cls`.  `invariant(obj, method_name)` is called for every
    monitored instance touched during the outermost call, when that call returns
    normally and the instance is still reachable (self, args, result)."""
    for mname in methods:
        orig = cls.__dict__.get(mname)
        if orig is None or getattr(orig, '_vf_wrapped', False):
            continue
        if isinstance(orig, (staticmethod, classmethod, property)):
            continue

        def make(orig, mname):
            @functools.wraps(orig)
            def wrapper(self, *a, **kw):
                depth = getattr(_tls, 'depth', 0)
                if depth == 0:
                    _tls.touched = {}
                _tls.depth = depth + 1
                _tls.touched[id(self)] = self
                try:
                    result = orig(self, *a, **kw)
                finally:
                    _tls.depth = depth
                if depth == 0:
                    touched, _tls.touched = _tls.touched, {}
                    # operations that build a new object out of their operands (which
                    # share parts with the result and are spent afterwards) are judged
                    # on the result only
                    reach = [] if mname in result_only else (
                        [self] + [x for x in a if isinstance(x, cls)] + [x for x in kw.values() if isinstance(x, cls)])
                    if isinstance(result, cls):
                        reach.append(result)
                    elif isinstance(result, tuple):
                        reach.extend(x for x in result if isinstance(x, cls))
                    for obj in reach:
                        if id(obj) in touched:
                            REC.hit(name)
                            invariant(obj, mname)
                            touched.pop(id(obj))
                return result
            wrapper._vf_wrapped = True
            return wrapper
        setattr(cls, mname, make(orig, mname))
