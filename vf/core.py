"""Core of the PyTOUGH runtime-monitoring framework.

Parent process (``./check Cxx --tier T``):
    plan shards -> run each shard in its own interpreter (subprocess, watchdog)
    -> merge observations -> classify violations against known_findings.json
    -> write replay files + evidence -> three-valued exit (0 held / 1 violation /
    2 inconclusive).

Child process (``python -m vf.core --child spec.json out.json``):
    puts the working tree of the repository first on sys.path, seeds the RNGs,
    builds a Ctx and hands it to ``props.cXX.run_shard(ctx, spec)``.

The oracles never live here: this file only counts, records and reports.
"""
from __future__ import annotations

import hashlib
import importlib
import json
import os
import random
import shutil
import subprocess
import sys
import tempfile
import time
import traceback
from collections import Counter, defaultdict
from concurrent.futures import ThreadPoolExecutor

VERIF = os.path.dirname(os.path.dirname(os.path.abspath(__file__)))
REPO = os.path.abspath(os.environ.get('VERIF_REPO', '/repo'))
PY = os.environ.get('VERIF_PYTHON', '/venv/bin/python')
DEPS = os.path.join(VERIF, '.deps')
EVIDENCE_DIR = os.environ.get('VERIF_EVIDENCE_DIR') or os.path.join(VERIF, 'evidence')
REPLAY_DIR = os.environ.get('VERIF_REPLAY_DIR') or os.path.join(VERIF, 'replay')
KNOWN = os.path.join(VERIF, 'known_findings.json')
REPO_MODULES = ('fixed_format_file', 'geometry', 'IAPWS97', 'mulgrids', 't2data',
                't2grids', 't2incons', 't2listing', 't2thermo')

EXIT_HELD, EXIT_VIOLATION, EXIT_INCONCLUSIVE = 0, 1, 2


class HarnessError(Exception):
    """A bug in the machinery (not in the code under test): run is inconclusive."""


class StepBudgetExceeded(Exception):
    """Logical-clock budget exhausted (used by C06)."""


def digest(obj, n=8):
    s = obj if isinstance(obj, (bytes, str)) else json.dumps(obj, sort_keys=True, default=repr)
    if isinstance(s, str):
        s = s.encode('utf8', 'replace')
    return hashlib.blake2b(s, digest_size=n).hexdigest()


def jsonable(o, depth=0):
    """Best-effort projection of an arbitrary object into JSON types."""
    import numpy as np
    if depth > 12:
        return repr(o)
    if o is None or isinstance(o, (bool, int, str)):
        return o
    if isinstance(o, float):
        if o != o or o in (float('inf'), float('-inf')):
            return repr(o)
        return o
    if isinstance(o, (np.integer,)):
        return int(o)
    if isinstance(o, (np.floating,)):
        return jsonable(float(o), depth)
    if isinstance(o, np.ndarray):
        return [jsonable(x, depth + 1) for x in o.tolist()]
    if isinstance(o, (list, tuple)):
        return [jsonable(x, depth + 1) for x in o]
    if isinstance(o, (set, frozenset)):
        return sorted((jsonable(x, depth + 1) for x in o), key=repr)
    if isinstance(o, dict):
        return {str(k): jsonable(v, depth + 1) for k, v in o.items()}
    return repr(o)


# ----------------------------------------------------------------------------
# child side
# ----------------------------------------------------------------------------

class Ctx(object):
    """Per-shard observation collector handed to property modules."""

    MAX_SAMPLES = 6
    MAX_WITNESS_PER_KEY = 3

    def __init__(self, prop, tier, seed, shard, spec, tmp):
        self.prop, self.tier, self.seed, self.shard, self.spec = prop, tier, seed, shard, spec
        self.tmp = tmp
        self.rng = random.Random(seed * 1000003 + shard)
        import numpy as np
        self.nprng = np.random.default_rng(seed * 1000003 + shard)
        self.evaluations = 0
        self.nontrivial = set()
        self.samples = []
        self.seen = defaultdict(Counter)
        self.counters = Counter()
        self.maxima = {}
        self.violations = {}     # key -> {count, witnesses[]}
        self.foreign = Counter()
        self.notes = []
        self.t0 = time.time()

    # -- counting ---------------------------------------------------------
    def evaluated(self, n=1):
        self.evaluations += n

    def case(self, descriptor, nontrivial, sample=False):
        """Count one case; `descriptor` is hashed for the distinct count."""
        if nontrivial:
            self.nontrivial.add(digest(descriptor))
        if (sample or nontrivial) and len(self.samples) < self.MAX_SAMPLES:
            self.samples.append(jsonable(descriptor))

    def see(self, category, item, n=1):
        self.seen[category][item if isinstance(item, str) else json.dumps(jsonable(item))] += n

    def count(self, name, n=1):
        self.counters[name] += n

    def maximum(self, name, value, at=None):
        cur = self.maxima.get(name)
        if cur is None or value > cur[0]:
            self.maxima[name] = (float(value), jsonable(at))

    def note(self, text):
        if text not in self.notes and len(self.notes) < 50:
            self.notes.append(text)

    # -- violations -------------------------------------------------------
    def violation(self, key, what, case, prop=None):
        """Record a violation under mechanism key `key` (without property prefix)."""
        if prop is not None and prop != self.prop:
            self.foreign['%s:%s' % (prop, key)] += 1
            return
        v = self.violations.setdefault(key, {'count': 0, 'witnesses': []})
        v['count'] += 1
        if len(v['witnesses']) < self.MAX_WITNESS_PER_KEY:
            v['witnesses'].append({'what': str(what)[:4000], 'case': jsonable(case)})

    def guard(self, case, where=None, key_prefix='exception', expected=()):
        return _Guard(self, case, where, key_prefix, expected)

    def result(self):
        return {
            'prop': self.prop, 'shard': self.shard,
            'evaluations': self.evaluations,
            'nontrivial': sorted(self.nontrivial),
            'samples': self.samples,
            'seen': {k: dict(v) for k, v in self.seen.items()},
            'counters': dict(self.counters),
            'maxima': self.maxima,
            'violations': self.violations,
            'foreign': dict(self.foreign),
            'notes': self.notes,
            'wall_s': time.time() - self.t0,
        }


def tb_origin(tb):
    """('repo'|'harness'|'other', function name, filename:lineno) of the deepest
    frame that belongs to the code under test or to the harness."""
    last = None
    for fs in traceback.extract_tb(tb):
        fn = os.path.abspath(fs.filename)
        if fn.startswith(REPO + os.sep):
            last = ('repo', fs.name, '%s:%d' % (os.path.basename(fn), fs.lineno))
        elif fn.startswith(VERIF + os.sep) and not fn.startswith(DEPS + os.sep):
            last = ('harness', fs.name, '%s:%d' % (os.path.basename(fn), fs.lineno))
    return last or ('other', '?', '?')


class _Guard(object):
    """Context manager around a call into the code under test.

    An exception whose deepest repo/harness frame is in the repository is a
    violation (`exception:<Type>@<function>`); one whose deepest frame is in the
    harness is a HarnessError (inconclusive).  `expected` exception types pass
    through untouched so that the caller can treat them as a specified outcome.
    """
    def __init__(self, ctx, case, where, key_prefix, expected):
        self.ctx, self.case, self.where, self.key_prefix, self.expected = \
            ctx, case, where, key_prefix, tuple(expected)
        self.raised = None

    def __enter__(self):
        return self

    def __exit__(self, et, ev, tb):
        if et is None:
            return False
        if issubclass(et, (HarnessError, StepBudgetExceeded, KeyboardInterrupt, SystemExit, MemoryError)):
            return False
        if self.expected and issubclass(et, self.expected):
            self.raised = ev
            return True
        origin, func, loc = tb_origin(tb)
        if origin == 'repo':
            self.raised = ev
            key = '%s:%s@%s' % (self.key_prefix, et.__name__, func)
            if self.where:
                key = '%s:%s' % (key, self.where)
            self.ctx.violation(key, '%s: %s at %s\n%s' % (
                et.__name__, ev, loc, ''.join(traceback.format_exception(et, ev, tb)[-6:])),
                self.case)
            return True
        raise HarnessError('harness exception %s: %s at %s\n%s' % (
            et.__name__, ev, loc, ''.join(traceback.format_exception(et, ev, tb))))


def setup_child_paths():
    sys.dont_write_bytecode = True
    for p in (DEPS, VERIF, REPO):
        if p in sys.path:
            sys.path.remove(p)
    sys.path.insert(0, DEPS)
    sys.path.insert(0, VERIF)
    sys.path.insert(0, REPO)


def check_repo_imports():
    """Make sure the modules under test come from the tree we mean to test."""
    for name in REPO_MODULES:
        m = sys.modules.get(name)
        if m is not None:
            f = os.path.abspath(getattr(m, '__file__', ''))
            if not f.startswith(REPO + os.sep):
                raise HarnessError('module %s imported from %s, not from %s' % (name, f, REPO))


def child_main(spec_file, out_file):
    setup_child_paths()
    with open(spec_file) as f:
        spec = json.load(f)
    prop, tier, seed, shard = spec['prop'], spec['tier'], spec['seed'], spec['shard']
    tmp = tempfile.mkdtemp(prefix='pytough-verif-%s-' % prop)
    out = {'status': 'ok'}
    ctx = None
    cov = None
    try:
        # a shard that grows without bound (changed library code that keeps state it should not) ends with a MemoryError,
        # not with the machine swapping under sixteen of them
        import resource
        lim = int(float(os.environ.get('VERIF_SHARD_MEMORY_GB', '6')) * 2 ** 30)
        resource.setrlimit(resource.RLIMIT_AS, (lim, lim))
    except Exception:
        pass
    if os.environ.get('VERIF_COVERAGE_DIR'):
        # development aid (tools/coverage_map.sh): which lines of the repository the workloads of a check reach
        import coverage
        cov = coverage.Coverage(data_file=os.path.join(os.environ['VERIF_COVERAGE_DIR'], '.coverage.%s.%s.%d' % (prop, shard, os.getpid())),
                                include=[os.path.join(REPO, '*.py')])
        cov.start()
    argmap = None
    if os.environ.get('VERIF_ARGMAP_DIR'):
        # development aid: which optional arguments of the repository's functions the workloads ever set
        from vf import argmap as _am
        argmap = _am.start(REPO)
    try:
        # the files a check asks for go to one directory, the process works in another: whatever lands in the working
        # directory was put there by code that ignored the directory of the file name it was given
        work, cwd = os.path.join(tmp, 'files'), os.path.join(tmp, 'cwd')
        os.makedirs(work)
        os.makedirs(cwd)
        os.chdir(cwd)
        mod = importlib.import_module('vf.props.%s' % prop.lower())
        ctx = Ctx(prop, tier, seed, shard, spec, work)
        if spec.get('replay') is not None:
            mod.replay(ctx, spec['replay'])
        else:
            mod.run_shard(ctx, spec)
        check_repo_imports()
        stray = sorted(os.listdir(cwd))
        if stray:
            ctx.count('stray_files_in_working_directory', len(stray))
            ctx.see('stray_file_in_working_directory', stray[0])
    except BaseException as e:  # noqa
        out['status'] = 'harness_error'
        out['error'] = ''.join(traceback.format_exception(type(e), e, e.__traceback__))[-6000:]
    finally:
        if cov is not None:
            cov.stop()
            cov.save()
        if argmap is not None:
            argmap.stop(os.path.join(os.environ['VERIF_ARGMAP_DIR'], 'argmap.%s.%s.%d.json' % (prop, shard, os.getpid())))
        os.chdir('/')
        shutil.rmtree(tmp, ignore_errors=True)
    if ctx is not None:
        out['result'] = ctx.result()
        try:
            import resource
            out['result']['maxima']['shard_peak_memory_mb'] = (resource.getrusage(resource.RUSAGE_SELF).ru_maxrss // 1024, 'shard %s' % shard)
        except Exception:
            pass
    with open(out_file, 'w') as f:
        json.dump(out, f)


# ----------------------------------------------------------------------------
# parent side
# ----------------------------------------------------------------------------

def ensure_deps():
    if not os.path.isdir(os.path.join(DEPS, 'icontract')):
        subprocess.run(['sh', os.path.join(VERIF, 'setup.sh')], check=False,
                       stdout=subprocess.DEVNULL, stderr=subprocess.DEVNULL)


def load_known():
    try:
        with open(KNOWN) as f:
            k = json.load(f)
    except FileNotFoundError:
        return {}, []
    return {(e['property'], e['key']): e for e in k.get('findings', [])}, k.get('fixed', [])


def run_one_shard(spec, workdir, timeout):
    sf = os.path.join(workdir, 'spec-%d.json' % spec['shard'])
    of = os.path.join(workdir, 'out-%d.json' % spec['shard'])
    with open(sf, 'w') as f:
        json.dump(spec, f)
    env = dict(os.environ)
    env.setdefault('PYTHONHASHSEED', '0')
    env['PYTHONDONTWRITEBYTECODE'] = '1'
    env['OMP_NUM_THREADS'] = env['OPENBLAS_NUM_THREADS'] = env['MKL_NUM_THREADS'] = '1'
    env['MPLBACKEND'] = 'Agg'
    env['PYTHONPATH'] = VERIF
    t0 = time.time()
    try:
        p = subprocess.run([PY, '-m', 'vf.core', '--child', sf, of], cwd=VERIF, env=env,
                           timeout=timeout, stdout=subprocess.PIPE, stderr=subprocess.PIPE)
    except subprocess.TimeoutExpired:
        return {'status': 'watchdog', 'error': 'shard %d exceeded wall-clock watchdog of %ds'
                % (spec['shard'], timeout), 'shard': spec['shard']}
    if not os.path.exists(of):
        return {'status': 'harness_error', 'shard': spec['shard'],
                'error': 'child died rc=%s\n%s' % (p.returncode, p.stderr.decode('utf8', 'replace')[-4000:])}
    with open(of) as f:
        out = json.load(f)
    out['shard'] = spec['shard']
    out['stderr'] = p.stderr.decode('utf8', 'replace')[-2000:]
    out['elapsed'] = time.time() - t0
    return out


def parent_main(prop, tier, seed, replay=None, jobs=None):
    t0 = time.time()
    prop = prop.upper()
    ensure_deps()
    sys.path.insert(0, VERIF)
    meta = importlib.import_module('vf.meta')
    info = meta.PROPS[prop]
    if replay is not None:
        with open(replay) as f:
            rp = json.load(f)
        specs = [{'prop': prop, 'tier': tier, 'seed': rp.get('seed', seed), 'shard': 0,
                  'replay': rp['case']}]
    else:
        plan = meta.plan(prop, tier, seed)
        specs = []
        for i, s in enumerate(plan):
            d = {'prop': prop, 'tier': tier, 'seed': seed, 'shard': i, 'nshards': len(plan)}
            d.update(s)
            specs.append(d)
    if jobs is None:
        jobs = int(os.environ.get('VERIF_JOBS', '0')) or (8 if tier == 'quick' else 16)
    jobs = max(1, min(jobs, len(specs), os.cpu_count() or 1))
    timeout = info.get('watchdog_s', {}).get(tier, 1800 if tier == 'quick' else 7200)
    workdir = tempfile.mkdtemp(prefix='pytough-verif-run-')
    try:
        with ThreadPoolExecutor(jobs) as ex:
            outs = list(ex.map(lambda s: run_one_shard(s, workdir, timeout), specs))
    finally:
        shutil.rmtree(workdir, ignore_errors=True)
    return finish(prop, tier, seed, info, outs, time.time() - t0, replay is not None)


def finish(prop, tier, seed, info, outs, wall, is_replay):
    known, fixed = load_known()
    inconclusive = []
    ev = 0
    nontrivial = set()
    samples = []
    seen = defaultdict(Counter)
    counters = Counter()
    maxima = {}
    viol = {}
    foreign = Counter()
    notes = []
    for o in outs:
        if o['status'] != 'ok':
            inconclusive.append('%s in shard %s: %s' % (o['status'], o.get('shard'),
                                                        (o.get('error') or '').strip()[-1500:]))
        r = o.get('result')
        if not r:
            continue
        ev += r['evaluations']
        nontrivial.update(r['nontrivial'])
        for s in r['samples']:
            if len(samples) < 8:
                samples.append(s)
        for k, c in r['seen'].items():
            seen[k].update(c)
        counters.update(r['counters'])
        for k, (v, at) in r['maxima'].items():
            if k not in maxima or v > maxima[k][0]:
                maxima[k] = (v, at)
        for k, v in r['violations'].items():
            d = viol.setdefault(k, {'count': 0, 'witnesses': []})
            d['count'] += v['count']
            d['witnesses'].extend(v['witnesses'])
        foreign.update(r['foreign'])
        for n in r['notes']:
            if n not in notes:
                notes.append(n)

    # minimum-observation requirements => inconclusive, never "held"
    if not is_replay:
        req = info.get('require', {}).get(tier, info.get('require', {}).get('any', {}))
        for name, mn in req.get('counters', {}).items():
            if counters.get(name, 0) < mn:
                inconclusive.append('monitor counter %s=%d below required %d' % (name, counters.get(name, 0), mn))
        for cat, items in req.get('seen', {}).items():
            if isinstance(items, int):
                if len(seen.get(cat, {})) < items:
                    inconclusive.append('only %d distinct %s observed (< %d)' % (len(seen.get(cat, {})), cat, items))
            else:
                miss = [i for i in items if i not in seen.get(cat, {})]
                if miss:
                    inconclusive.append('situations never observed in %s: %s' % (cat, miss))
        if len(nontrivial) < req.get('nontrivial', 2):
            inconclusive.append('only %d distinct non-trivial cases (< %d)' % (len(nontrivial), req.get('nontrivial', 2)))
        if ev < 1:
            inconclusive.append('no oracle evaluation took place')

    lines = []
    new_viol = 0
    known_seen = []
    os.makedirs(REPLAY_DIR, exist_ok=True)
    for key in sorted(viol):
        v = viol[key]
        w = v['witnesses'][0]
        if (prop, key) in known:
            known_seen.append(key)
            lines.append('KNOWN-FINDING: property=%s %s -- %s (observed %d times this run)' % (
                prop, key, known[(prop, key)]['what'], v['count']))
            continue
        new_viol += 1
        path = os.path.join(REPLAY_DIR, '%s-%s.json' % (prop, digest(key + json.dumps(w['case'], sort_keys=True, default=repr))))
        with open(path, 'w') as f:
            json.dump({'property': prop, 'key': key, 'seed': seed, 'tier': tier, 'count': v['count'],
                       'what': w['what'], 'case': w['case'],
                       'more_witnesses': v['witnesses'][1:]}, f, indent=1, default=repr)
        lines.append('VIOLATION property=%s replay=%s key=%s count=%d :: %s' % (
            prop, path, key, v['count'], w['what'].splitlines()[0][:300] if w['what'] else ''))

    coverage = {
        'evaluations': int(ev),
        'distinct_nontrivial': len(nontrivial),
        'rule': info['rule'],
        'samples': samples if samples else ['(no sample recorded)'],
        'exhaustive': bool(info.get('exhaustive', {}).get(tier, False)),
        'situations_seen': {k: dict(sorted(c.items(), key=lambda kv: -kv[1])[:150]) for k, c in seen.items()},
        'situation_counts': {k: len(c) for k, c in seen.items()},
        'monitor_counters': dict(counters),
        'maxima_observed': {k: {'value': v, 'at': at} for k, (v, at) in maxima.items()},
        'known_findings_reobserved': known_seen,
        'foreign_observations': dict(foreign),
        'shards': len(outs),
        'inconclusive_reasons': inconclusive,
        'notes': notes,
    }
    if info.get('exhaustive_note'):
        coverage['exhaustive_subspace'] = info['exhaustive_note'].get(tier, '')
    evidence = {
        'property_id': prop, 'tier': tier, 'seed': int(seed), 'level': 'exploration',
        'coverage': coverage,
        'assumptions': info.get('assumptions', []),
        'wall_s': round(wall, 2),
        'violations': new_viol,
    }
    if not is_replay and ev < 1:
        # nothing was evaluated (e.g. every case failed before its oracle was reached): there is no evidence to
        # write -- the schema rightly refuses a run that observed nothing -- and the run cannot be "held"
        inconclusive.append('no oracle evaluation happened: no evidence file written')
    elif not is_replay:
        os.makedirs(EVIDENCE_DIR, exist_ok=True)
        validate_evidence(evidence)
        with open(os.path.join(EVIDENCE_DIR, '%s.json' % prop), 'w') as f:
            json.dump(evidence, f, indent=1, sort_keys=True, default=repr)

    for l in lines:
        print(l)
    summary = '%s tier=%s seed=%s evaluations=%d distinct_nontrivial=%d shards=%d wall=%.1fs' % (
        prop, tier, seed, ev, len(nontrivial), len(outs), wall)
    if new_viol:
        print('RESULT violated: %s' % summary)
        return EXIT_VIOLATION
    if inconclusive:
        for r in inconclusive:
            print('INCONCLUSIVE property=%s reason=%s' % (prop, r.replace('\n', ' | ')[:1500]))
        print('RESULT inconclusive: %s' % summary)
        return EXIT_INCONCLUSIVE
    print('RESULT held on what was observed: %s' % summary)
    return EXIT_HELD


def validate_evidence(ev):
    """Validate against the schema with jsonschema when available, else the
    required keys by hand (same rules as EVIDENCE.schema.json for exploration)."""
    schema_path = '/root/.vp/EVIDENCE.schema.json'
    local = os.path.join(VERIF, 'vf', 'EVIDENCE.schema.json')
    for p in (local, schema_path):
        if os.path.exists(p):
            try:
                sys.path.insert(0, DEPS)
                import jsonschema
                with open(p) as f:
                    jsonschema.validate(json.loads(json.dumps(ev, default=repr)), json.load(f))
                return
            except ImportError:
                break
            finally:
                if DEPS in sys.path:
                    sys.path.remove(DEPS)
    c = ev['coverage']
    assert isinstance(c['evaluations'], int) and isinstance(c['distinct_nontrivial'], int)
    assert isinstance(c['rule'], str) and isinstance(c['samples'], list) and c['samples']


def main(argv=None):
    argv = list(sys.argv[1:] if argv is None else argv)
    if argv and argv[0] == '--child':
        child_main(argv[1], argv[2])
        return 0
    import argparse
    ap = argparse.ArgumentParser(prog='check')
    ap.add_argument('prop')
    ap.add_argument('--tier', default=os.environ.get('VERIF_TIER', 'quick'), choices=['quick', 'thorough'])
    ap.add_argument('--seed', type=int, default=int(os.environ.get('VERIF_SEED', '0') or 0))
    ap.add_argument('--replay')
    ap.add_argument('--jobs', type=int)
    a = ap.parse_args(argv)
    return parent_main(a.prop, a.tier, a.seed, a.replay, a.jobs)


if __name__ == '__main__':
    sys.exit(main())
