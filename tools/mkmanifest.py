#!/venv/bin/python
"""Regenerates /verif/MANIFEST.json from the table below (kept valid at all times)."""
import json, os, sys
VERIF = os.path.dirname(os.path.dirname(os.path.abspath(__file__)))
ALL = ['C%02d' % i for i in range(1, 21)]

CLAIMED = {
 'C16': dict(
    technique='runtime differential monitor: reference Fortran reader + construction ground truth + in-situ sys.monitoring probe',
    text='Every call of fortran_float/fortran_int made by the workload (generated Fortran renderings with value known by construction, arbitrary printable strings, integer paddings) and every in-situ call made by the library while it reads shipped listing and initial-condition files is compared online with an independent recursive-descent Fortran reader; a call that does not return is an escaped exception. Held on the executions observed; the input space is unbounded, hence exploration.',
    note='Trusted: CPython float()/int() for the decimal->binary conversion of a canonical rendering; the oracle in vf/oracle/fortran_read.py. Texts made only of number characters that are not well-formed numbers, and texts whose only foreign character is "_", are unconstrained by the statement (no-raise only).',
    design='DESIGN.md §3 C16'),

 'C17': dict(
    technique='runtime enumeration monitor: own capacity arithmetic and (A3,I2) formatter as oracles, icontract post-conditions on fix/unfix, geometry construction at capacity limits',
    text='The real name generators are called for every integer of the walked range in 64 configurations and compared with own bijective-numeration arithmetic (distinctness, length, character set, exact capacity at which NamingConventionError must appear); rectangular geometries are built at sizes straddling every capacity limit with the outcome predicted by the oracle and every block name split back into the (column, layer) it was built from; fix/unfix/cycle clauses are evaluated on all 6^5 names over a class-complete alphabet plus random names, with icontract post-conditions on the real functions. Exploration: finite sub-spaces are enumerated completely (stated in the evidence), the property as a whole is unbounded.',
    note='Trusted: own capacity arithmetic (vf/props/c17.py capacity()), own (A3,I2) formatter; alphabetic character sets only (as the quantifier states). The printed-form clause is evaluated only for names the simulator can hold (4th character digit/blank, 5th digit).',
    design='DESIGN.md §3 C17'),

 'C02': dict(
    technique='runtime online slicer: own column arithmetic re-cuts every record the real writer produces; real parse_string compared with own slicing; file-level boundary-value round trips under a sys.monitoring record probe',
    text='For every field of every record kind in the four format tables the real write_values_to_string is driven over the stated value lattice (reals sign x exponent -120..120 x 6 mantissas, integers at and one past the width, names of every length, absent values) with populated or absent neighbours; each produced line is cut by column offsets recomputed from the spec strings and every field compared with what was written (exact for fitting values; reduced precision or a loud failure for over-wide ones; neighbours always intact), and the real parse_string must agree with the own slicing. Thorough walks the whole lattice (exhaustive for that lattice); quick samples the exponent axis. Boundary values also go through the public t2incon/mulgrid/t2data writers and readers with a probe re-slicing every record written in situ.',
    note='Trusted: C-style % formatting as the definition of the nominal text; own layout parser in vf/oracle/columns.py. Over-long names are outside the quantifier and are not judged. The format tables themselves are taken as given (a wrong table is C01/C03/C13 matter).',
    design='DESIGN.md §3 C02'),

 'C14': dict(
    technique='runtime identity monitor on returned values: inverse pairs, finite-difference single-potential identities, boundary-jump and Clausius-Clapeyron consistency, region classifier vs own transcription of the IF97 region definition',
    text='The real IAPWS97 routines are evaluated on dense grids and random states in every region and on both sides of every region boundary; oracles use only returned values (no coefficient is read): tsat/sat and b23t/b23p must invert each other, (d,u) must satisfy the Maxwell-type identity of a single potential by central differences, density must rise with pressure, viscosity must be positive (including exactly at the critical density/temperature), jumps across the 1-3 and 2-3 boundaries must stay within the IF97 consistency tolerances, the Clausius-Clapeyron relation must tie sat, cowat and supst together, and region() must equal an own transcription of the release definition away from the boundary curves. Exploration over sampled states; the largest residual of every identity is recorded in the evidence.',
    note='Trusted: the IF97 region definition and B23 equation as transcribed in vf/props/c14.py; finite-difference resolution (thresholds are 50-500x above the residuals observed on the unchanged tree). A coefficient change that leaves the formulation self-consistent and within boundary tolerances is not a violation of this property and is not detected here (C15 cross-checks against IFC-67).',
    design='DESIGN.md §3 C14'),

 'C15': dict(
    technique='runtime cross-formulation differential (IFC-67 vs IAPWS-97) inside frozen envelopes + returned-value identities + bounds logic against an own transcription of the stated ranges',
    text='The real t2thermo routines run over liquid, steam and saturation grids and random states; each result is compared online with the IAPWS97 routine at the same state inside envelopes frozen at about twice the largest inter-formulation difference observed on the unchanged tree, the single-potential identity and the Clausius-Clapeyron relation are evaluated on returned values, tsat must invert sat, the bounds flag must return None exactly outside the documented IFC-67 region 1/2 ranges (both sides of every limit), the two region classifiers must agree below 350 degC and above the critical temperature away from the boundary curves, and the separated steam fraction must stay in [0,1], be monotone over a 200-point enthalpy ladder and reach 0 and 1 at the ends, for one and two stages. Exploration over sampled states.',
    note='Trusted: the envelopes (calibrated once on the unchanged tree, printed with the observed maxima in the evidence); own transcription of the documented ranges and of the IFC-67 L-function. Changes smaller than the envelope (e.g. 1e-4 relative in a coefficient) are below the resolution of the cross-check unless they break an identity.',
    design='DESIGN.md §3 C15'),

 'C08': dict(
    technique='runtime history monitor: bounded exhaustive replay of edit sequences on real t2grid objects against an executable list/dict reference model + structural invariants at quiescent points',
    text='Every sequence of enabled edit operations up to depth 4 (sparse start states) / 3 (rich start states) over a universe of 4 block names and 2 rock types - including every block permutation, every connection permutation x reversal subset and every collision-free injective rename map (swaps, cycles, chains) - is replayed from scratch on a real t2grid; after every step the live object is projected and compared with a reference model written from the user guide and the structural invariants of the property are evaluated on it. Random sequences of up to 60 operations on grids built from geometries add minc, +, embed, reorder(geo), check(fix), with the same invariants attached as a quiescent contract to every public mutator. The enumerated sub-space is exhaustive (stated in the evidence); the property as a whole quantifies over unbounded histories, hence exploration.',
    note='Trusted: the reference model in vf/oracle/gridmodel.py. Operations are applied only when their documented precondition holds. Operands of + and embed are judged through the result only (they share block objects with it and are spent). Known finding: rename_rocktype after add_rocktype replaced an in-use rock type.',
    design='DESIGN.md §3 C08'),

 'C09': dict(
    technique='runtime before/after monitor: physical signature of the flow network (per-pair area, direction, per-block distance, upper block; per-block volume, rock, centre) compared across real reorder/rename/MINC/embed executions and data-file round trips',
    text='Grids are generated from rectangular and shipped irregular geometries (all atmosphere types, random surfaces); compositions of 1-4 real operations (random block permutations, connection permutations with random/all reversals, reorder(geo=differently ordered geometry), random one-to-one renames incl. swaps/cycles) are executed and after every step the physical signature computed by the harness is compared with the one before (names mapped through the rename map) - exactly in memory, through the carrying field formats after a data-file write/read. MINC runs with 2-6 fractions summing to <1, 1, >1, 1-3 plane sets, full/partial selections: per original block the continua volumes must sum to the original and match the normalised fractions, the new connections must form one outer-to-inner chain, the original network must be untouched; embed must conserve total volume.',
    note='Trusted: the signature definition in vf/props/c09.py (upper block = block[1] for a negative gravity cosine; cosines below 1e-9 carry no orientation). MINC interface areas and nodal distances are not checked (the property does not state them).',
    design='DESIGN.md §3 C09'),

 'C13': dict(
    technique='runtime round-trip monitor: model projection through field formats, byte identity of rewrite, independent Fortran-style SAVE writer feeding the real reader, in-situ record re-slicing',
    text='Generated initial-condition sets (0-40 blocks, 1-12 variables, negative/zero/3-digit-exponent values, optional porosity, TOUGHREACT permeabilities incl. zeros, nseq/nadd, timing x reset, names of all four conventions and (A3,I2) quirk forms) are written by the real writer, re-read by the real reader and compared with the expected model (reals through the carrying field format, exactly); the re-read object is written again and must reproduce the first file byte for byte; the header of a non-reset file must announce the block count and time. Independently, SAVE-like files emitted by an own Fortran-style writer (0.ddddE+xx and 1P styles, letter-less 3-digit exponents, long header, both timing layouts) must be decoded to the emitted model. The 7 shipped files go through the same cycle; every record written is re-sliced in situ by the C02 monitor.',
    note='Trusted: vf/oracle/fortran_writer.py, the expected-model projection in vf/props/c13.py. Domain: values fit their fields; the TOUGHREACT flavour is only claimed when some block carries permeabilities (the only way a file shows it); convention-3 names are read with check_blocknames=False as documented.',
    design='DESIGN.md §3 C13'),

 'C03': dict(
    technique='runtime round-trip monitor: geometry model projected through the two-decimal coordinate fields and unit scale, byte identity of rewrite, own re-parse of feet files, independent Fortran-style geometry writer feeding the real reader',
    text='Generated geometries (rectangular with random spacings x 4 conventions x 3 atmosphere types x metres/feet x 3 block orders x case, random surfaces below/on/above layer boundaries, wells, specified centres incl. ones on a coordinate axis, layers centred on zero, tilt and permeability angle, coordinates near the 10-column limit) and shipped geometries with refined/rotated/translated/reduced derivatives are written by the real writer and re-read: the re-read model must equal the projection of the original through the file precision, the block and connection name lists must be identical, a second write must be byte-identical, and for feet the node records of the file itself are re-parsed by own column arithmetic and must hold metres/0.3048 under a FEET header. Files emitted by an own Fortran-style writer (keyword variants, blank flags and layer centres, E styles) must be decoded to the emitted model.',
    note='Trusted: layout transcribed from doc/source/mulformat.rst in vf/props/c03.py emit_geometry(), vf/oracle/fortran_writer.py. Right-justified names only. Failures while *building* derived geometries are reported as foreign observations for C10, not as round-trip violations.',
    design='DESIGN.md §3 C03'),

 'C01': dict(
    technique='runtime round-trip monitor: generated data-object descriptors built through the public API, model projected through the carrying field formats, byte identity of write/read cycles for main, mesh and extra-precision files, independent Fortran-style emitter in arbitrary section order, real files',
    text='Descriptors covering both flavours, any subset of the 23 section kinds, list lengths on both sides of the 4- and 8-per-line boundaries, table generators with and without enthalpy, 0-13 default incons, None in optional fields, mesh in file / MESH / MESHA+MESHB and extra precision off / on / echoed are turned into t2data objects, written by the real writer, re-read by the real reader and compared field by field with the descriptor projected through the format of each carrying field (exact equality), including the section order; w2 must equal w1 up to trailing blanks and w3, w4 must be byte-identical to w2 for every file written. Independently, the same descriptors are rendered by an own Fortran-style emitter (upper-case E and 1P reals, (A3,I2) names, own record structure, random legal section order) and the reader must return the emitted model. The real files under tests/data run through the same cycle. Every record written is re-sliced in situ by the C02 monitor and the read_/write_ methods reached are counted.',
    note='Trusted: the format tables (column positions) as given; vf/gen/datacase.py, expected() and emit_fortran() in vf/props/c01.py. Domain (DESIGN.md): values fit their fields; extra-precision subsets closed under dependency (ELEME needs ROCKS, CONNE needs ELEME), non-empty, and not covering the mesh when the mesh is external; in echo mode the echoed sections of the main file are excluded from the w1/w2 comparison (legitimate double rounding); short output and history requests only with an in-file mesh.',
    design='DESIGN.md §3 C01'),

 'C04': dict(
    technique='runtime reference-geometry monitor: every block and connection of the grid built by the real fromgeo() is re-derived by own plane geometry from node positions, column centres, layer elevations and surfaces',
    text='For generated rectangular geometries (random spacings/origins, all conventions, atmosphere types, block orders, permeability angles, tilts, rotated/translated, surfaces from just above the bottom layer to above the top layer incl. exactly on layer boundaries, specified column centres) and the shipped irregular geometries with refinements, with and without a random injective block map, the grid returned by the real fromgeo() is compared element by element with an own derivation: block and connection lists against the geometry\'s own name lists (order and orientation), volumes = own shoelace area x height to layer top or surface, total volume = sum of area x depth, horizontal areas = shared-edge length x lower height, distances = perpendicular distances of the column centres from the shared edge, gravity cosines from the centre-to-centre line and the tilt vector, permeability direction from the rotated axes, vertical connections lower-block-first with distances adding up to the centre separation, atmosphere connections with surface-to-centre and atmosphere-connection distances.',
    note='Trusted: vf/oracle/polygeo.py (shoelace relative to the first vertex, point-line distance). Tolerance 1e-9 relative, widened by 4e-16 x (coordinate product / area) for quantities proportional to a column area (float64 conditioning on map coordinates in the millions; largest conditioning number seen is recorded in the evidence). Permeability direction is not judged within 1e-6 of a tie.',
    design='DESIGN.md §3 C04'),

 'C18': dict(
    technique='runtime inverse-function monitor: geometry -> real fromgeo -> (optional data-file round trip, optional renaming) -> real rectgeo -> comparison of the reconstructed geometry as sets of (column polygon, surface) and (layer bottom, top), and of fromgeo(reconstruction, block map) with the original grid through the C09 physical signature',
    text='Rectangular geometries (1-12 x 1-12 x 2-14 blocks, either horizontal direction possibly a single block, random spacings and origins, rotations with permeability direction 1 along the geometry\'s first axis, all atmosphere types and conventions, flat / stepped / sloping surfaces incl. exactly on layer tops, atmosphere volumes 1e25 / 1e50 / 0) are converted by the real fromgeo, optionally written to and re-read from a data file and optionally renamed to unrelated names; the real rectgeo must return a geometry whose columns (matched by position), surfaces, layers and atmosphere arrangement equal the original and a block map under which the real fromgeo regenerates the original block names, volumes and connections (area, direction, per-block distances, orientation).',
    note='Trusted: comparison code in vf/props/c18.py and the C09 signature. In memory the tolerance is 1e-7 x extent; after a file round trip it is computed from the resolution of the 10.3e centre fields (translation + rotation lever arm) and the 10.4e distance/volume fields. The remove_inactive=True option with demoted zero-volume blocks is not exercised (zero-volume atmosphere blocks are).',
    design='DESIGN.md §3 C18'),

 'C19': dict(
    technique='runtime differential monitor: real block_mapping / t2incon.transfer_from / t2data.transfer_from against brute-force nearest-centre search, the 3x3 atmosphere table and before/after snapshots',
    text='For generated pairs of geometries over the same region (coarse/fine, column- and layer-refined, shifted, resurfaced, identical, g7 vs refined g7) in all 9 atmosphere combinations and mixed conventions, every target block\'s mapping returned by the real block_mapping is compared with an exhaustive nearest-column / nearest-layer search including the move down to the first layer below ground, existence of the mapped source block, the column mapping and identity of a geometry onto itself; t2incon.transfer_from (with the brute-force mapping handed in) must give every underground block exactly its mapped source state, the atmosphere state per the 3x3 table (copy / broadcast / per-column / average / default), the geometry\'s block order, and leave the source untouched; t2data.transfer_from onto a deep copy of the same geometry must preserve every generator (block, category or name, rate, tables), total generation and rock assignment, with and without total preservation.',
    note='Trusted: brute-force search in vf/props/c19.py; pairs with two source candidates within 1e-6 relative distance are regenerated. Where the source has no single corresponding atmosphere block (target type 0 / source type 1, or source type 2) the mapping of the target atmosphere block is unconstrained except that it must not name a block the source does not have.',
    design='DESIGN.md §3 C19'),

 'C12': dict(
    technique='runtime differential monitor: real column_containing_point under every search aid, block_name_containing_point / block_contains_point and column_track against brute force (own winding-number containment over all columns, own parametric segment clipping), on geometries that are moved between query batches',
    text='On rectangular, locally refined (columns over three orders of magnitude in size), rotated, quarter-turned-with-one-ulp-noise and shipped irregular geometries, generated points (inside, in the bounding box outside the hull, outside the box, level with a node - in particular level with the lower end of a nearly-but-not-exactly level side) are located by the real search under ten aid combinations and compared with exhaustive own containment; 3-D points incl. above the ground of truncated columns, above the model top under a raised surface and below the model are compared with the unique containing block; straight lines are clipped against every column by own code and compared with the real track for membership, order, entry/exit points, abutting and total length, with the documented corner-clip allowance. The same geometry object is translated and rotated between batches.',
    note='Trusted: vf/oracle/polygeo.py. Points within 1e-6 x local size of an edge and lines through vertices are not generated; quadtrees over subsets use connected patches; the polygon bound is only used when the domain is convex. Known finding: long lines lose clips through the 3-decimal de-duplication in line_polygon_intersections.',
    design='DESIGN.md §3 C12'),

 'C10': dict(
    technique='runtime quiescent-point invariant monitor: every editing operation (all column / layer subsets), every pair and sampled longer sequences executed on real mulgrid objects, with own structural invariants evaluated on the live object after each public operation returns; partial model for predictable effects',
    text='On five small bases (2x2, 3x2, refined 2x2 with triangles, a pentagon mesh, a hexagon mesh; one column cut inside a layer, one exactly on a layer boundary; several atmosphere types and conventions) every single operation - refine with every column subset and every bisection mode with and without edge columns, decompose, reduce to every connected subset, split at every node, rename, refine_layers over every layer subset x factor 2..4, snapping, rotate, translate, copy_layers_from, atmosphere / block-order changes, check(fix) - and every pair of operations is executed and judged: lookups vs lists, node->column, column->connection and symmetric neighbour back-references, connection nodes = shared edge, counter-clockwise columns with up-to-date area, num_layers vs surface, block and connection name lists vs an own fresh derivation, and for operations that promise a valid mesh no missing / extra connections and no orphan nodes (from the polygons alone). Sampled triples and random sequences of up to 25 operations on geometries of up to 300 columns (shipped ones included, optionally followed by a file round trip) add depth; the add_/delete_ primitives are judged immediately after each call.',
    note='Trusted: vf/oracle/geoinv.py. Operations are identified by their index in a position-sorted canonical enumeration because refine() names new columns in set-iteration order. Domain: connected geometries; refine only where the selection and the columns around it are 3- or 4-sided; rename onto unused names. Known findings: the primitives do not refresh derived data (13 mechanism keys).',
    design='DESIGN.md §3 C10'),

 'C11': dict(
    technique='runtime conservation-and-tiling monitor around real refine / bisect / split / triangulate / decompose / refine_layers executions, with own area, volume, containment and conformity measurements and sys.monitoring probes on the nested transition / decomposition case code',
    text='Before and after each real operation (all selections on the small bases incl. second-level refinements, single columns / strips / L-shapes / boundary regions / annuli / random subsets on random rectangular geometries with surfaces below, inside, on and above layers, patches of shipped irregular geometries, synthetic 5..9-gons with 0..4 straight angles at every position and every rotation of the node list, every layer subset x factor) the harness measures total plan area and rock volume with own shoelace code, compares them with the stored areas and with the sum of the geometry\'s own block volumes, places sample points (centroids, random interior points, points just inside every old side and corner) and requires each to lie in exactly one new column that lies inside the old column and inherits its surface, and checks conformity from the polygons alone (no node in the interior of another column\'s edge, shared edge <=> connection). Probes on refine.transition_type and decompose_column record which of the 8 transition types and 6 decomposition cases were actually exercised; a run that misses one is inconclusive.',
    note='Trusted: vf/oracle/polygeo.py, vf/oracle/geoinv.py. Refine is requested only where the selection and the columns around it are 3- or 4-sided (the only shapes it supports); after triangulate_column (a helper that adds no connections) the harness adds the missing connections before judging conformity.',
    design='DESIGN.md §3 C11'),

 'C07': dict(
    technique='runtime history monitor: navigation sequences on a live t2listing object, state after every action compared with a freshly opened listing positioned directly at the index a ten-line navigation model predicts',
    text='For every shipped listing file (and truncated copies cut before a result set by an own scan of the raw text) the state (index, time, step, row names and every number of every table) of a fresh listing set directly to each index is recorded; then sequences over the full action alphabet (first, last, next, prev, index=i incl. negative, time=t exact / either side of each midpoint / before / after, step=s likewise, history) are executed on one live object - all sequences up to length 2 in the quick tier, up to length 4 / 3 / 2 by file size in the thorough tier, plus random sequences of 5-60 actions - and after every action the live state must equal the fresh state of the predicted index, next/prev must return whether they moved and never pass an end.',
    note='Trusted: the navigation model expected_index() in vf/props/c07.py; fresh snapshots come from the same reader (the property is about path independence, what the tables hold is C05). Times / steps exactly half-way between two result sets are not requested.',
    design='DESIGN.md §3 C07'),

 'C06': dict(
    technique='runtime differential monitor with a logical clock: real history() against stepping through index on a second object, termination decided by a readline-counting proxy file object, before/after state snapshots',
    text='For each of the 37 shipped listings, every non-empty subset of its tables in every order (all orders up to three tables, seeded orders beyond), with rows given by name, reversed name and integer index (first / interior / last / beyond the first page), three or all columns, list and tuple forms, both letter cases, short output on and off, and every starting index in {0, middle, last}, the series returned by the real history() are compared exactly with the series read by visiting every result time through index on an independent listing object (negated for reversed connection names); the times must be the full times (or the times incl. short output, with the values at short-output times compared with an own scan of the raw text); the listing\'s index, time, step and every table must be identical before and after the call; and the call must finish within a logical budget of 64 + 4 x (lines in the file) readline calls and never read more than 1000 times in a row at end of file - a budget overrun is the witness of non-termination, wall time is never a verdict.',
    note='Trusted: stepping through index as the definition of the expected series (what the tables hold is C05), the proxy file object, the own short-output scan in vf/props/c06.py.',
    design='DESIGN.md §3 C06'),
    'C05': dict(
        technique='runtime reference-model monitor: own tokenizer of the raw listing text (result sets, tables, rows, keys, numeric cells with character spans) compared cell by cell with the live reader at every result time, on the shipped files and on value-perturbed copies whose expected cells are known by construction; differential comparison across every subset of skipped tables',
        text='For all 37 shipped listings and same-width value-perturbed copies (new digits, negative, zero, three-digit exponents with and without letter, random mixes), every result time, table, row and cell the reader exposes equals the printed number (blank trailing cells zero), rows are keyed by the printed names, column names equal the header line, row-index / row-name / column-name addressing agree, and skipping any subset of tables leaves the other tables present and unchanged.',
        note='Trusted: vf/oracle/listing_ref.py (own tokenizer; re-tokenizing every perturbed copy must give the constructed values back, 3.3M cells per quick run), Python float() on a printed number.  Domain decisions (no + signs, lettered three-digit exponents only in non-touching fields, TOUGH2-MP duplicate rows) are in INFO assumptions.',
        design='DESIGN.md §3 C05'),
}

def main():
    checks = []
    for p in ALL:
        if p not in CLAIMED: continue
        c = CLAIMED[p]
        checks.append({
            'property_id': p,
            'quick_cmd': './check %s --tier quick' % p,
            'thorough_cmd': './check %s --tier thorough' % p,
            'evidence_file': 'evidence/%s.json' % p,
            'replay_cmd_template': './check %s --replay {path}' % p,
            'engine': 'vf',
            'level_claimed': {'category': 'exploration', 'text': c['text'], 'design_ref': c['design']},
            'level_note': c['note'],
            'technique': c['technique'],
        })
    na = [{'property_id': p, 'reason': NOT_YET.get(p, 'check not built yet in this round (runtime monitoring applies; see DESIGN.md §3); not claimed until its monitor is validated')}
          for p in ALL if p not in CLAIMED]
    m = {
        'version': 1,
        'setup_cmd': './setup.sh',
        'hooks': {
            'guard': 'PYTOUGH_VERIF',
            'enable': 'no source hooks: all monitors are attached from outside (class-attribute wrapping, sys.monitoring probes on code objects, proxy file objects); checks import the working tree of /repo directly (sys.path[0]=/repo or $VERIF_REPO)',
            'baseline_off_cmd': 'cd /repo && /venv/bin/python -m pytest -ra -q -p no:cacheprovider --timeout=900 --continue-on-collection-errors',
            'source_commits': [],
            'add_only': True,
        },
        'engines': [{'name': 'vf', 'path': 'vf/', 'serves_properties': sorted(CLAIMED),
                     'kind_free_text': 'pure-Python runtime-monitoring framework: seeded/enumerated hostile workloads against the real code, online reference-model monitors, sys.monitoring probes, quiescent-point invariants, three-valued verdicts'}],
        'checks': checks,
        'notes': 'All verdicts are "held on the executions observed". exit 0 held / 1 VIOLATION / 2 INCONCLUSIVE (monitor not reached, watchdog). Known findings: known_findings.json. Seeded breaking changes: seeded/, own mutants: mutants/ (tools/selftest.py).',
        'not_applicable': na,
    }
    json.dump(m, open(os.path.join(VERIF, 'MANIFEST.json'), 'w'), indent=1)
    print('claimed', len(checks), 'not claimed', len(na))
NOT_YET = {}
main()
