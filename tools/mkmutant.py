#!/venv/bin/python
"""mkmutant.py <name> <props> <file> <old> <new> [<file> <old> <new> ...]
Creates /verif/mutants/<name>.patch from exact string replacements (first
occurrence, must be unique unless prefixed with 'ALL:') on /repo's working tree."""
import difflib, os, sys
name, props = sys.argv[1], sys.argv[2]
args = sys.argv[3:]
out = ['# mutant: %s\n' % name, '# properties: %s\n' % props]
for i in range(0, len(args), 3):
    fn, old, new = args[i:i + 3]
    src = open(os.path.join('/repo', fn)).read()
    if old.startswith('ALL:'):
        old = old[4:]
        assert old in src
        dst = src.replace(old, new)
    else:
        assert src.count(old) == 1, '%s: %d occurrences of %r' % (fn, src.count(old), old)
        dst = src.replace(old, new)
    out.extend(difflib.unified_diff(src.splitlines(True), dst.splitlines(True), 'a/' + fn, 'b/' + fn))
open('/verif/mutants/%s.patch' % name, 'w').writelines(out)
print(''.join(out))
