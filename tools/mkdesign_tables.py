#!/venv/bin/python
"""Rewrites the generated tables of DESIGN.md section 8 (between the lines
'| property | commit | what failed |' ... '### 8.6') from known_findings.json,
seeded/*/meta.json and selftest_results.txt (output of tools/selftest.py)."""
import ast, json, os, re
V = os.path.dirname(os.path.dirname(os.path.abspath(__file__)))
d = json.load(open(os.path.join(V, 'known_findings.json')))
res = {}
for l in open(os.path.join(V, 'selftest_results.txt')):
    m = re.match(r'^(\S+) (C\d\d) (CAUGHT|MISSED.*?) (\[.*\])$', l.rstrip('\n'))
    if m:
        res[(m.group(1), m.group(2))] = (m.group(3), ast.literal_eval(m.group(4)))
out = ['| property | commit | what failed |', '|---|---|---|']
for f in d['fixed']:
    m = re.match(r'fixed: property=(\S+) (\S+) (.*)', f)
    out.append('| %s | %s | %s |' % (m.group(1), m.group(2), m.group(3).replace('|', '/')))
why = {'C14': 'a repair means choosing how the two correlations are reconciled at the critical point (clamp sat(), or widen tsat()\'s range); a maintainer\'s decision, and nothing but the single end point fails',
       'C15': 'changing the accepted range of supst(bounds=True) changes public behaviour users may rely on',
       'C12': 'the de-duplication tolerance in line_polygon_intersections is relative to the whole line length by design; making it absolute changes which short clips are dropped everywhere',
       'C10': 'the add_/delete_ primitives leave refreshing to the caller (setup_block_name_index etc. are public for that purpose); refreshing inside them changes their cost from O(1) to O(blocks) per call and their documented contract'}
out += ['', 'Recorded, not repaired (the check prints `KNOWN-FINDING:` and exits 0; any other violation still exits 1):', '',
        '| property | key (mechanism) | why not repaired |', '|---|---|---|']
seen = set()
for f in d['findings']:
    p = f['property']
    out.append('| %s | `%s` | %s |' % (p, f['key'], why.get(p, '') if p not in seen or p == 'C08' else 'as above'))
    seen.add(p)
notes = {'C02': 'own transcription of the table names / formats added (one of the two seeds had escaped the slicer)',
         'C14': 'a b23 function returning None is reported as a violation instead of crashing the oracle',
         'C08': 'replace_rocktype and clashing MINC names added to the edit alphabet',
         'C03': 'zero-mode surfaces and specified centres carried through derived geometries',
         'C18': 'blocks renamed before rectgeo',
         'C12': 'points level with vertices on nearly level sides; interior points with far-away guesses',
         'C06': 'short-table row selections',
         'C05': 'result times also reached through last / negative indices / next / prev / time / step before comparing with the text (round 2)',
         'C10': 'primitive followed directly by check(fix=True) without the harness refreshing in between (round 2); bulk renames that leave a name unchanged and renames onto the same name (round 3)',
         'C14': 'exact end points of the temperature and pressure ranges; own region definition tests the range in degC (round 2)',
         'C19': 'derived geometries (surfaces, then layer / column refinement) as the SOURCE of a mapping (round 2); transfer_from() also called with its default mapping arguments and compared with the explicit call (round 3)',
         'C04': 'atmosphere type changed on the finished geometry through the property setter (round 3)',
         'C13': 'the object must be the same after write(); the same object written again with the other reset value in between (round 3)',
         'C15': 'second separator pressure above as well as below the first (round 3)'}
rebased = []
rows = []
for s in sorted(os.listdir(os.path.join(V, 'seeded'))):
    m = json.load(open(os.path.join(V, 'seeded', s, 'meta.json')))
    prop = m['property'] if isinstance(m['property'], str) else m['property'][0]
    if m.get('rebased'):
        rebased.append(s)
    r = res.get((s, prop))
    if m.get('superseded'):
        r = ('SUPERSEDED (no longer breaks the property on the repaired tree, see 8.3)', [])
    summ = re.split(r'(?<=[.;]) ', m['summary'])[0][:260].replace('|', '/')
    keys = ', '.join('`%s`' % k for k in (r[1][:2] if r else []))
    rows.append('| %s | %s | %s %s | %s |' % (s, summ, r[0] if r else 'NOT RUN', keys, notes.get(prop, '')))
out += ['', '### 8.4 Seeded changes (independent sub-agents) and which checks catch them', '',
        '%d changes were written by fresh sub-agents (eighteen rounds: <id>-1, <id>-2 early on; <id>-3 after all checks existed;' % len(rows),
        '<id>-4 with the instruction to aim at interactions, carried state and boundary values; <id>-5 see below) that were given only the text of',
        'one property and a scratch git worktree of /repo (nothing from /verif).  Four of the twenty round-2 changes (C05-3,',
        'C10-3, C14-3, C19-3), five of the twenty round-3 changes (C04-4, C10-4, C13-4, C15-4, C19-4) and ten of the twenty',
        'round-4 changes (<id>-5), ten of the twenty round-5 changes (<id>-6) eleven of the twenty round-6 changes (<id>-7) eight of the twenty round-7 changes (<id>-8) eight of the twenty round-8 changes (<id>-9) ten of the twenty round-9 changes (<id>-10) eight of the twenty round-10 changes (<id>-11) three of the twenty round-11 changes (<id>-12) nine of the twenty round-12 changes (<id>-13) three of the round-13 changes (<id>-14) six of the twenty round-14 changes (<id>-15) and twelve of the twenty round-15 changes (<id>-16, one of them not a violation of the property as stated) four of the twenty round-16 changes (<id>-17) three of the twenty round-17 changes (<id>-18, one of them outside the documented input domain) and six of the round-18 changes (<id>-19) (shared helpers, optional arguments, call',
        'order, data-dependent corners, flavour-specific paths, copy semantics; tables at the end of 8.2) escaped the checks as they were; each miss was an input class the generators did not produce, the generators',
        'were widened, and all %d changes that still break a property as stated are now caught by the quick tier (the other %d are marked SUPERSEDED in the table: repaired away by a `fix:` commit, outside the documented domain, or themselves the repair of a known finding).  Each change was confirmed' % (len(rows) - sum(1 for r_ in rows if 'SUPERSEDED' in r_), sum(1 for r_ in rows if 'SUPERSEDED' in r_)),
        '(`tools/ingest_seed.py`: applies, the 37 pinned tests',
        'still pass, the agent\'s demonstration fails with the change and passes without) and is kept under',
        '`/verif/seeded/<id>-<n>/` (patch.diff, demo.py, meta.json).  %d patches (%s) had to be re-expressed by hand' % (len(rebased), ', '.join(rebased)),
        'after `fix:` commits touched the same lines (meta.json `rebased`).  The table is the last full run of',
        '`tools/selftest.py` (quick tier, seed 0; selftest_results.txt).  Checks that first missed a seeded change were',
        'strengthened (last column); none was special-cased.', '',
        '| seed | change | caught by (first violation keys) | check strengthened for this property\'s seeds |', '|---|---|---|---|'] + rows
out += ['', '### 8.5 Own mutants', '',
        'Written with `tools/mkmutant.py` while building each check (realistic slips: off-by-one, dropped refresh, swapped',
        'fields, wrong sign, reversed comparison, and the revert of every `fix:` commit).  Mutants that turned out to be',
        'equivalent with respect to the property were removed, not excused: c14-region-590, c04-block-centre-boundary,',
        'c11-midnode-off-centre, c15-ssf-two-stage, c18-surface-half-height, c01-short-frequency, c12-in-rectangle-open,',
        'c01-lineq-spec-swapped-widths, c06-skip-known-table-row-count (dead branch).  Result of the last full run:', '',
        '| mutant | property | result | first violation keys |', '|---|---|---|---|']
for (n, p), (st, keys) in sorted(res.items()):
    if n.endswith('.patch'):
        out.append('| %s | %s | %s | %s |' % (n[:-6], p, st, ', '.join('`%s`' % k for k in keys[:2])))
path = os.path.join(V, 'DESIGN.md')
s = open(path).read()
a = s.index('| property | commit | what failed |')
b = s.index('### 8.6 ')
open(path, 'w').write(s[:a] + '\n'.join(out) + '\n\n' + s[b:])
print('fixed %d, findings %d, seeds %d, mutant results %d' % (len(d['fixed']), len(d['findings']), len(rows), len([k for k in res if k[0].endswith('.patch')])))
