#!/venv/bin/python
"""merge_selftest.py <output of tools/selftest.py> ... : replaces / adds the (patch, property) lines of
selftest_results.txt with those of the given runs (latest wins), keeps the file sorted."""
import os, re, sys
V = os.path.dirname(os.path.dirname(os.path.abspath(__file__)))
path = os.path.join(V, 'selftest_results.txt')
pat = re.compile(r'^(\S+) (C\d\d) (CAUGHT|MISSED.*?) (\[.*\])$')
res = {}
for f in [path] + sys.argv[1:]:
    for l in open(f):
        m = pat.match(l.rstrip('\n'))
        if m:
            res[(m.group(1), m.group(2))] = l.rstrip('\n')
import json
for k in list(res):
    mp = os.path.join(V, 'seeded', k[0], 'meta.json')
    if os.path.exists(mp) and json.load(open(mp)).get('superseded'):
        del res[k]            # no longer a property-breaking change (meta.json says why): not part of the expectation
with open(path, 'w') as fh:
    for k in sorted(res):
        fh.write(res[k] + '\n')
print('%d entries, %d missed' % (len(res), sum(1 for v in res.values() if ' MISSED' in v)))
