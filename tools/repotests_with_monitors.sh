#!/bin/sh
# Runs the repository's own test suite (from tests/, where 104 of its 105 tests can run) with the
# global monitors of the checks switched on; prints what the monitors observed.
# Needs ./setup.sh to have been run (icontract in .deps).
V=$(cd "$(dirname "$0")/.." && pwd)
R=${VERIF_REPO:-/repo}
cd "$R/tests" && PYTHONPATH="$V:$V/.deps" VERIF_REPO="$R" PYTHONDONTWRITEBYTECODE=1 \
  /venv/bin/python -m pytest -q -p no:cacheprovider -p vf.pytest_plugin "$@" 2>&1 | grep -E "^vf monitors|passed|failed" 
