#!/venv/bin/python
"""selftest.py [--tier quick] [--props C16,C17] [--patches glob] [--dir mutants|seeded]
For each patch: copy the repository's working tree (sources copied, tests data
symlinked) to a scratch directory outside /repo and /verif, apply the patch, run
the checks of the properties it names with VERIF_REPO pointing at the scratch copy
and require exit 1 (a VIOLATION line).  Scratch copies are removed afterwards."""
import argparse, glob, json, os, re, shutil, subprocess, sys, tempfile
from concurrent.futures import ThreadPoolExecutor
VERIF = os.path.dirname(os.path.dirname(os.path.abspath(__file__)))
REPO = '/repo'

def scratch_copy():
    d = tempfile.mkdtemp(prefix='pytough-verif-mut-')
    for f in os.listdir(REPO):
        p = os.path.join(REPO, f)
        if f.endswith('.py') or f in ('pyproject.toml',):
            shutil.copy2(p, os.path.join(d, f))
    os.makedirs(os.path.join(d, 'tests'))
    for f in os.listdir(os.path.join(REPO, 'tests')):
        p = os.path.join(REPO, 'tests', f)
        if f.endswith('.py'):
            shutil.copy2(p, os.path.join(d, 'tests', f))
        else:
            os.symlink(p, os.path.join(d, 'tests', f))
    return d

def props_of(patch):
    if patch.endswith('patch.diff'):
        meta = json.load(open(os.path.join(os.path.dirname(patch), 'meta.json')))
        if meta.get('superseded'):
            return []          # no longer a property-breaking change on the repaired tree (see meta.json)
        p = meta['property']
        return p if isinstance(p, list) else [p]
    for l in open(patch):
        m = re.match(r'# properties:\s*(.*)', l)
        if m: return [x.strip() for x in m.group(1).split(',') if x.strip()]
    return []

def run(patch, tier, only, seed):
    d = scratch_copy()
    res = []
    try:
        p = subprocess.run(['patch', '-p1', '-s', '-d', d, '-i', os.path.abspath(patch)], capture_output=True, text=True)
        if p.returncode != 0:
            return [(patch, '-', 'PATCH-FAILED ' + p.stdout + p.stderr)]
        for prop in props_of(patch):
            if only and prop not in only: continue
            env = dict(os.environ, VERIF_REPO=d, VERIF_EVIDENCE_DIR=os.path.join(d, 'evidence'),
                       VERIF_REPLAY_DIR=os.path.join(d, 'replay'), VERIF_SEED=str(seed))
            q = subprocess.run([os.path.join(VERIF, 'check'), prop, '--tier', tier], capture_output=True, text=True, env=env)
            keys = re.findall(r'key=(\S+)', q.stdout)
            res.append((os.path.basename(os.path.dirname(patch)) if patch.endswith('patch.diff') else os.path.basename(patch), prop,
                        'CAUGHT' if q.returncode == 1 else ('MISSED rc=%d' % q.returncode), keys[:4], q.stdout[-600:] if q.returncode != 1 else ''))
    finally:
        shutil.rmtree(d, ignore_errors=True)
    return res

def main():
    ap = argparse.ArgumentParser()
    ap.add_argument('--tier', default='quick'); ap.add_argument('--props', default='')
    ap.add_argument('--patches', default=''); ap.add_argument('--seed', type=int, default=0)
    ap.add_argument('--jobs', type=int, default=4)
    a = ap.parse_args()
    pats = sorted(glob.glob(os.path.join(VERIF, 'mutants', '*.patch'))) + sorted(glob.glob(os.path.join(VERIF, 'seeded', '*', 'patch.diff')))
    if a.patches:
        pats = [p for p in pats if re.search(a.patches, p)]
    only = set(x for x in a.props.split(',') if x)
    if only:
        pats = [p for p in pats if only & set(props_of(p))]
    missed = 0
    with ThreadPoolExecutor(a.jobs) as ex:
        for res in ex.map(lambda p: run(p, a.tier, only, a.seed), pats):
            for r in res:
                print(*r[:4]); sys.stdout.flush()
                if not r[2].startswith('CAUGHT'):
                    missed += 1; print('   ', r[-1].replace('\n', '\n    '))
    print('missed: %d' % missed)
    return 1 if missed else 0
sys.exit(main())
