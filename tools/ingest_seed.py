#!/venv/bin/python
"""ingest_seed.py <Cxx> [outdir]
Confirms each sub-agent change independently in a scratch copy of /repo's current
tree (patch applies, the 37 pinned tests still pass, the demonstration fails with
the change and passes without it) and, if confirmed, stores it under
/verif/seeded/<Cxx>-<n>/ (patch.diff, demo.py, meta.json)."""
import json, os, shutil, subprocess, sys, tempfile, xml.etree.ElementTree as ET
sys.path.insert(0, os.path.dirname(os.path.abspath(__file__)))
VERIF = os.path.dirname(os.path.dirname(os.path.abspath(__file__)))
REPO = '/repo'
BASE = json.load(open('/root/.vp/BASELINE.json'))

def scratch_copy():
    d = tempfile.mkdtemp(prefix='pytough-verif-seed-')
    for f in os.listdir(REPO):
        p = os.path.join(REPO, f)
        if f.endswith('.py') or f == 'pyproject.toml':
            shutil.copy2(p, os.path.join(d, f))
    os.makedirs(os.path.join(d, 'tests'))
    for f in os.listdir(os.path.join(REPO, 'tests')):
        p = os.path.join(REPO, 'tests', f)
        if f.endswith('.py'): shutil.copy2(p, os.path.join(d, 'tests', f))
        else: os.symlink(p, os.path.join(d, 'tests', f))
    return d

def pinned(d):
    x = os.path.join(d, 'junit.xml')
    env = dict(os.environ, PYTHONPATH=d, PYTHONDONTWRITEBYTECODE='1')
    subprocess.run(['/venv/bin/python', '-m', 'pytest', '-q', '-p', 'no:cacheprovider', '--timeout=900',
                    '--continue-on-collection-errors', '--junitxml=' + x], cwd=d, env=env, capture_output=True)
    passed = set()
    for tc in ET.parse(x).getroot().iter('testcase'):
        if not list(tc):
            passed.add('%s::%s' % (tc.get('classname'), tc.get('name')))
    os.remove(x)
    want = set(BASE['stable_pass'])
    return sorted(want - passed)

def demo(d, script):
    env = dict(os.environ, PYTHONPATH=d, REPO_UNDER_TEST=d, PYTHONDONTWRITEBYTECODE='1', MPLBACKEND='Agg')
    try:
        p = subprocess.run(['/venv/bin/python', script], cwd=d, env=env, capture_output=True, text=True, timeout=1200)
    except subprocess.TimeoutExpired:
        return 124, 'timeout'
    return p.returncode, (p.stdout + p.stderr)[-1500:]

def main():
    prop = sys.argv[1]
    out = sys.argv[2] if len(sys.argv) > 2 else '/tmp/seedwork/out-%s' % prop
    notes = json.load(open(os.path.join(out, 'notes.json')))
    props = {json.loads(l)['id']: json.loads(l) for l in open(os.path.join(VERIF, 'properties.jsonl'))}
    for n, note in enumerate(notes, int(os.environ.get('SEED_START', '1'))):
        patch = os.path.join(out, note['patch']); dm = os.path.join(out, note['demo'])
        clean = scratch_copy(); mut = scratch_copy()
        try:
            p = subprocess.run(['patch', '-p1', '-s', '-d', mut, '-i', patch], capture_output=True, text=True)
            if p.returncode:
                print(prop, n, 'PATCH DOES NOT APPLY to current tree:', p.stdout[-300:]); continue
            for f in os.listdir(mut):
                if f.endswith('.orig') or f.endswith('.rej'): os.remove(os.path.join(mut, f))
            missing = pinned(mut)
            rc_clean, out_clean = demo(clean, dm)
            rc_mut, out_mut = demo(mut, dm)
            ok = (not missing) and rc_clean == 0 and rc_mut != 0 and rc_mut != 124
            print(prop, n, 'CONFIRMED' if ok else 'REJECTED', 'pinned-missing=%d demo clean rc=%d mutated rc=%d' % (len(missing), rc_clean, rc_mut))
            if not ok:
                print('   clean:', out_clean[-400:].replace('\n', ' | ')); print('   mut:', out_mut[-400:].replace('\n', ' | ')); continue
            dest = os.path.join(VERIF, 'seeded', '%s-%d' % (prop, n))
            os.makedirs(dest, exist_ok=True)
            # store the patch re-based on the current tree
            q = subprocess.run(['diff', '-u', '-r', '-x', 'tests', '-x', '*.orig', clean, mut], capture_output=True, text=True)
            txt = q.stdout.replace(clean + '/', 'a/').replace(mut + '/', 'b/')
            txt = '\n'.join(l for l in txt.split('\n') if not l.startswith('diff -u') and not l.startswith('Only in ')) 
            open(os.path.join(dest, 'patch.diff'), 'w').write(txt)
            shutil.copy2(dm, os.path.join(dest, 'demo.py'))
            json.dump({'property': prop, 'title': props[prop]['title'], 'summary': note.get('summary'),
                       'needs_to_manifest': note.get('needs_to_manifest'),
                       'origin': 'independent sub-agent given only the property text and a scratch worktree',
                       'confirmed_by': 'tools/ingest_seed.py: patch applied to a scratch copy of /repo HEAD; 37 pinned tests pass with it; demo.py exit %d with the change, exit 0 without' % rc_mut,
                       'agent_verification': note.get('verified'),
                       'demo_output_with_change': out_mut[-600:]}, open(os.path.join(dest, 'meta.json'), 'w'), indent=1)
        finally:
            shutil.rmtree(clean, ignore_errors=True); shutil.rmtree(mut, ignore_errors=True)
main()
