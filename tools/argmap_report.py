#!/venv/bin/python
"""argmap_report.py <dir> [file-filter]: merges the argmap.*.json files written by VERIF_ARGMAP_DIR=<dir> ./check Cxx
(development aid, vf/argmap.py) and lists, per repository function that was called, the optional arguments that were
never given a non-default value (and those never left at their default)."""
import glob, json, os, sys
d = sys.argv[1]
flt = sys.argv[2] if len(sys.argv) > 2 else ''
tot = {}
for f in glob.glob(os.path.join(d, 'argmap.*.json')):
    for q, r in json.load(open(f)).items():
        t = tot.setdefault(q, {'calls': 0, 'params': {}})
        t['calls'] += r['calls']
        for n, s in r['params'].items():
            t['params'].setdefault(n, set()).update(s)
for q in sorted(tot):
    if flt and flt not in q:
        continue
    never = [n for n, s in tot[q]['params'].items() if 'other' not in s]
    always = [n for n, s in tot[q]['params'].items() if 'default' not in s]
    if never or always:
        print('%-60s calls=%-8d never set: %s%s' % (q, tot[q]['calls'], ', '.join(never) or '-', ('   never default: ' + ', '.join(always)) if always else ''))
