#!/bin/sh
# Offline set-up: third-party monitor libraries next to the repository's interpreter.
# Everything comes from the pre-installed wheelhouse; nothing is fetched.
set -e
cd "$(dirname "$0")"
if [ ! -d .deps/icontract ] || [ ! -d .deps/jsonschema ]; then
  rm -rf .deps
  PIP_NO_INDEX=1 /venv/bin/pip install --quiet --no-index --find-links /opt/veriftools/wheels \
      --target .deps icontract jsonschema >/dev/null 2>&1 || \
  PIP_NO_INDEX=1 /venv/bin/pip install --no-index --find-links /opt/veriftools/wheels \
      --target .deps icontract jsonschema
fi
mkdir -p evidence replay
/venv/bin/python -c "import sys; sys.path.insert(0,'.deps'); import icontract, jsonschema; print('deps ok', icontract.__version__)"
